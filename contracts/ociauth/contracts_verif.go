//go:build verif

// Contracts for package ociauth, checked by /verif/govc. Comments only.

package ociauth

// ---------------------------------------------------------------------------
// C09: scopes are finite sets of (type, resource, action).
//
// Strings are atoms with a total order here (only == and Compare occur), the
// action masks are 8-bit vectors. `wf` is the representation invariant,
// `holds` the set model read off the representation; the set laws of the
// property are stated with `holds`.

//@ pure func lessRS(a ResourceScope, b ResourceScope) bool =
//@   a.ResourceType < b.ResourceType ||
//@   (a.ResourceType == b.ResourceType && (a.Resource < b.Resource ||
//@     (a.Resource == b.Resource && a.Action < b.Action)))

//@ pure func wfRepos(s Scope) bool =
//@   len(s.actions) == len(s.repositories) &&
//@   (forall i, j int :: 0 <= i && i < j && j < len(s.repositories) ==> s.repositories[i] < s.repositories[j]) &&
//@   (forall i int :: 0 <= i && i < len(s.actions) ==>
//@       s.actions[i] != 0 && s.actions[i] & 249 == 0 && (s.repositories[i] == "" ==> s.actions[i] == 2))

//@ pure func wfOthers(s Scope) bool =
//@   (forall i, j int :: 0 <= i && i < j && j < len(s.others) ==> lessRS(s.others[i], s.others[j])) &&
//@   (forall i int :: 0 <= i && i < len(s.others) ==> !s.others[i].isKnown())

//@ pure func wf(s Scope) bool =
//@   wfRepos(s) && wfOthers(s) && (s.unlimited ==> len(s.repositories) == 0 && len(s.others) == 0)

// The set model.
//@ pure func holdsCatalog(s Scope) bool =
//@   exists i int :: 0 <= i && i < len(s.repositories) && s.repositories[i] == ""
//@ pure func holdsRepo(s Scope, repo string, bit byte) bool =
//@   exists i int :: 0 <= i && i < len(s.repositories) && s.repositories[i] == repo && s.actions[i] & bit != 0
//@ pure func holdsOther(s Scope, r ResourceScope) bool =
//@   exists i int :: 0 <= i && i < len(s.others) && s.others[i] == r
// A known repository element: a named repository with pull or push. (A
// repository scope with an empty name is an ordinary "other" element: it must
// not be confused with the catalog scope, which the representation stores
// under the empty name.)
//@ pure func isRepoAction(r ResourceScope, action string) bool =
//@   r.ResourceType == TypeRepository && r.Resource != "" && r.Action == action
//@ pure func holds(s Scope, r ResourceScope) bool =
//@   s.unlimited ||
//@   (r == CatalogScope ? holdsCatalog(s) :
//@    (isRepoAction(r, ActionPull) ? holdsRepo(s, r.Resource, 2) :
//@     (isRepoAction(r, ActionPush) ? holdsRepo(s, r.Resource, 4) :
//@      holdsOther(s, r))))

//@ func (ResourceScope).Compare
//@   strings atom
//@   modifies nothing
//@   ensures[total-order] result == (lessRS(rs1, rs2) ? 0 - 1 : (rs1 == rs2 ? 0 : 1))

//@ func (ResourceScope).Equal
//@   strings atom
//@   modifies nothing
//@   ensures result == (rs1 == rs2)

//@ func (Scope).IsUnlimited
//@   modifies nothing
//@   ensures result == s.unlimited

//@ func (Scope).IsEmpty
//@   modifies nothing
//@   ensures result == (len(s.repositories) == 0 && len(s.others) == 0 && !s.unlimited)

//@ func UnlimitedScope
//@   modifies nothing
//@   ensures result.unlimited && len(result.repositories) == 0 && len(result.others) == 0 && len(result.actions) == 0

//@ func (Scope).Holds
//@   strings atom
//@   bytes bv
//@   modifies nothing
//@   requires wf(s)
//@   ensures[unlimited-holds-everything] s.unlimited ==> result
//@   ensures[catalog] !s.unlimited && r == CatalogScope ==> result == holdsCatalog(s)
//@   ensures[repository-pull] !s.unlimited && r != CatalogScope && isRepoAction(r, ActionPull) ==>
//@             result == holdsRepo(s, r.Resource, 2)
//@   ensures[repository-push] !s.unlimited && r != CatalogScope && isRepoAction(r, ActionPush) ==>
//@             result == holdsRepo(s, r.Resource, 4)
//@   ensures[other] !s.unlimited && r != CatalogScope && !isRepoAction(r, ActionPull) && !isRepoAction(r, ActionPush) ==>
//@             result == holdsOther(s, r)

//@ func (Scope).Equal
//@   pure
//@   strings atom
//@   bytes bv
//@   modifies nothing
//@   ensures[same-representation] result == (s1.unlimited == s2.unlimited &&
//@     len(s1.repositories) == len(s2.repositories) && len(s1.actions) == len(s2.actions) && len(s1.others) == len(s2.others) &&
//@     (forall i int :: 0 <= i && i < len(s1.repositories) ==> s1.repositories[i] == s2.repositories[i]) &&
//@     (forall i int :: 0 <= i && i < len(s1.actions) ==> s1.actions[i] == s2.actions[i]) &&
//@     (forall i int :: 0 <= i && i < len(s1.others) ==> s1.others[i] == s2.others[i]))

// Len counts the elements of the set model: the unknown elements plus, per
// repository entry, one for pull and one for push (a well-formed mask has no
// other bits; the catalog entry, mask 2, counts once).
//@ pure named func knownCount(s Scope, n int) int =
//@   n <= 0 ? 0 : knownCount(s, n - 1) + (s.actions[n - 1] & 2 != 0 ? 1 : 0) + (s.actions[n - 1] & 4 != 0 ? 1 : 0)
//@ func (Scope).Len
//@   bytes bv
//@   modifies nothing
//@   requires !s.unlimited
//@   loop 0 invariant 0 - 1 <= rangeindex && rangeindex < len(s.actions) && len(s.others) <= n && n <= len(s.others) + 8 * (rangeindex + 1)
//@   loop 0 invariant wfRepos(s) ==> n == len(s.others) + knownCount(s, rangeindex + 1)
//@   ensures[at-least-the-others-at-most-eight-per-repository] len(s.others) <= result && result <= len(s.others) + 8 * len(s.actions)
//@   ensures[counts-the-elements] wfRepos(s) ==> result == len(s.others) + knownCount(s, len(s.actions))

// Type invariant of Scope: its fields are unexported and every function of
// the package that builds or changes a Scope value (the zero value,
// UnlimitedScope, NewScope, ParseScope, Union, Canonical) is proved under C09
// to return a well-formed one; so a Scope value that reaches the package from
// outside (here: through a context) is well formed. Assumed, with this
// argument, at the two places where scopes enter the auth transport.
//@ func ScopeFromContext
//@   modifies nothing
//@   assume-return wf(result)
//@ func RequestInfoFromContext
//@   modifies nothing
//@   assume-return wf(result.RequiredScope)

//@ func ContextWithScope
//@   modifies nothing
//@   ensures result != nil

//@ func NewScope
//@   strings atom
//@   bytes bv
//@   modifies nothing
//@   ensures[well-formed] wf(result)
//@   ensures[not-unlimited] !result.unlimited
//@   loop 0 invariant 0 - 1 <= rangeindex && rangeindex < len(rss)
//@   loop 0 invariant !s.unlimited && len(s.actions) == len(s.repositories)
//@   loop 0 invariant forall i, j int :: 0 <= i && i < j && j < len(s.repositories) ==> s.repositories[i] < s.repositories[j]
//@   loop 0 invariant forall i int :: 0 <= i && i < len(s.actions) ==> s.actions[i] != 0 && s.actions[i] & 249 == 0
//@   loop 0 invariant forall i int :: 0 <= i && i < len(s.actions) ==> (s.repositories[i] == "" ==> s.actions[i] == 2)
//@   loop 0 invariant forall i int :: 0 <= i && i < len(s.others) ==> !s.others[i].isKnown()
//@   loop 0 invariant len(s.repositories) > 0 ==>
//@     exists m int :: 0 <= m && m <= rangeindex && rss[m].isKnown() &&
//@       ((rss[m] == CatalogScope && s.repositories[len(s.repositories)-1] == "") ||
//@        (rss[m].ResourceType == TypeRepository && rss[m].Resource == s.repositories[len(s.repositories)-1]))

//@ func (Scope).Iter
//@   modifies nothing
//@   ensures result != nil

// Iter's order: every element handed to the consumer is strictly greater (in
// the Compare order) than the one handed over before it - so the sequence is
// ascending and free of duplicates. `others` is the not yet delivered rest of
// the unknown elements; the helper closure (executed in place) delivers those
// that come before the element it is given.
//@ pure func atMostRepo(l ResourceScope, repo string) bool =
//@   l.ResourceType < TypeRepository || (l.ResourceType == TypeRepository && l.Resource <= repo)
//@ func (Scope).Iter$1
//@   strings atom
//@   bytes bv
//@   requires wf(s) && yield0 != nil
//@   yield-requires(x) yielded() > 0 ==> lessRS(yieldedAt(yielded() - 1), x)
//@   yield-requires(x) holds(s, x)
// (and, unless the consumer stops, as many elements are handed over as the set
// model has: knownCount + the unknown ones; with order and membership above,
// every element of the scope is therefore offered - by counting)
//@   ensures[as-many-as-the-scope-has-unless-told-to-stop] stopped() || s.unlimited ||
//@     yielded() == len(s.others) + knownCount(s, len(s.actions))
//@   loop 0 invariant 0 - 1 <= rangeindex && rangeindex < len(s.repositories) && !stopped()
//@   loop 0 invariant yielded() + len(others) == len(s.others) + knownCount(s, rangeindex + 1)
//@   loop 0 invariant len(others) <= len(s.others) && (forall a int :: 0 <= a && a < len(others) ==> others[a] == s.others[len(s.others) - len(others) + a])
//@   loop 0 invariant forall a, b int :: 0 <= a && a < b && b < len(others) ==> lessRS(others[a], others[b])
//@   loop 0 invariant forall a int :: 0 <= a && a < len(others) ==> !others[a].isKnown()
//@   loop 0 invariant yielded() > 0 && len(others) > 0 ==> lessRS(yieldedAt(yielded() - 1), others[0])
//@   loop 0 invariant yielded() > 0 ==> rangeindex >= 0 && atMostRepo(yieldedAt(yielded() - 1), s.repositories[rangeindex])
//@   loop 1 invariant !stopped() && repo != "" && 0 <= i && i < len(s.repositories) && repo == s.repositories[i]
//@   loop 1 invariant len(others) <= len(s.others) && (forall a int :: 0 <= a && a < len(others) ==> others[a] == s.others[len(s.others) - len(others) + a])
//@   loop 1 invariant acts == s.actions[i]
//@   loop 1 invariant yielded() + len(others) == len(s.others) + knownCount(s, i) +
//@     (k >= 2 && acts & 2 != 0 ? 1 : 0) + (k >= 3 && acts & 4 != 0 ? 1 : 0)
//@   loop 1 invariant forall a, b int :: 0 <= a && a < b && b < len(others) ==> lessRS(others[a], others[b])
//@   loop 1 invariant forall a int :: 0 <= a && a < len(others) ==> !others[a].isKnown()
//@   loop 1 invariant yielded() > 0 && len(others) > 0 ==> lessRS(yieldedAt(yielded() - 1), others[0])
//@   loop 1 invariant yielded() > 0 ==> yieldedAt(yielded() - 1).ResourceType < TypeRepository ||
//@     (yieldedAt(yielded() - 1).ResourceType == TypeRepository && (yieldedAt(yielded() - 1).Resource < repo ||
//@       (yieldedAt(yielded() - 1).Resource == repo && (k >= 3 || (k == 2 && yieldedAt(yielded() - 1).Action < ActionPush)))))
//@   loop 2 invariant 0 - 1 <= rangeindex#1 && rangeindex#1 < len(others) && !stopped()
//@   loop 2 invariant yielded() + len(others) - (rangeindex#1 + 1) == len(s.others) + knownCount(s, len(s.actions))
//@   loop 2 invariant len(others) <= len(s.others) && (forall a int :: 0 <= a && a < len(others) ==> others[a] == s.others[len(s.others) - len(others) + a])
//@   loop 2 invariant forall a, b int :: 0 <= a && a < b && b < len(others) ==> lessRS(others[a], others[b])
//@   loop 2 invariant yielded() > 0 && rangeindex#1 + 1 < len(others) ==> lessRS(yieldedAt(yielded() - 1), others[rangeindex#1 + 1])
//@ func (Scope).Iter$1$1
//@   inline
//@   loop 0 invariant !stopped()
//@   loop 0 invariant yielded() + len(others) == atEntry(yielded() + len(others))
//@   loop 0 invariant len(others) <= len(s.others) && (forall a int :: 0 <= a && a < len(others) ==> others[a] == s.others[len(s.others) - len(others) + a])
//@   loop 0 invariant forall a, b int :: 0 <= a && a < b && b < len(others) ==> lessRS(others[a], others[b])
//@   loop 0 invariant forall a int :: 0 <= a && a < len(others) ==> !others[a].isKnown()
//@   loop 0 invariant yielded() > 0 && len(others) > 0 ==> lessRS(yieldedAt(yielded() - 1), others[0])
//@   loop 0 invariant yielded() > 0 ==> lessRS(yieldedAt(yielded() - 1), scope)

// ---------------------------------------------------------------------------
// C19: credential lookup from a Docker-style config file.
//
// EntryForRegistry: a per-host helper wins over the default store, which wins
// over the auths table; a missing default helper falls back to the table; the
// helper is run exactly once with (helper name, host). In the table, an entry
// reached through several URL-form keys fails, and the entry returned carries
// exactly the fields of the table entry. The result is a function of the
// decoded data and the helper's answer only (no iteration over a map).
//@ invariant (*ConfigFile) self != nil
//@ immutable ConfigFile.data, ConfigFile.runner
//@ pure func chosenHelper(c *ConfigFile, host string) string = in(c.data.CredHelpers, host) ? c.data.CredHelpers[host] : c.data.CredsStore
//@ func (*ConfigFile).EntryForRegistry
//@   requires c.runner != nil
//@   private c
//@   ensures[helper-consulted-exactly-once] chosenHelper(c, registryHostname) != "" ==> calls == [c.runner(chosenHelper(c, registryHostname), registryHostname)]
//@   ensures[no-helper-no-call] chosenHelper(c, registryHostname) == "" ==> ncalls() == 0
//@   ensures[per-host-helper-wins] in(c.data.CredHelpers, registryHostname) && c.data.CredHelpers[registryHostname] != "" ==>
//@     calls == [c.runner(_, _)] && result.0 == calls[0].result.0 && result.1 == calls[0].result.1
//@   ensures[default-store-wins-over-the-table] !in(c.data.CredHelpers, registryHostname) && c.data.CredsStore != "" ==>
//@     calls == [c.runner(_, _)] && ((calls[0].result.1 != nil && errIs(calls[0].result.1, ErrHelperNotFound)) ||
//@       (result.0 == calls[0].result.0 && result.1 == calls[0].result.1))
//@   ensures[several-url-keys-for-one-host-fail] (chosenHelper(c, registryHostname) == "" ||
//@       (calls == [c.runner(_, _)] && !in(c.data.CredHelpers, registryHostname) && calls[0].result.1 != nil && errIs(calls[0].result.1, ErrHelperNotFound))) &&
//@     len(c.data.Auths[registryHostname].derivedFrom) > 1 ==> result.1 != nil
//@   ensures[table-entry-returned-as-is] (chosenHelper(c, registryHostname) == "" ||
//@       (calls == [c.runner(_, _)] && !in(c.data.CredHelpers, registryHostname) && calls[0].result.1 != nil && errIs(calls[0].result.1, ErrHelperNotFound))) && result.1 == nil ==>
//@     result.0.Username == c.data.Auths[registryHostname].Username && result.0.Password == c.data.Auths[registryHostname].Password &&
//@     result.0.RefreshToken == c.data.Auths[registryHostname].IdentityToken && result.0.AccessToken == c.data.Auths[registryHostname].RegistryToken &&
//@     len(c.data.Auths[registryHostname].derivedFrom) <= 1

// decodeAuth: the decoded text is split at its first colon: the user name is
// non-empty and holds no colon, and user + ":" + password (before the NUL
// trimming that mirrors the docker CLI) is exactly the decoded text.
// decodeConfigFile: the loop over the decoded table is left for the code after
// it only when the iteration is exhausted, so every entry of the document is
// processed whatever order the map is walked in (the only other way out is
// the error return for an undecodable auth field).
// An explicit entry wins: an iteration leaves every entry that is not derived
// from a URL-form key (derivedFrom empty), other than the one it is visiting,
// exactly as it is - whatever the visiting order, and whatever the entry holds
// (also one given only by its "auth" field, not decoded yet, or an empty one).
//@ func decodeConfigFile
//@   loop 0 exit exhausted(f.Auths)
//@   loop 0 step forall k string :: old(in(f.Auths, k)) && old(len(f.Auths[k].derivedFrom)) == 0 && k != addr ==>
//@     in(f.Auths, k) && f.Auths[k] == old(f.Auths[k])

// urlHost: the host part of a URL-form key is what stands between the scheme
// (http:// or https://, if any) and the first following slash - nothing of the
// host name itself is dropped.
//@ pure func hostOf(rest string, host string) bool =
//@   hasPrefix(rest, host) && !contains(host, "/") && (len(host) == len(rest) || rest[len(host)] == '/')
//@ func urlHost
//@   ensures[http] hasPrefix(url, "http://") ==> hostOf(url[7:], result)
//@   ensures[https] hasPrefix(url, "https://") ==> hostOf(url[8:], result)
//@   ensures[no-scheme] !hasPrefix(url, "http://") && !hasPrefix(url, "https://") ==> hostOf(url, result)

//@ func decodeAuth
//@   modifies nothing
//@   ensures[split-at-the-first-colon] result.2 == nil ==> result.0 != "" && !contains(result.0, ":") &&
//@     hasPrefix(string(s), result.0 + ":") && password == string(s)[len(result.0) + 1:]
//@   ensures[no-user-no-credentials] result.2 != nil ==> result.0 == "" && result.1 == ""
//@   ensures[standard-base64-alphabet] result.2 == nil ==> string(s) == b64dec(base64.StdEncoding, authStr)

//@ func urlHost
//@   modifies nothing
//@   ensures[no-path] !contains(result, "/")

// ---------------------------------------------------------------------------
// C10 / C11: the auth transport.
//
// Scope.Contains, Scope.Union, ParseScope and Scope.String are used here as
// pure functions of their (value) arguments; what they compute is C09's
// business. Token expiry is compared with time.Time's value methods.
//@ func (Scope).Union
//@   pure
//@ func (Scope).Contains
//@   pure
//@ func ParseScope
//@   pure
//@ func (Scope).String
//@   pure

// Per-host state: the registry record filed under a host name is the record
// of that host, so the credentials, tokens and challenge kept in it are only
// ever used for requests to that host.
//@ guarded_by stdTransport.mu: stdTransport.registries
//@ guarded_by registry.mu: registry.wwwAuthenticate, registry.accessTokens, registry.refreshToken, registry.basic
//@ immutable stdTransport.registries
//@ iface-pure Context.Value
//@ immutable stdTransport.config, stdTransport.transport, registry.host, registry.transport, registry.config
//@ invariant (*stdTransport) self != nil && self.registries != nil && self.transport != nil && self.config != nil
//@ invariant (*stdTransport) forall h string :: in(self.registries, h) ==> self.registries[h] != nil && self.registries[h].host == h
//@ invariant (*registry) self != nil && self.transport != nil && self.config != nil
// The challenge a record remembers is one its host issued, and of a scheme
// this client implements: Basic or Bearer (what challengeFromResponse selects
// out of a response; proved below). A parsed header's scheme never changes.
//@ immutable authHeader.scheme, authHeader.params
//@ pure func isChallenge(h *authHeader) bool = h != nil && (h.scheme == "basic" || h.scheme == "bearer")
//@ invariant (*registry) self.wwwAuthenticate != nil ==> isChallenge(self.wwwAuthenticate)
//@ invariant (*registry) forall i int :: 0 <= i && i < len(self.accessTokens) ==> self.accessTokens[i] != nil
// every cached token is filed under a well-formed scope (Contains is only
// specified for well-formed operands)
//@ invariant (*registry) forall i int :: 0 <= i && i < len(self.accessTokens) ==> wf(self.accessTokens[i].scope)
//@ immutable scopedToken.scope, scopedToken.token, scopedToken.expires

// Cache lookup: the token returned is a cached token whose scope contains the
// scope asked for; none is returned only if no cached token's scope does.
//@ func (*registry).accessTokenForScope
//@   holds r.mu
//@   requires wf(scope)
//@   log
//@   modifies nothing
//@   loop 0 invariant forall j int :: 0 <= j && j <= rangeindex ==> !r.accessTokens[j].scope.Contains(scope)
//@   ensures[a-cached-token-that-covers-the-scope] result != nil ==> memberOf(r.accessTokens, result) && result.scope.Contains(scope)
//@   ensures[none-only-if-none-covers] result == nil ==> forall j int :: 0 <= j && j < len(r.accessTokens) ==> !r.accessTokens[j].scope.Contains(scope)

// Expired tokens are dropped (and only those).
//@ func (*registry).deleteExpiredTokens
//@   holds r.mu
//@   log
//@   modifies ociauth.registry.accessTokens
//@   ensures[only-fresh-tokens-remain] forall t *scopedToken :: memberOf(r.accessTokens, t) ==>
//@     !now.After(t.expires) && memberOf(old(r.accessTokens), t)
//@   ensures[fresh-tokens-are-kept] forall t *scopedToken :: memberOf(old(r.accessTokens), t) && t != nil && !now.After(t.expires) ==> memberOf(r.accessTokens, t)
//@ func (*registry).deleteExpiredTokens$1
//@   requires tok != nil

// A token is recorded under the scope of the token request that produced it:
// the wide request (required + desired) or, when the token server refuses
// that with 401, the narrow retry with the required scope only.
//@ func (*registry).acquireAccessToken
//@   holds r.mu
//@   log
//@   modifies ociauth.registry.accessTokens, ociauth.registry.refreshToken, url.URL.RawQuery
//@   requires r.wwwAuthenticate != nil && wf(requiredScope) && wf(wantScope)
//@   ensures[recorded-under-the-scope-it-was-issued-for] result.1 == nil ==> len(r.accessTokens) == old(len(r.accessTokens)) + 1 &&
//@     r.accessTokens[len(r.accessTokens) - 1].token == result.0 && result.0 != "" &&
//@     ((calls == [r.acquireToken(ctx, requiredScope.Union(wantScope))] && r.accessTokens[len(r.accessTokens) - 1].scope == requiredScope.Union(wantScope)) ||
//@      (calls == [r.acquireToken(ctx, requiredScope.Union(wantScope)), r.acquireToken(ctx, requiredScope)] && r.accessTokens[len(r.accessTokens) - 1].scope == requiredScope))
//@   ensures[older-tokens-kept] forall j int :: 0 <= j && j < old(len(r.accessTokens)) ==> j < len(r.accessTokens) && r.accessTokens[j] == old(r.accessTokens[j])
//@   ensures[challenge-untouched] r.wwwAuthenticate == old(r.wwwAuthenticate) && r.basic == old(r.basic)

//@ func (*registry).acquireToken
//@   holds r.mu
//@   log
//@   requires r.wwwAuthenticate != nil
//@   modifies url.URL.RawQuery
//@   ensures[token-or-error] result.1 == nil ==> result.0 != nil

// setAuthorization: what goes into the request before it is first sent.
//  * a cached token is used only if it survived the expiry sweep (it does not
//    expire before one second from now) and its scope contains the required
//    scope; then no token request is made;
//  * nothing is added before the host has answered 401 with a challenge
//    (in particular no password);
//  * the password goes out as Basic only when the last challenge was not a
//    Bearer challenge; with a Bearer challenge only the refresh-token flow runs.
//@ func (*registry).setAuthorization
//@   private req
//@   modifies ociauth.registry.accessTokens, ociauth.registry.refreshToken, url.URL.RawQuery, map:http.Header
//@   requires req != nil && req.Header != nil && wf(requiredScope) && wf(wantScope)
//@   ensures[cached-token-goes-into-the-header] accessToken#0 != nil ==> result == nil &&
//@     hdr(req.Header, "Authorization") == "Bearer " + accessToken#0.token
//@   ensures[cached-token-is-sufficient] accessToken#0 != nil ==> accessToken#0.scope.Contains(requiredScope)
//@   ensures[cached-token-is-its-own] accessToken#0 != nil ==> memberOf(old(r.accessTokens), accessToken#0)
//@   ensures[cached-token-is-fresh] accessToken#0 != nil ==>
//@     calls == [r.deleteExpiredTokens(_), r.accessTokenForScope(requiredScope)] && !calls[0].arg.1.After(accessToken#0.expires)
//@   ensures[covering-token-means-no-token-request] ncallsOf("accessTokenForScope") == 1 && (accessToken#0 != nil ==> ncallsOf("acquireAccessToken") == 0)
//@   ensures[nothing-before-a-challenge] accessToken#0 == nil && old(r.wwwAuthenticate) == nil ==> result == nil &&
//@     hdr(req.Header, "Authorization") == old(hdr(req.Header, "Authorization")) && ncallsOf("acquireAccessToken") == 0
//@   ensures[bearer-challenge-never-gets-the-password] accessToken#0 == nil && old(r.wwwAuthenticate) != nil && old(r.wwwAuthenticate.scheme) == "bearer" &&
//@     old(r.refreshToken) == "" ==> hdr(req.Header, "Authorization") == old(hdr(req.Header, "Authorization")) && ncallsOf("acquireAccessToken") == 0
//@   ensures[refresh-token-flow-asks-for-required-and-desired] accessToken#0 == nil && old(r.wwwAuthenticate) != nil && old(r.wwwAuthenticate.scheme) == "bearer" &&
//@     old(r.refreshToken) != "" ==> calls == [r.deleteExpiredTokens(_), r.accessTokenForScope(requiredScope), r.acquireAccessToken(ctx, requiredScope, wantScope)] &&
//@     (result == nil ==> hdr(req.Header, "Authorization") == "Bearer " + calls[2].result.0)
//@   ensures[basic-only-after-a-non-bearer-challenge] accessToken#0 == nil && old(r.wwwAuthenticate) != nil && old(r.wwwAuthenticate.scheme) != "bearer" ==>
//@     ncallsOf("acquireAccessToken") == 0 && (old(r.basic) != nil ==> hdr(req.Header, "Authorization") == basicAuth(old(r.basic.username), old(r.basic.password)))
//@   ensures[password-as-basic-only-after-a-basic-challenge] accessToken#0 == nil && ncallsOf("acquireAccessToken") == 0 &&
//@     hdr(req.Header, "Authorization") != old(hdr(req.Header, "Authorization")) ==> old(r.wwwAuthenticate) != nil && old(r.wwwAuthenticate.scheme) == "basic"
//@   ensures[challenge-untouched] r.wwwAuthenticate == old(r.wwwAuthenticate)

// Answering a challenge: it is remembered; a Bearer challenge is answered with
// a token requested for the challenge's own scope as the required part and
// the caller's required + desired scopes as the rest; any other challenge is
// answered with Basic credentials if there are any.
//@ func (*registry).setAuthorizationFromChallenge
//@   private req
//@   modifies ociauth.registry.accessTokens, ociauth.registry.refreshToken, ociauth.registry.wwwAuthenticate, url.URL.RawQuery, map:http.Header
//@   requires req != nil && req.Header != nil && challenge != nil && isChallenge(challenge) && wf(requiredScope) && wf(wantScope)
//@   ensures[challenge-remembered] r.wwwAuthenticate == challenge
//@   ensures[bearer-answered-with-a-token-for-the-challenge-scope] old(challenge.scheme) == "bearer" ==>
//@     calls == [r.acquireAccessToken(ctx, ParseScope(old(challenge.params["scope"])), wantScope.Union(requiredScope))] &&
//@     (result.2 == nil ==> result.0 && result.1 && hdr(req.Header, "Authorization") == "Bearer " + calls[0].result.0) &&
//@     (result.2 != nil ==> !result.0 && !result.1)
//@   ensures[other-challenges-get-basic-or-nothing] old(challenge.scheme) != "bearer" ==> ncalls() == 0 && result.2 == nil && !result.1 &&
//@     result.0 == (old(r.basic) != nil) &&
//@     (old(r.basic) != nil ==> hdr(req.Header, "Authorization") == basicAuth(old(r.basic.username), old(r.basic.password))) &&
//@     (old(r.basic) == nil ==> hdr(req.Header, "Authorization") == old(hdr(req.Header, "Authorization")))
//@   ensures[password-as-basic-only-to-a-basic-challenge] ncalls() == 0 && hdr(req.Header, "Authorization") != old(hdr(req.Header, "Authorization")) ==>
//@     old(challenge.scheme) == "basic"

// init reads the configured credentials of this record's own host, once.
//@ func (*registry).init
//@   modifies ociauth.registry.refreshToken, ociauth.registry.accessTokens, ociauth.registry.basic, ociauth.registry.initErr, ociauth.registry.initOnce
// (init's writes happen inside sync.Once.Do, before init returns for the
// first time on any goroutine, and every use of the record comes after its
// own call of init: the Once gives the ordering the mutex would)
//@ func (*registry).init$1
//@   holds r.mu
//@   ensures[credentials-of-its-own-host] calls == [r.config.EntryForRegistry(r.host)]
//@ func (*registry).init$2
//@   requires inner != nil

// RoundTrip: the record used is the one filed under the request's host (so
// only that host's credentials, tokens and challenge are in play); the
// request is sent at most twice; the remembered challenge changes only when
// the host issued one; a 401 in answer to a freshly acquired token is
// surfaced as 403.
//@ func (*stdTransport).RoundTrip
//@   strings atom
//@   private resp, req
//@   requires req != nil && req.URL != nil && req.Header != nil
//@   ensures[record-of-the-request-host] r != nil ==> r.host == old(req.URL.Host)
//@   ensures[at-most-two-attempts] ncallsOf("RoundTrip") <= 2
//@   ensures[unsent-body-is-closed] ncallsOf("RoundTrip") == 0 && old(req.Body) != nil ==> closed(old(req.Body))
// (the underlying transport closes the body of a request it is handed:
// net/http's RoundTripper contract; so a body obtained from GetBody must be
// handed to it, or it is never closed)
//@   ensures[a-rewound-body-is-sent] ncallsOf("GetBody") <= 1 &&
//@     (ncallsOf("GetBody") == 1 && calls[lastOf("GetBody")].result.1 == nil ==> ncallsAfter("GetBody", "RoundTrip") == 1)
//@   ensures[fresh-token-unauthorized-becomes-forbidden] result.1 == nil && result.0 != nil && authAdded && tokenAcquired ==> result.0.StatusCode != 401

// Assumed interface contract of the underlying transport (net/http's): a nil
// error comes with a response that has a body and a header map.
//@ iface-ensures RoundTripper.RoundTrip(req) result.1 == nil ==> result.0 != nil && result.0.Body != nil && result.0.Header != nil
//@ func NewStdTransport
//@   ensures result != nil
// Challenge selection: only a Basic or a Bearer challenge is ever selected,
// whatever else the header list contains (unknown schemes, malformed values).
//@ func challengeFromResponse
//@   modifies nothing
//@   requires resp != nil
//@   loop 0 invariant h == nil || isChallenge(h)
//@   ensures[only-basic-or-bearer-is-selected] result != nil ==> isChallenge(result)
//@ func parseWWWAuthenticate
//@   modifies nothing
//@   loop 0 invariant h.params != nil

// The tokenizer below parseWWWAuthenticate never panics, whatever the header
// value (quoted strings with escapes, unterminated quotes, empty strings):
// index safety of its three scanners for all strings.
//@ func skipSpace
//@   modifies nothing
//@   loop 0 invariant 0 <= i && i <= len(s)
//@ func expectToken
//@   modifies nothing
//@   loop 0 invariant 0 <= i && i <= len(s)
//@ func expectTokenOrQuoted
//@   modifies nothing
//@   loop 0 invariant 0 <= i && i <= len(s)
//@   loop 1 invariant 0 <= j && j < i && i <= len(s) && len(p) == len(s) - 1

// ---------------------------------------------------------------------------
// C09 (continued): containment, stated on the representation. s1 contains s2
// iff s1 is unlimited, or s2 is not and every repository entry of s2 has an
// entry of the same name in s1 whose action mask covers it, and every other
// element of s2 is an element of s1.
//@ pure func reposCovered(s1 Scope, s2 Scope, n int) bool =
//@   forall j int :: 0 <= j && j < n ==> exists i int :: 0 <= i && i < len(s1.repositories) &&
//@     s1.repositories[i] == s2.repositories[j] && s1.actions[i] & s2.actions[j] == s2.actions[j]
//@ pure func othersCovered(s1 Scope, s2 Scope, n int) bool =
//@   forall j int :: 0 <= j && j < n ==> exists i int :: 0 <= i && i < len(s1.others) && s1.others[i] == s2.others[j]
//@ func (Scope).Contains
//@   strings atom
//@   bytes bv
//@   requires wf(s1) && wf(s2)
//@   ensures[unlimited-contains-everything] s1.unlimited ==> result
//@   ensures[only-unlimited-contains-unlimited] !s1.unlimited && s2.unlimited ==> !result
//@   ensures[subset-on-the-representation] !s1.unlimited && !s2.unlimited ==>
//@     result == (reposCovered(s1, s2, len(s2.repositories)) && othersCovered(s1, s2, len(s2.others)))
//@   loop 0 invariant 0 <= i1 && i1 <= len(s1.repositories) && 0 - 1 <= rangeindex#0 && rangeindex#0 < len(s2.repositories)
//@   loop 0 invariant reposCovered(s1, s2, rangeindex#0 + 1)
//@   loop 0 invariant forall i int :: 0 <= i && i < i1 && rangeindex#0 >= 0 ==> s1.repositories[i] <= s2.repositories[rangeindex#0]
//@   loop 0 invariant rangeindex#0 == 0 - 1 ==> i1 == 0
//@   loop 1 invariant 0 <= i1 && i1 <= len(s1.repositories) && 0 <= i2 && i2 < len(s2.repositories) && repo2 == s2.repositories[i2]
//@   loop 1 invariant reposCovered(s1, s2, i2)
//@   loop 1 invariant forall i int :: 0 <= i && i < i1 ==> s1.repositories[i] < repo2
//@   loop 2 invariant 0 <= i1 && i1 <= len(s1.others) && 0 - 1 <= rangeindex#1 && rangeindex#1 < len(s2.others)
//@   loop 2 invariant reposCovered(s1, s2, len(s2.repositories)) && othersCovered(s1, s2, rangeindex#1 + 1)
//@   loop 2 invariant forall i int :: 0 <= i && i < i1 && rangeindex#1 >= 0 ==> (lessRS(s1.others[i], s2.others[rangeindex#1]) || s1.others[i] == s2.others[rangeindex#1])
//@   loop 2 invariant rangeindex#1 == 0 - 1 ==> i1 == 0
//@   loop 3 invariant 0 <= i1 && i1 <= len(s1.others) && 0 <= rangeindex#1 && rangeindex#1 < len(s2.others) && sc2 == s2.others[rangeindex#1]
//@   loop 3 invariant reposCovered(s1, s2, len(s2.repositories)) && othersCovered(s1, s2, rangeindex#1)
//@   loop 3 invariant forall i int :: 0 <= i && i < i1 ==> lessRS(s1.others[i], sc2)

// The representation-level statement is the set-level one (for well-formed
// scopes): direction "covered implies subset".
//@ lemma coveredImpliesSubset(s1 Scope, s2 Scope, r ResourceScope) =
//@   wf(s1) && wf(s2) && !s1.unlimited && !s2.unlimited &&
//@   reposCovered(s1, s2, len(s2.repositories)) && othersCovered(s1, s2, len(s2.others)) && holds(s2, r) ==> holds(s1, r)

// String, for a scope without preserved text: each element the iteration
// offers is appended to the text built so far either as a new entry
// (type[:name:action], separated by a space) or, in the grammar's short form
// "type:name:action,action", as a further action of the entry before it. The
// short form is only sound for an element of the same type and name as the
// one before it (that is what a parser makes of it); the code uses it for
// repository entries of one repository.
//@ func (Scope).String$1
//@   ensures[always-continues] result
//@   ensures[remembers-the-element] prev == s
// (a type that itself starts with a comma is outside the scope grammar and is excluded)
//@   ensures[comma-join-only-continues-an-entry-of-the-same-type-and-name] !hasPrefix(s.ResourceType, ",") && built(buf) == old(built(buf)) + "," + s.Action ==>
//@     old(prev.ResourceType) == s.ResourceType && old(prev.Resource) == s.Resource
//@   ensures[a-further-action-of-the-same-repository-is-joined] s.ResourceType == TypeRepository && old(prev.ResourceType) == TypeRepository && s.Resource == old(prev.Resource) ==>
//@     built(buf) == old(built(buf)) + "," + s.Action
//@   ensures[anything-else-starts-a-new-entry] !(s.ResourceType == TypeRepository && old(prev.ResourceType) == TypeRepository && s.Resource == old(prev.Resource)) ==>
//@     built(buf) == old(built(buf)) + (old(built(buf)) != "" ? " " : "") + s.ResourceType +
//@       ((s.Resource != "" || s.Action != "") ? ":" + s.Resource + ":" + s.Action : "")

// Canonical only forgets the preserved text.
//@ func (Scope).Canonical
//@   strings atom
//@   bytes bv
//@   modifies nothing
//@   ensures[same-set-without-the-text] result.original == "" && result.unlimited == s.unlimited && result.repositories == s.repositories &&
//@     result.actions == s.actions && result.others == s.others && (wf(s) ==> wf(result))

// ParseScope: whatever the text, the result is a well-formed scope that keeps
// the text it was parsed from (the splitting of the text into elements is not
// under contract: strings.Fields / strings.Split are unspecified here).
//@ func ParseScope
//@   strings atom
//@   bytes bv
//@   ensures[well-formed-and-keeps-its-text] wf(result) && result.original == s

// Union: the result is well formed (so it can be an operand of Contains, Holds
// and Union again), the unlimited flag is the disjunction of the operands'
// flags, and the receiver's text is kept when nothing was added. That the
// result holds exactly the elements of both operands (covers-both,
// nothing-extra) was attempted and is NOT claimed: with the old-side frame
// axioms of `append-frames` the merge loops' invariants go through, but the
// obligations after the two tail appends (append(r.x, s.x[i:]...)) stay
// unknown (/verif/attempted/ociauth_Union.txt).
//@ func (Scope).Union
//@   strings atom
//@   bytes bv
//@   requires wf(s1) && wf(s2)
//@   append-frames
//@   ensures[limited-stays-limited] !s1.unlimited && !s2.unlimited ==> !result.unlimited
//@   ensures[nothing-added-returns-the-receiver-as-is] !s1.unlimited && !s2.unlimited && ((len(s2.repositories) == 0 && len(s2.others) == 0) || s1.Equal(s2)) ==> result == s1
//@   ensures[same-set-keeps-the-receiver-text] !s1.unlimited && !s2.unlimited && result.Equal(s1) ==> result == s1
//@   ensures[unlimited-absorbs] s1.unlimited || s2.unlimited ==> result.unlimited
//@   ensures[well-formed] wf(result)
//@   loop 0 invariant 0 <= i1 && i1 <= len(s1.repositories) && 0 <= i2 && i2 <= len(s2.repositories) && !r.unlimited && len(r.others) == 0
//@   loop 0 invariant wfRepos(r)
//@   loop 0 invariant forall k int :: 0 <= k && k < len(r.repositories) ==>
//@     (i1 < len(s1.repositories) ==> r.repositories[k] < s1.repositories[i1]) && (i2 < len(s2.repositories) ==> r.repositories[k] < s2.repositories[i2])
//@   loop 1 invariant 0 <= i1 && i1 <= len(s1.others) && 0 <= i2 && i2 <= len(s2.others) && !r.unlimited
//@   loop 1 invariant wfRepos(r) && wfOthers(r)
//@   loop 1 invariant forall k int :: 0 <= k && k < len(r.others) ==>
//@     (i1 < len(s1.others) ==> lessRS(r.others[k], s1.others[i1])) && (i2 < len(s2.others) ==> lessRS(r.others[k], s2.others[i2]))
