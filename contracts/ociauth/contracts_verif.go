//go:build verif

// Contracts for package ociauth, checked by /verif/govc. Comments only.

package ociauth

// ---------------------------------------------------------------------------
// Basic observers of Scope (used by callers in other packages; C09, C13, C10).

//@ func (Scope).IsUnlimited
//@   modifies nothing
//@   ensures result == s.unlimited

//@ func (Scope).IsEmpty
//@   modifies nothing
//@   ensures result == (len(s.repositories) == 0 && len(s.others) == 0 && !s.unlimited)

//@ func (Scope).Len
//@   modifies nothing
//@   requires !s.unlimited
//@   ensures result >= 0

//@ func UnlimitedScope
//@   modifies nothing
//@   ensures result.unlimited && len(result.repositories) == 0 && len(result.others) == 0

//@ func ScopeFromContext
//@   modifies nothing

//@ func ContextWithScope
//@   modifies nothing
//@   ensures result != nil

// NewScope and Iter are used opaquely by callers until their functional
// contracts (C09) are in place: no effect on the caller's heap.
//@ func NewScope
//@   modifies nothing

//@ func (Scope).Iter
//@   modifies nothing
//@   ensures result != nil
