//go:build verif

// Contracts for package ociclient, checked by /verif/govc. Comments only.

package ociclient

// ---------------------------------------------------------------------------
// C18: the client survives any server response.
//
// The server's answer is whatever (*http.Client).Do returns: an arbitrary
// status, arbitrary header strings, an arbitrary body reader. The only
// things assumed of net/http are that a successful Do returns a non-nil
// response with non-nil Body and Request (with its URL), and that a
// successful NewRequestWithContext returns a request with URL and Header.
// Everything else is the zero-annotation safety sweep, plus termination
// measures on the two loops that consume server input.

//@ invariant (*client) self != nil && self.httpClient != nil && self.listPageSize >= 1
//@ immutable client.httpClient, client.httpScheme, client.httpHost, client.listPageSize, client.debugID

//@ pure func wfResp(resp *http.Response) bool =
//@   resp != nil && resp.Body != nil && resp.Request != nil && resp.Request.URL != nil
//@ pure func wfReq(req *http.Request) bool = req != nil && req.URL != nil && req.Header != nil

//@ func New
//@   ensures[page-size-positive] result.1 == nil ==> result.0 != nil

//@ func newRequest
//@   modifies nothing
//@   requires rreq != nil && 0 <= rreq.Kind && rreq.Kind <= ocirequest.ReqCatalogList
//@   ensures[request-or-error] result.1 == nil ==> wfReq(result.0)
//@   ensures[error-means-nil] result.1 != nil ==> result.0 == nil

//@ func scopeForRequest
//@   requires r != nil && 0 <= r.Kind && r.Kind <= ocirequest.ReqCatalogList
//@   modifies nothing

// do fills in the scheme and host of the request's URL and adds an Expect
// header when there is a body; nothing else of the request changes.
//@ func (*client).do
//@   log
//@   modifies url.URL.Scheme, url.URL.Host
//@   requires wfReq(req)
//@   ensures[response-or-error] result.1 == nil ==> wfResp(result.0)
//@   ensures[error-means-nil] result.1 != nil ==> result.0 == nil

//@ func (*client).doRequest
//@   log
//@   modifies http.Request, url.URL
//@   requires rreq != nil && 0 <= rreq.Kind && rreq.Kind <= ocirequest.ReqCatalogList
//@   ensures[response-or-error] result.1 == nil ==> wfResp(result.0)
//@   ensures[error-means-nil] result.1 != nil ==> result.0 == nil

//@ func makeError
//@   modifies nothing
//@   log-lib
//@   requires resp != nil && resp.Request != nil
//@   ensures[always-an-error] result != nil
// (C07: an error body of up to 8192 bytes that was read without a failure is
// decoded - "too large" is said only of a longer one)
//@   ensures[a-body-within-the-limit-is-decoded] ncallsOf("ReadAll") == 1 && calls[lastOf("ReadAll")].result.1 == nil &&
//@     len(calls[lastOf("ReadAll")].result.0) <= 8192 ==>
//@     ncallsOf("makeError1") == 1 && calls[lastOf("makeError1")].arg.1 == calls[lastOf("ReadAll")].result.0

// The HEAD fallback table: a body-less response is mapped to the standard
// error whose specification status it carries.
//@ func makeError1
//@   requires resp != nil && resp.Request != nil
//@   modifies nothing
//@   log
//@   ensures[head-404] resp.Request.Method == "HEAD" && resp.StatusCode == 404 ==> result == ociregistry.ErrNameUnknown
//@   ensures[head-401] resp.Request.Method == "HEAD" && resp.StatusCode == 401 ==> result == ociregistry.ErrUnauthorized
//@   ensures[head-403] resp.Request.Method == "HEAD" && resp.StatusCode == 403 ==> result == ociregistry.ErrDenied
//@   ensures[head-429] resp.Request.Method == "HEAD" && resp.StatusCode == 429 ==> result == ociregistry.ErrTooManyRequests
//@   ensures[head-400] resp.Request.Method == "HEAD" && resp.StatusCode == 400 ==> result == ociregistry.ErrUnsupported
//@   ensures[head-other] resp.Request.Method == "HEAD" && resp.StatusCode != 404 && resp.StatusCode != 401 &&
//@     resp.StatusCode != 403 && resp.StatusCode != 429 && resp.StatusCode != 400 ==> result == nil

// isJSONMediaType consumes its input: every trip round the loop strictly
// shortens m.
//@ func isJSONMediaType
//@   modifies nothing
//@   loop 0 decreases len(m)

//@ func descriptorFromResponse
//@   bytes bv
//@   requires resp != nil
//@   modifies nothing
//@   ensures[digest-when-required] result.1 == nil && require & 2 != 0 ==> result.0.Digest != ""
//@   ensures[known-digest-fallback] result.1 == nil && knownDigest != "" ==> result.0.Digest != ""
//@   ensures[digest-valid-or-known] result.1 == nil && result.0.Digest != "" && result.0.Digest != knownDigest ==> ociref.IsValidDigest(string(result.0.Digest))

//@ func locationFromResponse
//@   requires wfResp(resp)
//@   ensures[location-or-error] result.1 == nil ==> result.0 != nil
//@   ensures[error-means-nil] result.1 != nil ==> result.0 == nil

//@ func closeOnError
//@   modifies nothing
//@   requires err != nil && r != nil

// A digest handed to newBlobReader names a registered algorithm (go-digest's
// Algorithm().Hash() panics otherwise).
//@ func newBlobReader
//@   log
//@   requires r != nil && desc.Digest != "" && ociref.IsValidDigest(string(desc.Digest))
//@   ensures[a-fresh-hash-of-the-descriptor-algorithm] result != nil && result.verify && result.desc == desc && result.n == 0 && result.r == r &&
//@     result.digester != nil && hashed(result.digester) == "" && hashAlg(result.digester) == desc.Digest.Algorithm()
//@ func newBlobReaderUnverified
//@   log
//@   requires r != nil && desc.Digest != "" && ociref.IsValidDigest(string(desc.Digest))
//@   ensures result != nil && !result.verify

// C01: the verifying reader. hashed(h) is the ghost string of everything
// written to the hash h; digestOf(alg, bytes) is the digest function that
// go-digest's FromBytes and NewDigest both compute. Every byte relayed to the
// caller has gone through the hash and been counted; a clean end of stream
// (io.EOF) is reported by a verifying reader only when the count equals the
// descriptor's size and the digest of everything relayed equals the
// descriptor's digest; an over-long body fails as soon as it is noticed.
//@ invariant (*blobReader) self != nil && self.r != nil && self.digester != nil
//@ invariant (*blobReader) self.n == len(hashed(self.digester))
// the hash of a verifying reader is one of the descriptor's own algorithm
// (hashAlg(h): the algorithm a hash object was created for; go-digest's
// NewDigest(alg, h) is the digest only for a hash of that algorithm)
//@ invariant (*blobReader) self.verify ==> hashAlg(self.digester) == self.desc.Digest.Algorithm()

// What goes into the hash is exactly what the source put into the caller's
// buffer on this call.
//@ sink (*blobReader).digester Write(p) requires string(p) == string(buf[:n])
//@ func (*blobReader).Read
//@   private r
//@   ensures[every-relayed-byte-is-hashed-and-counted] result.0 == n && r.n == old(r.n) + result.0 &&
//@     len(hashed(r.digester)) == old(len(hashed(r.digester))) + result.0 && hasPrefix(hashed(r.digester), old(hashed(r.digester)))
//@   ensures[clean-end-only-after-verification] result.1 == io.EOF && r.verify ==>
//@     r.n == r.desc.Size && digestOf(r.desc.Digest.Algorithm(), hashed(r.digester)) == r.desc.Digest
//@   ensures[too-long-fails-at-once] result.1 == nil ==> r.n <= r.desc.Size
// (the reader adds no failure of its own while the bytes fit the descriptor,
// and hands on the source's own errors)
//@   ensures[within-the-size-it-relays-the-source] err == nil && r.n <= r.desc.Size ==> result.1 == nil
//@   ensures[source-errors-are-handed-on] err != nil && err != io.EOF ==> result.1 == err
//@ func (*blobReader).Descriptor
//@   modifies nothing
//@   ensures result == r.desc

// read returns a verifying reader: the digest it checks against comes from
// the response, from the request, from the body itself (small manifests) or
// from a HEAD request, and in every case the bytes relayed are checked
// against it.
//@ func (*client).read
//@   ensures[returns-a-verifying-reader] result.1 == nil ==>
//@     (calls == [c.doRequest(_, _, _), newBlobReader(_, _)] && result.0 == calls[1].result) ||
//@     (calls == [c.doRequest(_, _, _), c.doRequest(_, _, _), newBlobReader(_, _)] && result.0 == calls[2].result)
// (a small manifest without a digest header is read into memory first: the
// reader handed back then serves bytes this call allocated itself, shared with
// no other call - not a recycled buffer)
//@   ensures[buffered-content-is-the-calls-own-copy] result.1 == nil && len(data) > 0 ==> ownCopy(data)

// The pager: each trip round the loop consumes one server answer, so it
// terminates when the server's answers are finite.
//@ func (*client).pager
//@   requires initialReq != nil && initialReq.ListN >= 1 && parseResponse != nil &&
//@            0 <= initialReq.Kind && initialReq.Kind <= ocirequest.ReqCatalogList
//@   ensures result != nil
//@ func (*client).pager$1
//@   private initialReq, resp
//@   requires initialReq != nil && initialReq.ListN >= 1 && parseResponse != nil &&
//@            0 <= initialReq.Kind && initialReq.Kind <= ocirequest.ReqCatalogList
//@   loop 0 progress do
//@   loop 0 invariant wfReq(req) && !stopped() && yieldedErr() == nil
// C05: every item of a page the server sent is handed on, in the page's order,
// nothing skipped; the iteration ends only because the consumer declined, an
// error was delivered, or a page came back shorter than the page size.
//@   loop 1 invariant !stopped() && yieldedErr() == nil && rangeindex + 1 <= len(items) && yielded() >= rangeindex + 1
//@   loop 1 invariant forall j int :: 0 <= j && j <= rangeindex ==> yieldedAt(yielded() - 1 - rangeindex + j) == items[j]
//@   loop 1 exit rangeindex == len(items)
//@   ensures[ends-for-a-reason] stopped() || len(items) < initialReq.ListN

//@ func nextLink
//@   modifies nothing
//@   requires wfResp(resp) && initialReq != nil && 0 <= initialReq.Kind && initialReq.Kind <= ocirequest.ReqCatalogList
//@   ensures[request-or-error] result.1 == nil ==> wfReq(result.0)
//@   ensures[error-means-nil] result.1 != nil ==> result.0 == nil

//@ invariant (*blobWriter) self != nil && self.client != nil && self.client.httpClient != nil && self.location != nil
//@ func urlWithDigest
//@   requires u0 != nil
//@   ensures result != nil
//@ func chunkSizeFromResponse
//@   requires resp != nil
//@   ensures result >= chunkSize

// The response parsers handed to pager are given a well-formed response.
//@ func (*client).Repositories$1
//@   requires wfResp(resp)
//@ func (*client).Tags$1
//@   requires wfResp(resp)

// Input type invariant of the public methods: a digest argument is
// well-formed (C18 is about server responses, not about ill-formed caller
// arguments; go-digest panics on an unregistered algorithm).
//@ pure func okDigestArg(d string) bool = d == "" || ociref.IsValidDigest(d)
//@ pure func wfRReq(r *ocirequest.Request) bool =
//@   r != nil && 0 <= r.Kind && r.Kind <= ocirequest.ReqCatalogList && okDigestArg(r.Digest)

//@ func (*client).read
//@   private rreq, resp
//@   requires wfRReq(rreq)
//@   ensures[result-or-error] (result.1 == nil) == (result.0 != nil)
//@ func (*client).resolve
//@   private rreq
//@   requires wfRReq(rreq)
//@ func (*client).delete
//@   private rreq
//@   requires wfRReq(rreq)

//@ func (*client).GetBlob
//@   requires ociref.IsValidDigest(string(digest))
//@   ensures[result-or-error] (result.1 == nil) == (result.0 != nil)
//@ func (*client).GetBlobRange
//@   private rreq, resp
//@   requires ociref.IsValidDigest(string(digest))
//@   ensures[result-or-error] (result.1 == nil) == (result.0 != nil)
//@ func (*client).GetManifest
//@   requires ociref.IsValidDigest(string(digest))
//@   ensures[result-or-error] (result.1 == nil) == (result.0 != nil)
//@ func (*client).GetTag
//@   ensures[result-or-error] (result.1 == nil) == (result.0 != nil)
//@ func (*client).ResolveBlob
//@   requires ociref.IsValidDigest(string(digest))
//@ func (*client).ResolveManifest
//@   requires ociref.IsValidDigest(string(digest))
//@ func (*client).PushBlob
//@   private rreq, resp
// (input domain: the caller's own chunk size is a size it is prepared to have
// buffered; C18 is about what the server sends, not about a caller that asks
// for a buffer larger than the address space)
//@ func (*client).PushBlobChunked
//@   private resp
//@   requires chunkSize <= 1099511627776
//@   ensures[result-or-error] (result.1 == nil) == (result.0 != nil)
//@ func (*client).PushBlobChunkedResume
//@   private resp
//@   ensures[result-or-error] (result.1 == nil) == (result.0 != nil)
//@ func (*client).MountBlob
//@   private rreq, resp
//@ func (*client).PushManifest
//@   private rreq, resp
//@ func (*client).Referrers
//@   private resp
//@   ensures result != nil
// C04: the chunked writer's books. size counts every byte accepted from the
// caller, flushed every byte the server has acknowledged, chunk holds the
// rest: size == flushed + len(chunk) whenever the writer's lock is free.
// flush sends exactly chunk followed by buf, labelled with the half-open
// range [flushed, flushed+len) it occupies in the upload, and advances
// flushed only when the server accepted it.
//@ guarded_by blobWriter.mu: blobWriter.closed, blobWriter.chunk, blobWriter.closeErr, blobWriter.size, blobWriter.flushed, blobWriter.location
//@ public-invariant (*blobWriter) self.size == self.flushed + len(self.chunk)
//@ immutable blobWriter.chunkSize, blobWriter.client, blobWriter.ctx
//@ func (*blobWriter).flush
//@   holds w.mu
//@   ensures[callers-buffer-untouched] untouched(buf)
//@   private resp, req, w
//@   modifies ociclient.blobWriter.flushed, ociclient.blobWriter.chunk, ociclient.blobWriter.location, url.URL, http.Request, map:http.Header
//@   ensures[nothing-outstanding-nothing-sent] commitDigest == "" && len(buf) + old(len(w.chunk)) == 0 ==>
//@     result == nil && w.flushed == old(w.flushed) && w.chunk == old(w.chunk)
//@   ensures[nothing-outstanding-no-request] commitDigest == "" && len(buf) + old(len(w.chunk)) == 0 ==> ncalls() == 0
//@   ensures[labelled-with-its-place-in-the-upload] result == nil && !(commitDigest == "" && len(buf) + old(len(w.chunk)) == 0) ==>
//@     req.ContentLength == old(len(w.chunk)) + len(buf) &&
//@     hdr(req.Header, "Content-Range") == ocirequest.RangeString(old(w.flushed), old(w.flushed) + old(len(w.chunk)) + len(buf))
// (what goes out is what was buffered followed by the new bytes, in that order)
//@   ensures[sends-the-buffered-bytes-then-the-new-ones] result == nil && !(commitDigest == "" && len(buf) + old(len(w.chunk)) == 0) ==>
//@     bodyBytes(req) == old(string(w.chunk)) + string(buf)
//@   ensures[acknowledged-means-flushed] result == nil && !(commitDigest == "" && len(buf) + old(len(w.chunk)) == 0) ==>
//@     w.flushed == old(w.flushed) + old(len(w.chunk)) + len(buf) && len(w.chunk) == 0
//@   ensures[failure-keeps-the-books] result != nil ==> w.flushed == old(w.flushed) && string(w.chunk) == old(string(w.chunk))
//@   ensures[size-untouched] w.size == old(w.size)

//@ func (*blobWriter).Write
//@   private w
// (the caller's buffer is only read: nothing is appended onto a shortened view of it)
//@   ensures[callers-buffer-untouched] untouched(buf) && string(buf) == old(string(buf))
//@   ensures[accepted-bytes-are-counted-once] result.1 == nil ==> result.0 == len(buf) && w.size == old(w.size) + len(buf)
//@   ensures[refused-write-changes-nothing] result.1 != nil ==> result.0 == 0 && w.size == old(w.size) && w.flushed == old(w.flushed) &&
//@     string(w.chunk) == old(string(w.chunk))
//@   ensures[small-writes-are-buffered-in-order] result.1 == nil && old(len(w.chunk)) + len(buf) <= w.chunkSize ==>
//@     string(w.chunk) == old(string(w.chunk)) + string(buf) && w.flushed == old(w.flushed)
//@ func (*blobWriter).Size
//@   ensures result == w.size
//@ func (*blobWriter).Commit
//@   private w
//@   ensures[everything-flushed-before-success] result.1 == nil ==> w.flushed == w.size && len(w.chunk) == 0 &&
//@     result.0.Size == w.size && result.0.Digest == digest
//@ func (*blobWriter).Close
//@   private w
//@   ensures[everything-flushed-before-success] result == nil && !old(w.closed) ==> w.flushed == w.size && len(w.chunk) == 0

//@ func (*client).DeleteBlob
//@   requires ociref.IsValidDigest(string(digest))
//@ func (*client).DeleteManifest
//@   requires ociref.IsValidDigest(string(digest))

// ---------------------------------------------------------------------------
// C03: each client method issues exactly the request that names the caller's
// operation and arguments (kind, repository, digest or tag) and returns what
// the request helper returns.
//@ pure func reqIs(r *ocirequest.Request, kind ocirequest.Kind, repo string, dig string, tag string) bool =
//@   r != nil && r.Kind == kind && r.Repo == repo && r.Digest == dig && r.Tag == tag && r.FromRepo == "" && r.UploadID == ""
//@ func (*client).read
//@   log
//@ func (*client).resolve
//@   log
//@ func (*client).delete
//@   log
//@ func (*client).pager
//@   log
//@ func (*client).GetBlob
//@   ensures[asks-for-that-blob] calls == [c.read(ctx, _)] && reqIs(calls[0].arg.2, ocirequest.ReqBlobGet, repo, string(digest), "") &&
//@     result.0 == calls[0].result.0 && result.1 == calls[0].result.1
//@ func (*client).GetManifest
//@   ensures[asks-for-that-manifest] calls == [c.read(ctx, _)] && reqIs(calls[0].arg.2, ocirequest.ReqManifestGet, repo, string(digest), "") &&
//@     result.0 == calls[0].result.0 && result.1 == calls[0].result.1
//@ func (*client).GetTag
//@   ensures[asks-for-that-tag] calls == [c.read(ctx, _)] && reqIs(calls[0].arg.2, ocirequest.ReqManifestGet, repo, "", tagName) &&
//@     result.0 == calls[0].result.0 && result.1 == calls[0].result.1
//@ func (*client).ResolveBlob
//@   ensures[asks-about-that-blob] calls == [c.resolve(ctx, _)] && reqIs(calls[0].arg.2, ocirequest.ReqBlobHead, repo, string(digest), "") &&
//@     result.0 == calls[0].result.0 && result.1 == calls[0].result.1
//@ func (*client).ResolveManifest
//@   ensures[asks-about-that-manifest] calls == [c.resolve(ctx, _)] && reqIs(calls[0].arg.2, ocirequest.ReqManifestHead, repo, string(digest), "") &&
//@     result.0 == calls[0].result.0 && result.1 == calls[0].result.1
//@ func (*client).ResolveTag
//@   ensures[asks-about-that-tag] calls == [c.resolve(ctx, _)] && reqIs(calls[0].arg.2, ocirequest.ReqManifestHead, repo, "", tag) &&
//@     result.0 == calls[0].result.0 && result.1 == calls[0].result.1
//@ func (*client).DeleteBlob
//@   ensures[deletes-that-blob] calls == [c.delete(ctx, _)] && reqIs(calls[0].arg.2, ocirequest.ReqBlobDelete, repoName, string(digest), "") && result == calls[0].result
//@ func (*client).DeleteManifest
//@   ensures[deletes-that-manifest] calls == [c.delete(ctx, _)] && reqIs(calls[0].arg.2, ocirequest.ReqManifestDelete, repoName, string(digest), "") && result == calls[0].result
//@ func (*client).DeleteTag
//@   ensures[deletes-that-tag] calls == [c.delete(ctx, _)] && reqIs(calls[0].arg.2, ocirequest.ReqManifestDelete, repoName, "", tagName) && result == calls[0].result
//@ func (*client).Repositories
//@   ensures[lists-from-the-start-point] calls == [c.pager(ctx, _, _)] && calls[0].arg.2 != nil && calls[0].arg.2.Kind == ocirequest.ReqCatalogList &&
//@     calls[0].arg.2.ListLast == startAfter && calls[0].arg.2.ListN == c.listPageSize && result == calls[0].result
//@ func (*client).Tags
//@   ensures[lists-that-repository-from-the-start-point] calls == [c.pager(ctx, _, _)] && calls[0].arg.2 != nil && calls[0].arg.2.Kind == ocirequest.ReqTagsList &&
//@     calls[0].arg.2.Repo == repoName && calls[0].arg.2.ListLast == startAfter && calls[0].arg.2.ListN == c.listPageSize && result == calls[0].result
