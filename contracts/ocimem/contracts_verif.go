//go:build verif

// Contracts for package ocimem, checked by /verif/govc. Comments only.

package ocimem

// ---------------------------------------------------------------------------
// The in-memory registry: representation invariants (C01, C02), lock
// discipline (C08), immutable-tags mode (C14), upload buffers (C04).
//
// dg is digest.FromBytes as an unspecified deterministic function of the
// bytes. Everything the registry stores under a digest hashes to it
// (DigestInv); every repository has its four maps (RepoWF); stored blob
// objects are never modified after construction.

//@ immutable blob.mediaType, blob.data, blob.subject
//@ immutable Buffer.commit, Buffer.uuid
//@ immutable Registry.cfg

//@ guarded_by Registry.mu: Registry.repos, repository.tags, repository.manifests, repository.blobs, repository.uploads
//@ guarded_by Buffer.mu: Buffer.buf, Buffer.checkStartOffset, Buffer.committed, Buffer.desc, Buffer.commitErr

//@ pure func repoWF(p *repository) bool =
//@   p != nil && p.tags != nil && p.manifests != nil && p.blobs != nil && p.uploads != nil

//@ pure func hasBlob(r *Registry, n string, d ociregistry.Digest) bool = in(r.repos, n) && in(r.repos[n].blobs, d)
//@ pure func hasManifest(r *Registry, n string, d ociregistry.Digest) bool = in(r.repos, n) && in(r.repos[n].manifests, d)
//@ pure func hasTag(r *Registry, n string, t string) bool = in(r.repos, n) && in(r.repos[n].tags, t)

//@ invariant (*Registry) self != nil
//@ invariant (*Registry) forall n string :: in(self.repos, n) ==> repoWF(self.repos[n])
//@ invariant (*Registry) forall n string, d ociregistry.Digest :: in(self.repos, n) && in(self.repos[n].blobs, d) ==>
//@     self.repos[n].blobs[d] != nil && digest.FromBytes(self.repos[n].blobs[d].data) == d
//@ invariant (*Registry) forall n string, d ociregistry.Digest :: in(self.repos, n) && in(self.repos[n].manifests, d) ==>
//@     self.repos[n].manifests[d] != nil && digest.FromBytes(self.repos[n].manifests[d].data) == d
//@ invariant (*Registry) forall n string, id string :: in(self.repos, n) && in(self.repos[n].uploads, id) ==>
//@     self.repos[n].uploads[id] != nil && self.repos[n].uploads[id].commit != nil

// Repositories own their maps: no two repositories share one, and a
// repository's manifest map is not a blob map (same Go type).
//@ invariant (*Registry) forall n1, n2 string :: in(self.repos, n1) && in(self.repos, n2) && n1 != n2 ==>
//@     self.repos[n1] != self.repos[n2] && self.repos[n1].tags != self.repos[n2].tags &&
//@     self.repos[n1].manifests != self.repos[n2].manifests && self.repos[n1].blobs != self.repos[n2].blobs
//@ invariant (*Registry) forall n1, n2 string :: in(self.repos, n1) && in(self.repos, n2) ==>
//@     self.repos[n1].manifests != self.repos[n2].blobs

//@ invariant (*blob) self != nil
//@ invariant (*bytesReader) self != nil
//@ invariant (*Buffer) self != nil && self.commit != nil

//@ func New
//@   ensures result != nil
//@ func NewWithConfig
//@   ensures result != nil

// CheckDescriptor: a descriptor that passes the check against some bytes
// names exactly those bytes.
//@ func CheckDescriptor
//@   pure
//@   ensures[digest-and-size-match] result == nil && data != nil ==>
//@             digest.FromBytes(data) == desc.Digest && desc.Size == len(data)
//@   ensures[sane] result == nil ==> desc.MediaType != "" && desc.Digest.Validate() == nil

// (a function of the blob alone: its fields are immutable)
//@ func (*blob).descriptor
//@   pure
//@   ensures[describes-its-bytes] result.MediaType == b.mediaType && result.Size == len(b.data) &&
//@             result.Digest == digest.FromBytes(b.data)

// Readers over stored bytes: what will be read and what is described.
//@ pure func readerBytes(r ociregistry.BlobReader) string
//@ pure func readerDesc(r ociregistry.BlobReader) ociregistry.Descriptor
// (trusted: bytes.Reader yields exactly the bytes it was reset with)
//@ func NewBytesReader
//@   trusted
//@   modifies nothing
//@   ensures[reads-exactly-the-bytes] result != nil && readerBytes(result) == string(data) && readerDesc(result) == desc

// Helpers that run under the registry lock.
//@ func (*Registry).repo
//@   holds r.mu
//@   modifies nothing
//@   ensures[found] in(r.repos, repoName) ==> result.0 == r.repos[repoName] && result.1 == nil
//@   ensures[unknown-name] !in(r.repos, repoName) ==> result.0 == nil && result.1 == ociregistry.ErrNameUnknown

//@ func (*Registry).blobForDigest
//@   holds r.mu
//@   modifies nothing
//@   ensures[found] result.1 == nil ==> in(r.repos, repoName) && in(r.repos[repoName].blobs, dig) && result.0 == r.repos[repoName].blobs[dig] && result.0 != nil
//@   ensures[unknown-name] !in(r.repos, repoName) ==> result.1 == ociregistry.ErrNameUnknown && result.0 == nil
//@   ensures[unknown-blob] in(r.repos, repoName) && !in(r.repos[repoName].blobs, dig) ==> result.1 == ociregistry.ErrBlobUnknown && result.0 == nil

//@ func (*Registry).manifestForDigest
//@   holds r.mu
//@   modifies nothing
//@   ensures[found] result.1 == nil ==> in(r.repos, repoName) && in(r.repos[repoName].manifests, dig) && result.0 == r.repos[repoName].manifests[dig] && result.0 != nil
//@   ensures[unknown-name] !in(r.repos, repoName) ==> result.1 == ociregistry.ErrNameUnknown && result.0 == nil
//@   ensures[unknown-manifest] in(r.repos, repoName) && !in(r.repos[repoName].manifests, dig) ==> result.1 == ociregistry.ErrManifestUnknown && result.0 == nil

//@ func (*Registry).makeRepo
//@   holds r.mu
//@   modifies ocimem.Registry.repos, map:*
//@   ensures[invalid-name] !ociref.IsValidRepository(repoName) ==> result.1 == ociregistry.ErrNameInvalid && result.0 == nil
//@   ensures[invalid-name-changes-nothing] !ociref.IsValidRepository(repoName) ==>
//@     forall n string, d ociregistry.Digest :: in(r.repos, n) && in(r.repos[n].blobs, d) ==> old(in(r.repos, n) && in(r.repos[n].blobs, d))
//@   ensures[repo-exists-afterwards] ociref.IsValidRepository(repoName) ==> result.1 == nil && in(r.repos, repoName) && result.0 == r.repos[repoName]
//@   ensures[keeps-every-blob] forall n string, d ociregistry.Digest :: hasBlob(r, n, d) == old(hasBlob(r, n, d)) &&
//@     (hasBlob(r, n, d) ==> r.repos[n].blobs[d] == old(r.repos[n].blobs[d]))
//@   ensures[keeps-every-manifest] forall n string, d ociregistry.Digest :: hasManifest(r, n, d) == old(hasManifest(r, n, d)) &&
//@     (hasManifest(r, n, d) ==> r.repos[n].manifests[d] == old(r.repos[n].manifests[d]))
//@   ensures[keeps-every-tag] forall n string, t string :: hasTag(r, n, t) == old(hasTag(r, n, t)) &&
//@     (hasTag(r, n, t) ==> r.repos[n].tags[t] == old(r.repos[n].tags[t]))

// Reads.
//@ func (*Registry).GetBlob
//@   atomic
//@   modifies nothing
//@   ensures[serves-the-stored-bytes] result.1 == nil ==> in(r.repos, repoName) && in(r.repos[repoName].blobs, dig) &&
//@     readerBytes(result.0) == string(r.repos[repoName].blobs[dig].data) &&
//@     readerDesc(result.0).Digest == dig && readerDesc(result.0).Size == len(r.repos[repoName].blobs[dig].data)
//@   ensures[unknown-name] !in(old(r.repos), repoName) ==> result.1 == ociregistry.ErrNameUnknown
//@   ensures[unknown-blob] in(old(r.repos), repoName) && !in(old(r.repos[repoName].blobs), dig) ==> result.1 == ociregistry.ErrBlobUnknown

//@ func (*Registry).GetManifest
//@   atomic
//@   modifies nothing
//@   ensures[serves-the-stored-bytes] result.1 == nil ==> in(r.repos, repoName) && in(r.repos[repoName].manifests, dig) &&
//@     readerBytes(result.0) == string(r.repos[repoName].manifests[dig].data) &&
//@     readerDesc(result.0).Digest == dig && readerDesc(result.0).Size == len(r.repos[repoName].manifests[dig].data)
//@   ensures[unknown-name] !in(old(r.repos), repoName) ==> result.1 == ociregistry.ErrNameUnknown
//@   ensures[unknown-manifest] in(old(r.repos), repoName) && !in(old(r.repos[repoName].manifests), dig) ==> result.1 == ociregistry.ErrManifestUnknown

//@ pure func rangeEnd(o1 int64, size int64) int64 = (o1 < 0 || o1 > size) ? size : o1
//@ func (*Registry).GetBlobRange
//@   atomic
//@   modifies nothing
//@   ensures[serves-the-slice-describes-the-whole] result.1 == nil ==> in(r.repos, repoName) && in(r.repos[repoName].blobs, dig) &&
//@     0 <= o0 && o0 <= rangeEnd(o1, len(r.repos[repoName].blobs[dig].data)) &&
//@     readerBytes(result.0) == string(r.repos[repoName].blobs[dig].data)[o0:rangeEnd(o1, len(r.repos[repoName].blobs[dig].data))] &&
//@     readerDesc(result.0).Digest == dig && readerDesc(result.0).Size == len(r.repos[repoName].blobs[dig].data)

//@ func (*Registry).ResolveBlob
//@   atomic
//@   modifies nothing
//@   ensures[describes-the-stored-bytes] result.1 == nil ==> in(r.repos, repoName) && in(r.repos[repoName].blobs, digest) &&
//@     result.0.Digest == digest && result.0.Size == len(r.repos[repoName].blobs[digest].data)
//@ func (*Registry).ResolveManifest
//@   atomic
//@   modifies nothing
//@   ensures[describes-the-stored-bytes] result.1 == nil ==> in(r.repos, repoName) && in(r.repos[repoName].manifests, digest) &&
//@     result.0.Digest == digest && result.0.Size == len(r.repos[repoName].manifests[digest].data)
//@ func (*Registry).ResolveTag
//@   atomic
//@   modifies nothing
//@   ensures[bound-tag] result.1 == nil ==> in(r.repos, repoName) && in(r.repos[repoName].tags, tagName) && result.0 == r.repos[repoName].tags[tagName]
//@   ensures[unknown-name] !in(old(r.repos), repoName) ==> result.1 == ociregistry.ErrNameUnknown
//@   ensures[unknown-tag] in(old(r.repos), repoName) && !in(old(r.repos[repoName].tags), tagName) ==> result.1 == ociregistry.ErrManifestUnknown
//@ func (*Registry).GetTag
//@   atomic

// Writes.
//@ func (*Registry).PushBlob
//@   atomic
//@   ensures[accepted-only-if-matching] result.1 == nil ==> in(r.repos, repoName) && in(r.repos[repoName].blobs, desc.Digest) &&
//@     result.0 == desc && desc.Size == len(r.repos[repoName].blobs[desc.Digest].data)
//@   ensures[rejected-stores-nothing] result.1 != nil ==>
//@     forall n string, d ociregistry.Digest :: in(r.repos, n) && in(r.repos[n].blobs, d) ==> old(in(r.repos, n) && in(r.repos[n].blobs, d))
// (what is stored is everything the content reader yields, not a prefix of it:
// content longer than the descriptor says is refused by the size check, never cut)
//@   ensures[stores-all-the-content] result.1 == nil ==> string(r.repos[repoName].blobs[desc.Digest].data) == old(unread(content))

//@ func (*Registry).MountBlob
//@   atomic
//@   ensures[mounted-from-the-source] result.1 == nil ==> old(hasBlob(r, fromRepo, dig)) && hasBlob(r, toRepo, dig) &&
//@     r.repos[toRepo].blobs[dig] == old(r.repos[fromRepo].blobs[dig]) && result.0.Digest == dig
//@   ensures[touches-only-that-blob] forall n string, d ociregistry.Digest :: !(n == toRepo && d == dig) ==>
//@     hasBlob(r, n, d) == old(hasBlob(r, n, d)) && (hasBlob(r, n, d) ==> r.repos[n].blobs[d] == old(r.repos[n].blobs[d]))
//@   ensures[manifests-and-tags-untouched] forall n string, d ociregistry.Digest, t string ::
//@     hasManifest(r, n, d) == old(hasManifest(r, n, d)) && hasTag(r, n, t) == old(hasTag(r, n, t)) &&
//@     (hasTag(r, n, t) ==> r.repos[n].tags[t] == old(r.repos[n].tags[t]))

// PushManifest. "already tagged" is the immutable-tags shortcut: the tag is
// bound, and the call either confirms the binding or is denied.
//@ pure func alreadyTagged(r *Registry, n string, t string) bool = r.cfg.ImmutableTags && t != "" && hasTag(r, n, t)
//@ func (*Registry).PushManifest
//@   atomic
//@   ensures[describes-the-bytes] result.1 == nil ==> result.0.Digest == digest.FromBytes(data) && result.0.MediaType == mediaType
//@   ensures[stored-under-its-digest] result.1 == nil && !old(alreadyTagged(r, repoName, tag)) ==> result.0.Size == len(data) &&
//@     hasManifest(r, repoName, digest.FromBytes(data)) &&
//@     string(r.repos[repoName].manifests[digest.FromBytes(data)].data) == string(data) &&
//@     r.repos[repoName].manifests[digest.FromBytes(data)].mediaType == mediaType
// (the registry keeps a copy of its own, not the caller's buffer: the slice
// in the local `data`, which is what is stored (stored-under-its-digest), has
// a backing array allocated here - the one thing about aliasing this check decides)
//@   ensures[keeps-its-own-copy-of-the-bytes] result.1 == nil && !old(alreadyTagged(r, repoName, tag)) ==> ownCopy(data)
//@   ensures[tag-bound-to-it] result.1 == nil && tag != "" ==> hasTag(r, repoName, tag) &&
//@     r.repos[repoName].tags[tag].Digest == digest.FromBytes(data) && r.repos[repoName].tags[tag].MediaType == mediaType
//@   ensures[references-checked-before-storing] result.1 == nil && !old(alreadyTagged(r, repoName, tag)) ==>
//@     calls == [r.checkManifest(repoName, mediaType, _)] && calls[0].result.1 == nil
//@   ensures[immutable-tags-never-move] old(r.cfg.ImmutableTags) ==> forall n string, t string :: old(hasTag(r, n, t)) ==>
//@     hasTag(r, n, t) && r.repos[n].tags[t] == old(r.repos[n].tags[t])
//@   ensures[other-tags-untouched] forall n string, t string :: !(n == repoName && t == tag) ==>
//@     hasTag(r, n, t) == old(hasTag(r, n, t)) && (hasTag(r, n, t) ==> r.repos[n].tags[t] == old(r.repos[n].tags[t]))
//@   ensures[nothing-removed] forall n string, d ociregistry.Digest :: (old(hasManifest(r, n, d)) ==> hasManifest(r, n, d)) &&
//@     hasBlob(r, n, d) == old(hasBlob(r, n, d))
//@   ensures[other-manifests-untouched] forall n string, d ociregistry.Digest :: !(n == repoName && d == digest.FromBytes(data)) ==>
//@     hasManifest(r, n, d) == old(hasManifest(r, n, d)) && (hasManifest(r, n, d) ==> r.repos[n].manifests[d] == old(r.repos[n].manifests[d]))
//@   ensures[rejected-stores-nothing] result.1 != nil ==> forall n string, d ociregistry.Digest, t string ::
//@     hasManifest(r, n, d) == old(hasManifest(r, n, d)) && hasTag(r, n, t) == old(hasTag(r, n, t)) &&
//@     (hasTag(r, n, t) ==> r.repos[n].tags[t] == old(r.repos[n].tags[t]))

//@ func (*Registry).PushBlobChunked
// A resumed writer checks its first write against the offset the caller gave
// (-1: no check), whatever an earlier writer on the same upload left behind.
//@ func (*Registry).PushBlobChunkedResume
//@   atomic
//@   ensures[arms-the-offset-check] result.1 == nil ==> result.0 == b && b != nil && b.checkStartOffset == offset
// (resuming an upload hands out the upload as it is: of an upload buffer only
// the offset check is set here - its bytes, and whether and as what it was
// committed, are not written; a committed blob shares the buffer's backing
// array, so the buffer is never rewound)
//@   modifies ocimem.Buffer.checkStartOffset, ocimem.Registry.repos, map:*

// Deletions. In immutable-tags mode content is only deleted after refersTo
// found it unreachable from every tag.
//@ func (*Registry).DeleteBlob
//@   atomic
//@   ensures[deleted] result == nil ==> old(hasBlob(r, repoName, digest)) && !hasBlob(r, repoName, digest)
//@   ensures[unknown-name] !old(in(r.repos, repoName)) ==> result == ociregistry.ErrNameUnknown
//@   ensures[unknown-blob] old(in(r.repos, repoName)) && !old(hasBlob(r, repoName, digest)) ==> result == ociregistry.ErrBlobUnknown
//@   ensures[touches-only-that-blob] forall n string, d ociregistry.Digest :: !(n == repoName && d == digest) ==>
//@     hasBlob(r, n, d) == old(hasBlob(r, n, d)) && (hasBlob(r, n, d) ==> r.repos[n].blobs[d] == old(r.repos[n].blobs[d]))
//@   ensures[failed-deletes-nothing] result != nil ==> forall n string, d ociregistry.Digest :: hasBlob(r, n, d) == old(hasBlob(r, n, d))
//@   ensures[manifests-and-tags-untouched] forall n string, d ociregistry.Digest, t string ::
//@     hasManifest(r, n, d) == old(hasManifest(r, n, d)) && hasTag(r, n, t) == old(hasTag(r, n, t)) &&
//@     (hasTag(r, n, t) ==> r.repos[n].tags[t] == old(r.repos[n].tags[t]))
//@   ensures[tagged-content-protected] old(r.cfg.ImmutableTags) && result == nil ==>
//@     calls == [refersTo(old(r.repos[repoName]), repoTagIter(old(r.repos[repoName])), digest)] && !calls[0].result.0 && calls[0].result.1 == nil

//@ func (*Registry).DeleteManifest
//@   atomic
//@   ensures[deleted] result == nil ==> old(hasManifest(r, repoName, digest)) && !hasManifest(r, repoName, digest)
//@   ensures[unknown-name] !old(in(r.repos, repoName)) ==> result == ociregistry.ErrNameUnknown
//@   ensures[unknown-manifest] old(in(r.repos, repoName)) && !old(hasManifest(r, repoName, digest)) ==> result == ociregistry.ErrManifestUnknown
//@   ensures[touches-only-that-manifest] forall n string, d ociregistry.Digest :: !(n == repoName && d == digest) ==>
//@     hasManifest(r, n, d) == old(hasManifest(r, n, d)) && (hasManifest(r, n, d) ==> r.repos[n].manifests[d] == old(r.repos[n].manifests[d]))
//@   ensures[failed-deletes-nothing] result != nil ==> forall n string, d ociregistry.Digest :: hasManifest(r, n, d) == old(hasManifest(r, n, d))
//@   ensures[blobs-and-tags-untouched] forall n string, d ociregistry.Digest, t string ::
//@     hasBlob(r, n, d) == old(hasBlob(r, n, d)) && hasTag(r, n, t) == old(hasTag(r, n, t)) &&
//@     (hasTag(r, n, t) ==> r.repos[n].tags[t] == old(r.repos[n].tags[t]))
//@   ensures[tagged-content-protected] old(r.cfg.ImmutableTags) && result == nil ==>
//@     calls == [refersTo(old(r.repos[repoName]), repoTagIter(old(r.repos[repoName])), digest)] && !calls[0].result.0 && calls[0].result.1 == nil

//@ func (*Registry).DeleteTag
//@   atomic
//@   ensures[deleted] result == nil ==> old(hasTag(r, repoName, tagName)) && !hasTag(r, repoName, tagName)
//@   ensures[unknown-name] !old(in(r.repos, repoName)) ==> result == ociregistry.ErrNameUnknown
//@   ensures[unknown-tag] old(in(r.repos, repoName)) && !old(hasTag(r, repoName, tagName)) ==> errIs(result, ociregistry.ErrManifestUnknown)
//@   ensures[immutable-tags-stay] old(r.cfg.ImmutableTags) ==> result != nil
//@   ensures[touches-only-that-tag] forall n string, t string :: !(n == repoName && t == tagName) ==>
//@     hasTag(r, n, t) == old(hasTag(r, n, t)) && (hasTag(r, n, t) ==> r.repos[n].tags[t] == old(r.repos[n].tags[t]))
//@   ensures[failed-deletes-nothing] result != nil ==> forall n string, t string :: hasTag(r, n, t) == old(hasTag(r, n, t))
//@   ensures[content-untouched] forall n string, d ociregistry.Digest ::
//@     hasBlob(r, n, d) == old(hasBlob(r, n, d)) && hasManifest(r, n, d) == old(hasManifest(r, n, d))

//@ func (*Registry).Repositories
//@   atomic
//@   modifies nothing
//@   ensures[sorted-names-after-the-start] calls == [mapKeysIter(r.repos, strings.Compare, startAfter)] && result == calls[0].result
//@ func (*Registry).Tags
//@   atomic
//@   modifies nothing
//@   ensures[unknown-name] !in(r.repos, repoName) ==> result == ociregistry.ErrorSeq(ociregistry.ErrNameUnknown)
//@   ensures[sorted-tags-after-the-start] in(r.repos, repoName) ==>
//@     calls == [mapKeysIter(r.repos[repoName].tags, strings.Compare, startAfter)] && result == calls[0].result
//@ func (*Registry).Referrers
//@   atomic
//@   modifies nothing
//@   ensures[unknown-name] !in(r.repos, repoName) ==> result == ociregistry.ErrorSeq(ociregistry.ErrNameUnknown)
//@   loop 0 invariant forall i int :: 0 <= i && i < len(referrers) ==> exists d ociregistry.Digest ::
//@     in(repo.manifests, d) && visited(repo.manifests, d) && repo.manifests[d].subject == digest &&
//@     referrers[i] == repo.manifests[d].descriptor()
//@   loop 0 invariant forall d ociregistry.Digest :: visited(repo.manifests, d) && repo.manifests[d].subject == digest ==>
//@     exists i int :: 0 <= i && i < len(referrers) && referrers[i] == repo.manifests[d].descriptor()
//@   ensures[only-manifests-naming-the-subject] in(r.repos, repoName) ==> forall i int :: 0 <= i && i < len(referrers) ==>
//@     exists d ociregistry.Digest :: hasManifest(r, repoName, d) && r.repos[repoName].manifests[d].subject == digest &&
//@       referrers[i] == r.repos[repoName].manifests[d].descriptor()
//@   ensures[every-manifest-naming-the-subject] in(r.repos, repoName) ==> forall d ociregistry.Digest ::
//@     hasManifest(r, repoName, d) && r.repos[repoName].manifests[d].subject == digest ==>
//@     exists i int :: 0 <= i && i < len(referrers) && referrers[i] == r.repos[repoName].manifests[d].descriptor()
//@   ensures[in-digest-order] in(r.repos, repoName) ==> forall i, j int :: 0 <= i && i < j && j < len(referrers) ==> referrers[i].Digest <= referrers[j].Digest
//@   ensures[yields-that-slice] in(r.repos, repoName) ==> result == ociregistry.SliceSeq(referrers)

//@ func (*Registry).checkManifest
//@   holds r.mu
//@   modifies nothing
//@   log
//@   ensures[unknown-name] !in(r.repos, repoName) ==> result.1 != nil
//@ func (*Registry).checkManifest$1
//@   holds Registry.mu
//@   requires repoWF(repo)
//@   ensures[missing-blob-refused] info.kind == kindBlob && !in(repo.blobs, info.desc.Digest) ==> !result && retErr != nil
//@   ensures[missing-manifest-refused] info.kind == kindManifest && !in(repo.manifests, info.desc.Digest) ==> !result && retErr != nil
//@   ensures[malformed-descriptor-refused] CheckDescriptor(info.desc, nil) != nil ==> !result && retErr != nil
//@   ensures[error-is-never-cleared] old(retErr) != nil ==> retErr != nil
//@   ensures[stops-only-with-an-error] !result ==> retErr != nil
//@   ensures[subject-recorded] result && info.kind == kindSubjectManifest ==> subject == info.desc.Digest
//@ func refersTo
//@   holds Registry.mu
//@   modifies nothing
//@   log
//@   requires repoWF(repo) && iter != nil
// The callback refersTo hands to the iterator: a hit (direct, or inside a
// nested manifest) and an error both end the search at once, so a later
// sibling can never overwrite them; the search goes on only while nothing has
// been found.
// (nothing found yet when it is called: true when the callback is created,
// re-established by every call that asks to continue, and a descIter does not
// call again after being told to stop: the iterator protocol, checked of the
// iterators of this package under C14)
//@ func refersTo$1
//@   holds Registry.mu
//@   requires repoWF(repo) && !found && retErr == nil
//@   ensures[a-direct-hit-is-recorded-and-stops-the-search] info.desc.Digest == digest ==> found && !result
//@   ensures[the-search-continues-only-while-nothing-is-found] result ==> !found && retErr == nil
// (a nested manifest is read as what the reference to it says it is - the
// media type of the descriptor that names it - not as whatever was last
// pushed under its digest)
//@   ensures[nested-manifests-are-read-as-they-are-referenced] ncallsOf("manifestReferences") <= 1 &&
//@     (ncallsOf("manifestReferences") == 1 ==> calls[lastOf("manifestReferences")].arg.0 == info.desc.MediaType)
// (fail closed: a nested manifest that cannot be decoded ends the search with
// that error - it is never taken for "refers to nothing", which would let a
// delete in immutable-tags mode go ahead)
//@   ensures[an-undecodable-nested-manifest-is-an-error] ncallsOf("manifestReferences") == 1 &&
//@     calls[lastOf("manifestReferences")].result.1 != nil ==> !result && retErr == calls[lastOf("manifestReferences")].result.1

// (trusted: the table manifestIterators holds functions that return a
// non-nil iterator or an error)
//@ func manifestReferences
//@   trusted
//@   log
//@   modifies nothing
//@   ensures[iterator-or-error] result.1 == nil ==> result.0 != nil
//@ fn-type-pure descIter
//@ func repoTagIter
//@   pure
//@   requires repoWF(r)
//@   ensures result != nil
//@ func repoTagIter$1
//@   holds Registry.mu
//@   requires repoWF(r)
// Listings: the keys strictly after the start point, each exactly once, in
// the order of the comparison. ks is the slice the returned iterator yields
// (SliceSeq's closure, verified in package ociregistry, yields exactly its
// argument in order). visited(m, k) is the ghost state of the range over m.
//@ func mapKeysIter
//@   modifies nothing
//@   log
//@   pure-param cmp
//@   holds Registry.mu
//@   guarded-param m Registry.mu
//@   requires cmp != nil
//@   loop 0 invariant forall i int :: 0 <= i && i < len(ks) ==> in(m, ks[i]) && visited(m, ks[i]) && cmp(startAfter, ks[i]) < 0
//@   loop 0 invariant forall k K :: visited(m, k) && cmp(startAfter, k) < 0 ==> exists i int :: 0 <= i && i < len(ks) && ks[i] == k
//@   loop 0 invariant forall i, j int :: 0 <= i && i < j && j < len(ks) ==> ks[i] != ks[j]
//@   ensures result != nil
//@   ensures[yields-that-slice] result == ociregistry.SliceSeq(ks)
//@   ensures[only-keys-after-the-start] forall i int :: 0 <= i && i < len(ks) ==> in(m, ks[i]) && cmp(startAfter, ks[i]) < 0
//@   ensures[every-key-after-the-start] forall k K :: in(m, k) && cmp(startAfter, k) < 0 ==> exists i int :: 0 <= i && i < len(ks) && ks[i] == k
//@   ensures[in-order] forall i, j int :: 0 <= i && i < j && j < len(ks) ==> cmp(ks[i], ks[j]) <= 0
//@   ensures[each-once] forall i, j int :: 0 <= i && i < j && j < len(ks) ==> ks[i] != ks[j]
//@ func NewBuffer
//@   nocall
//@   requires commit != nil
//@   ensures result != nil && result.commit != nil && result.uuid != "" && (uuid != "" ==> result.uuid == uuid)
// The typed manifest decoder accepts only data that is, as a whole, one
// well-formed JSON document (jsonDoc: what encoding/json.Unmarshal accepts;
// a decoder that reads one value and ignores what follows does not qualify).
//@ func descIterForType$1
//@   requires newIter != nil
//@   ensures[only-a-whole-json-document-is-accepted] result.1 == nil ==> jsonDoc(data)
//@ func descIterForType
//@   requires newIter != nil
//@   ensures result != nil
// (trusted: 32 random bytes printed in hexadecimal)
//@ func newUUID
//@   trusted
//@   modifies nothing
//@   ensures result != ""
// The commit callback runs after checkCommit released the buffer lock, so
// nothing about the buffer's guarded fields is assumed here (a concurrent
// Commit may have recorded an error in between): whatever it stores must be
// justified by what GetBlob returns under the lock.
//@ func (*Registry).PushBlobChunkedResume$1
//@   requires b != nil && b.commit != nil && r != nil && repoWF(repo)
//@   ensures[stores-verified-bytes] result == nil ==> in(repo.blobs, desc.Digest) && repo.blobs[desc.Digest] != nil &&
//@     digest.FromBytes(repo.blobs[desc.Digest].data) == desc.Digest
//@   ensures[stores-nothing-on-error] result != nil ==> forall d ociregistry.Digest ::
//@     in(repo.blobs, d) == old(in(repo.blobs, d)) && repo.blobs[d] == old(repo.blobs[d])
//@   ensures[touches-only-that-digest] forall d ociregistry.Digest :: d != desc.Digest ==>
//@     in(repo.blobs, d) == old(in(repo.blobs, d)) && repo.blobs[d] == old(repo.blobs[d])

// ---------------------------------------------------------------------------
// Upload buffers (C04, C01, C08).
//
// BufInv: once committed without error, the first desc.Size bytes of the
// buffer hash to desc.Digest. Write only appends, so the invariant holds
// whenever the buffer lock is free - also between Commit's two steps.
//@ invariant (*Buffer) self.committed && self.commitErr == nil ==>
//@     0 <= self.desc.Size && self.desc.Size <= len(self.buf) &&
//@     digest.FromBytes(self.buf[:self.desc.Size]) == self.desc.Digest

//@ func (*Buffer).GetBlob
//@   modifies nothing
//@   ensures[committed-bytes-match-their-descriptor] result.2 == nil ==>
//@     digest.FromBytes(result.1) == result.0.Digest && result.0.Size == len(result.1) && result.0 == b.desc
//@   ensures[no-bytes-with-an-error] result.2 != nil ==> result.1 == nil && result.0 == zero(ociregistry.Descriptor)
//@   ensures[succeeds-iff-committed-cleanly] (result.2 == nil) == (b.committed && b.commitErr == nil)

// The buffer is append-only: no method ever shortens or rewrites it (a
// committed blob shares its backing array).
//@ func (*Buffer).Write
//@   ensures[callers-buffer-untouched] untouched(data) && string(data) == old(string(data))
//@   ensures[offset-mismatch-refused] old(b.checkStartOffset) != 0 - 1 && old(len(b.buf)) != old(b.checkStartOffset) ==>
//@     result.0 == 0 && errIs(result.1, ociregistry.ErrRangeInvalid) && string(b.buf) == old(string(b.buf))
//@   ensures[refusal-keeps-the-check-armed] result.1 != nil ==> b.checkStartOffset == old(b.checkStartOffset)
//@   ensures[write-touches-nothing-else] b.committed == old(b.committed) && b.desc == old(b.desc) && b.commitErr == old(b.commitErr)
//@   ensures[appends-exactly-the-data] !(old(b.checkStartOffset) != 0 - 1 && old(len(b.buf)) != old(b.checkStartOffset)) ==>
//@     result.0 == len(data) && result.1 == nil && string(b.buf) == old(string(b.buf)) + string(data) && b.checkStartOffset == 0 - 1

//@ func (*Buffer).Cancel
//@   ensures[bytes-untouched] string(b.buf) == old(string(b.buf)) && len(b.buf) == old(len(b.buf)) && b.desc == old(b.desc) && b.committed == old(b.committed)
//@ func (*Buffer).checkCommit
//@   ensures[bytes-untouched] string(b.buf) == old(string(b.buf))
//@   ensures[verified-before-committed] result == nil ==>
//@     b.committed && b.commitErr == nil && b.desc.Digest == dig && b.desc.Size == len(b.buf) && digest.FromBytes(b.buf) == dig
//@   ensures[wrong-digest-refused] old(b.commitErr) == nil && digest.FromBytes(old(b.buf)) != dig ==>
//@     errIs(result, ociregistry.ErrDigestInvalid) && b.commitErr != nil

// The commit callback is only invoked on a buffer whose invariant holds.
//@ fn-sink (*Buffer).commit(b) requires b != nil && b.commit != nil && b.committed && b.commitErr == nil

//@ func (*Buffer).Size
//@   modifies nothing
//@ func (*Buffer).ID
//@   modifies nothing
//@   ensures result == b.uuid
//@ func (*Buffer).ChunkSize
//@   modifies nothing
//@ func (*Buffer).Close
//@   modifies nothing
//@ func (*Buffer).Commit
//@   ensures[wrong-digest-stores-nothing] old(b.commitErr) == nil && digest.FromBytes(old(b.buf)) != dig ==>
//@     result.1 != nil && calls == []
//@   ensures[committed-descriptor-matches-the-bytes] result.1 == nil && b.committed && b.commitErr == nil ==> 0 <= result.0.Size && result.0.Size <= len(b.buf) &&
//@     digest.FromBytes(b.buf[:result.0.Size]) == result.0.Digest
