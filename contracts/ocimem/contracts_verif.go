//go:build verif

// Contracts for package ocimem, checked by /verif/govc. Comments only.

package ocimem

// ---------------------------------------------------------------------------
// The in-memory registry: representation invariants (C01, C02), lock
// discipline (C08), immutable-tags mode (C14), upload buffers (C04).
//
// dg is digest.FromBytes as an unspecified deterministic function of the
// bytes. Everything the registry stores under a digest hashes to it
// (DigestInv); every repository has its four maps (RepoWF); stored blob
// objects are never modified after construction.

//@ immutable blob.mediaType, blob.data, blob.subject
//@ immutable Buffer.commit, Buffer.uuid
//@ immutable Registry.cfg

//@ guarded_by Registry.mu: Registry.repos, repository.tags, repository.manifests, repository.blobs, repository.uploads
//@ guarded_by Buffer.mu: Buffer.buf, Buffer.checkStartOffset, Buffer.committed, Buffer.desc, Buffer.commitErr

//@ pure func repoWF(p *repository) bool =
//@   p != nil && p.tags != nil && p.manifests != nil && p.blobs != nil && p.uploads != nil

//@ invariant (*Registry) self != nil
//@ invariant (*Registry) forall n string :: in(self.repos, n) ==> repoWF(self.repos[n])
//@ invariant (*Registry) forall n string, d ociregistry.Digest :: in(self.repos, n) && in(self.repos[n].blobs, d) ==>
//@     self.repos[n].blobs[d] != nil && digest.FromBytes(self.repos[n].blobs[d].data) == d
//@ invariant (*Registry) forall n string, d ociregistry.Digest :: in(self.repos, n) && in(self.repos[n].manifests, d) ==>
//@     self.repos[n].manifests[d] != nil && digest.FromBytes(self.repos[n].manifests[d].data) == d
//@ invariant (*Registry) forall n string, id string :: in(self.repos, n) && in(self.repos[n].uploads, id) ==>
//@     self.repos[n].uploads[id] != nil && self.repos[n].uploads[id].commit != nil

//@ invariant (*blob) self != nil
//@ invariant (*bytesReader) self != nil
//@ invariant (*Buffer) self != nil && self.commit != nil

//@ func New
//@   ensures result != nil
//@ func NewWithConfig
//@   ensures result != nil

// CheckDescriptor: a descriptor that passes the check against some bytes
// names exactly those bytes.
//@ func CheckDescriptor
//@   modifies nothing
//@   ensures[digest-and-size-match] result == nil && data != nil ==>
//@             digest.FromBytes(data) == desc.Digest && desc.Size == len(data)
//@   ensures[sane] result == nil ==> desc.MediaType != "" && desc.Digest.Validate() == nil

//@ func (*blob).descriptor
//@   modifies nothing
//@   ensures[describes-its-bytes] result.MediaType == b.mediaType && result.Size == len(b.data) &&
//@             result.Digest == digest.FromBytes(b.data)

// Readers over stored bytes: what will be read and what is described.
//@ pure func readerBytes(r ociregistry.BlobReader) string
//@ pure func readerDesc(r ociregistry.BlobReader) ociregistry.Descriptor
// (trusted: bytes.Reader yields exactly the bytes it was reset with)
//@ func NewBytesReader
//@   trusted
//@   modifies nothing
//@   ensures[reads-exactly-the-bytes] result != nil && readerBytes(result) == string(data) && readerDesc(result) == desc

// Helpers that run under the registry lock.
//@ func (*Registry).repo
//@   holds r.mu
//@   modifies nothing
//@   ensures[found] in(r.repos, repoName) ==> result.0 == r.repos[repoName] && result.1 == nil
//@   ensures[unknown-name] !in(r.repos, repoName) ==> result.0 == nil && result.1 == ociregistry.ErrNameUnknown

//@ func (*Registry).blobForDigest
//@   holds r.mu
//@   modifies nothing
//@   ensures[found] result.1 == nil ==> in(r.repos, repoName) && in(r.repos[repoName].blobs, dig) && result.0 == r.repos[repoName].blobs[dig] && result.0 != nil
//@   ensures[unknown-name] !in(r.repos, repoName) ==> result.1 == ociregistry.ErrNameUnknown && result.0 == nil
//@   ensures[unknown-blob] in(r.repos, repoName) && !in(r.repos[repoName].blobs, dig) ==> result.1 == ociregistry.ErrBlobUnknown && result.0 == nil

//@ func (*Registry).manifestForDigest
//@   holds r.mu
//@   modifies nothing
//@   ensures[found] result.1 == nil ==> in(r.repos, repoName) && in(r.repos[repoName].manifests, dig) && result.0 == r.repos[repoName].manifests[dig] && result.0 != nil
//@   ensures[unknown-name] !in(r.repos, repoName) ==> result.1 == ociregistry.ErrNameUnknown && result.0 == nil
//@   ensures[unknown-manifest] in(r.repos, repoName) && !in(r.repos[repoName].manifests, dig) ==> result.1 == ociregistry.ErrManifestUnknown && result.0 == nil

//@ func (*Registry).makeRepo
//@   holds r.mu
//@   ensures[invalid-name] !ociref.IsValidRepository(repoName) ==> result.1 == ociregistry.ErrNameInvalid && result.0 == nil
//@   ensures[invalid-name-changes-nothing] !ociref.IsValidRepository(repoName) ==>
//@     forall n string, d ociregistry.Digest :: in(r.repos, n) && in(r.repos[n].blobs, d) ==> old(in(r.repos, n) && in(r.repos[n].blobs, d))
//@   ensures[repo-exists-afterwards] ociref.IsValidRepository(repoName) ==> result.1 == nil && in(r.repos, repoName) && result.0 == r.repos[repoName]

// Reads.
//@ func (*Registry).GetBlob
//@   atomic
//@   modifies nothing
//@   ensures[serves-the-stored-bytes] result.1 == nil ==> in(r.repos, repoName) && in(r.repos[repoName].blobs, dig) &&
//@     readerBytes(result.0) == string(r.repos[repoName].blobs[dig].data) &&
//@     readerDesc(result.0).Digest == dig && readerDesc(result.0).Size == len(r.repos[repoName].blobs[dig].data)
//@   ensures[unknown-name] !in(old(r.repos), repoName) ==> result.1 == ociregistry.ErrNameUnknown
//@   ensures[unknown-blob] in(old(r.repos), repoName) && !in(old(r.repos[repoName].blobs), dig) ==> result.1 == ociregistry.ErrBlobUnknown

//@ func (*Registry).GetManifest
//@   atomic
//@   modifies nothing
//@   ensures[serves-the-stored-bytes] result.1 == nil ==> in(r.repos, repoName) && in(r.repos[repoName].manifests, dig) &&
//@     readerBytes(result.0) == string(r.repos[repoName].manifests[dig].data) &&
//@     readerDesc(result.0).Digest == dig && readerDesc(result.0).Size == len(r.repos[repoName].manifests[dig].data)
//@   ensures[unknown-name] !in(old(r.repos), repoName) ==> result.1 == ociregistry.ErrNameUnknown
//@   ensures[unknown-manifest] in(old(r.repos), repoName) && !in(old(r.repos[repoName].manifests), dig) ==> result.1 == ociregistry.ErrManifestUnknown

//@ pure func rangeEnd(o1 int64, size int64) int64 = (o1 < 0 || o1 > size) ? size : o1
//@ func (*Registry).GetBlobRange
//@   atomic
//@   modifies nothing
//@   ensures[serves-the-slice-describes-the-whole] result.1 == nil ==> in(r.repos, repoName) && in(r.repos[repoName].blobs, dig) &&
//@     0 <= o0 && o0 <= rangeEnd(o1, len(r.repos[repoName].blobs[dig].data)) &&
//@     readerBytes(result.0) == string(r.repos[repoName].blobs[dig].data)[o0:rangeEnd(o1, len(r.repos[repoName].blobs[dig].data))] &&
//@     readerDesc(result.0).Digest == dig && readerDesc(result.0).Size == len(r.repos[repoName].blobs[dig].data)

//@ func (*Registry).ResolveBlob
//@   atomic
//@   modifies nothing
//@   ensures[describes-the-stored-bytes] result.1 == nil ==> in(r.repos, repoName) && in(r.repos[repoName].blobs, digest) &&
//@     result.0.Digest == digest && result.0.Size == len(r.repos[repoName].blobs[digest].data)
//@ func (*Registry).ResolveManifest
//@   atomic
//@   modifies nothing
//@   ensures[describes-the-stored-bytes] result.1 == nil ==> in(r.repos, repoName) && in(r.repos[repoName].manifests, digest) &&
//@     result.0.Digest == digest && result.0.Size == len(r.repos[repoName].manifests[digest].data)
//@ func (*Registry).ResolveTag
//@   atomic
//@   modifies nothing
//@   ensures[bound-tag] result.1 == nil ==> in(r.repos, repoName) && in(r.repos[repoName].tags, tagName) && result.0 == r.repos[repoName].tags[tagName]
//@   ensures[unknown-name] !in(old(r.repos), repoName) ==> result.1 == ociregistry.ErrNameUnknown
//@   ensures[unknown-tag] in(old(r.repos), repoName) && !in(old(r.repos[repoName].tags), tagName) ==> result.1 == ociregistry.ErrManifestUnknown
//@ func (*Registry).GetTag
//@   atomic

// Writes.
//@ func (*Registry).PushBlob
//@   atomic
//@   ensures[accepted-only-if-matching] result.1 == nil ==> in(r.repos, repoName) && in(r.repos[repoName].blobs, desc.Digest) &&
//@     result.0 == desc && desc.Size == len(r.repos[repoName].blobs[desc.Digest].data)
//@   ensures[rejected-stores-nothing] result.1 != nil ==>
//@     forall n string, d ociregistry.Digest :: in(r.repos, n) && in(r.repos[n].blobs, d) ==> old(in(r.repos, n) && in(r.repos[n].blobs, d))

//@ func (*Registry).MountBlob
//@   atomic
//@ func (*Registry).PushManifest
//@   atomic
//@ func (*Registry).PushBlobChunked
//@ func (*Registry).PushBlobChunkedResume
//@   atomic
//@ func (*Registry).DeleteBlob
//@   atomic
//@ func (*Registry).DeleteManifest
//@   atomic
//@ func (*Registry).DeleteTag
//@   atomic
//@ func (*Registry).Repositories
//@   atomic
//@ func (*Registry).Tags
//@   atomic
//@ func (*Registry).Referrers
//@   atomic

//@ func (*Registry).checkManifest
//@   holds r.mu
//@   modifies nothing
//@ func refersTo
//@   holds Registry.mu
//@   modifies nothing
//@   requires repoWF(repo) && iter != nil

// (trusted: the table manifestIterators holds functions that return a
// non-nil iterator or an error)
//@ func manifestReferences
//@   trusted
//@   modifies nothing
//@   ensures[iterator-or-error] result.1 == nil ==> result.0 != nil
//@ fn-type-pure descIter
//@ func repoTagIter
//@   modifies nothing
//@   requires repoWF(r)
//@   ensures result != nil
//@ func repoTagIter$1
//@   holds Registry.mu
//@   requires repoWF(r)
//@ func mapKeysIter
//@   modifies nothing
//@   requires cmp != nil
//@   ensures result != nil
//@ func NewBuffer
//@   nocall
//@   requires commit != nil
//@   ensures result != nil && result.commit != nil && result.uuid != "" && (uuid != "" ==> result.uuid == uuid)
//@ func descIterForType$1
//@   requires newIter != nil
//@ func descIterForType
//@   requires newIter != nil
//@   ensures result != nil
// (trusted: 32 random bytes printed in hexadecimal)
//@ func newUUID
//@   trusted
//@   modifies nothing
//@   ensures result != ""
// The commit callback runs after checkCommit released the buffer lock, so
// nothing about the buffer's guarded fields is assumed here (a concurrent
// Commit may have recorded an error in between): whatever it stores must be
// justified by what GetBlob returns under the lock.
//@ func (*Registry).PushBlobChunkedResume$1
//@   requires b != nil && b.commit != nil && r != nil && repoWF(repo)
//@   ensures[stores-verified-bytes] result == nil ==> in(repo.blobs, desc.Digest) && repo.blobs[desc.Digest] != nil &&
//@     digest.FromBytes(repo.blobs[desc.Digest].data) == desc.Digest
//@   ensures[stores-nothing-on-error] result != nil ==> forall d ociregistry.Digest ::
//@     in(repo.blobs, d) == old(in(repo.blobs, d)) && repo.blobs[d] == old(repo.blobs[d])
//@   ensures[touches-only-that-digest] forall d ociregistry.Digest :: d != desc.Digest ==>
//@     in(repo.blobs, d) == old(in(repo.blobs, d)) && repo.blobs[d] == old(repo.blobs[d])

// ---------------------------------------------------------------------------
// Upload buffers (C04, C01, C08).
//
// BufInv: once committed without error, the first desc.Size bytes of the
// buffer hash to desc.Digest. Write only appends, so the invariant holds
// whenever the buffer lock is free - also between Commit's two steps.
//@ invariant (*Buffer) self.committed && self.commitErr == nil ==>
//@     0 <= self.desc.Size && self.desc.Size <= len(self.buf) &&
//@     digest.FromBytes(self.buf[:self.desc.Size]) == self.desc.Digest

//@ func (*Buffer).GetBlob
//@   modifies nothing
//@   ensures[committed-bytes-match-their-descriptor] result.2 == nil ==>
//@     digest.FromBytes(result.1) == result.0.Digest && result.0.Size == len(result.1) && result.0 == b.desc
//@   ensures[no-bytes-with-an-error] result.2 != nil ==> result.1 == nil && result.0 == zero(ociregistry.Descriptor)
//@   ensures[succeeds-iff-committed-cleanly] (result.2 == nil) == (b.committed && b.commitErr == nil)

//@ func (*Buffer).Write
//@   ensures[offset-mismatch-refused] old(b.checkStartOffset) != 0 - 1 && old(len(b.buf)) != old(b.checkStartOffset) ==>
//@     result.0 == 0 && errIs(result.1, ociregistry.ErrRangeInvalid) && string(b.buf) == old(string(b.buf))
//@   ensures[appends-exactly-the-data] !(old(b.checkStartOffset) != 0 - 1 && old(len(b.buf)) != old(b.checkStartOffset)) ==>
//@     result.0 == len(data) && result.1 == nil && string(b.buf) == old(string(b.buf)) + string(data) && b.checkStartOffset == 0 - 1

//@ func (*Buffer).checkCommit
//@   ensures[verified-before-committed] result == nil ==>
//@     b.committed && b.commitErr == nil && b.desc.Digest == dig && b.desc.Size == len(b.buf) && digest.FromBytes(b.buf) == dig
//@   ensures[wrong-digest-refused] old(b.commitErr) == nil && digest.FromBytes(old(b.buf)) != dig ==>
//@     errIs(result, ociregistry.ErrDigestInvalid) && b.commitErr != nil

// The commit callback is only invoked on a buffer whose invariant holds.
//@ fn-sink (*Buffer).commit(b) requires b != nil && b.commit != nil && b.committed && b.commitErr == nil

//@ func (*Buffer).Size
//@   modifies nothing
//@ func (*Buffer).ID
//@   modifies nothing
//@   ensures result == b.uuid
//@ func (*Buffer).ChunkSize
//@   modifies nothing
//@ func (*Buffer).Close
//@   modifies nothing
//@ func (*Buffer).Commit
//@   ensures[wrong-digest-stores-nothing] old(b.commitErr) == nil && digest.FromBytes(old(b.buf)) != dig ==>
//@     result.1 != nil && calls == []
//@   ensures[committed-descriptor-matches-the-bytes] result.1 == nil && b.committed && b.commitErr == nil ==> 0 <= result.0.Size && result.0.Size <= len(b.buf) &&
//@     digest.FromBytes(b.buf[:result.0.Size]) == result.0.Digest
