//go:build verif

// Contracts for package ociref, checked by /verif/govc. Comments only.

package ociref

// ---------------------------------------------------------------------------
// C17: reference parsing.
//
// The regular expressions are compile-time constants; what is assumed about
// FindStringSubmatch / MatchString is derived on every run from the syntax
// tree of the constant pattern (capture k is non-empty iff its group took
// part; the subject is the concatenation of the groups; capture k fully
// matches its sub-expression). IsValidHost / IsValidRepository have no
// contract: in specifications they mean what their bodies compute.

// printRef is the printer's specification, written from the doc comment
// "[HOST/]NAME[:TAG|@DIGEST]".
//@ pure func printRef(ref Reference) string =
//@   (ref.Host != "" ? ref.Host + "/" : "") + ref.Repository +
//@   (ref.Tag != "" ? ":" + ref.Tag : "") + (ref.Digest != "" ? "@" + string(ref.Digest) : "")

//@ func (Reference).String
//@   ensures[prints-the-parts] result == printRef(ref)

//@ func ParseRelative
//@   ensures[exact-partition] result.1 == nil ==> printRef(result.0) == refStr
//@   ensures[repository-valid] result.1 == nil ==> IsValidRepository(result.0.Repository) && len(result.0.Repository) <= 255
//@   ensures[host-valid] result.1 == nil && result.0.Host != "" ==> IsValidHost(result.0.Host)
//@   ensures[tag-valid] result.1 == nil && result.0.Tag != "" ==> checkTag(result.0.Tag) == nil
//@   ensures[digest-valid] result.1 == nil && result.0.Digest != "" ==> result.0.Digest.Validate() == nil
//@   ensures[error-means-zero] result.1 != nil ==> result.0 == zero(Reference)

//@ func Parse
//@   ensures[exact-partition] result.1 == nil ==> printRef(result.0) == refStr
//@   ensures[has-host] result.1 == nil ==> result.0.Host != "" && IsValidHost(result.0.Host)
//@   ensures[repository-valid] result.1 == nil ==> IsValidRepository(result.0.Repository) && len(result.0.Repository) <= 255
//@   ensures[tag-valid] result.1 == nil && result.0.Tag != "" ==> checkTag(result.0.Tag) == nil
//@   ensures[digest-valid] result.1 == nil && result.0.Digest != "" ==> result.0.Digest.Validate() == nil

// checkTag is total (no requires) and is used as a pure function in the
// contracts above; its own definition is proved below.
//@ pure func okTagByte(c byte) bool =
//@   c == '_' || ('a' <= c && c <= 'z') || ('A' <= c && c <= 'Z') || ('0' <= c && c <= '9') || c == '.' || c == '-'

//@ func checkTag
//@   pure
//@   ensures[length-limit] result == nil ==> 1 <= len(s) && len(s) <= 128
//@   ensures[first-is-word] result == nil ==> okTagByte(s[0]) && s[0] != '.' && s[0] != '-'
//@   ensures[all-bytes-ok] result == nil ==> forall j int :: 1 <= j && j < len(s) ==> okTagByte(s[j])
//@   loop 0 invariant 1 <= i && i <= len(s)
//@   loop 0 invariant forall j int :: 1 <= j && j < i ==> okTagByte(s[j])
