//go:build verif

// Contracts for package ociregistry, checked by /verif/govc (contract-based
// deductive verification). This file contains comments only; it is compiled
// only with the build tag "verif" and then contributes nothing but the
// package clause.

package ociregistry

// ---------------------------------------------------------------------------
// C20: the function-table registry is total.
//
// `calls` is the ghost log of calls made through func-typed fields and of
// logged static callees, in order. `old(e)` is e in the entry state.
// The no-panic part (the func value that is called is non-nil, f is not
// dereferenced when nil) needs no annotation: it is the O-SAFE sweep.

//@ func (*Funcs).newError
//@   log
//@   ensures[set-delegates] old(f != nil && f.NewError != nil) ==>
//@             calls == [old(f.NewError)(ctx, methodName, repo)] && result == calls[0].result
//@   ensures[unset-unsupported] !old(f != nil && f.NewError != nil) ==>
//@             calls == [] && result != nil && errIs(result, ErrUnsupported)

//@ func (*Funcs).GetBlob
//@   ensures[set-delegates] old(f != nil && f.GetBlob_ != nil) ==>
//@             calls == [old(f.GetBlob_)(ctx, repo, digest)] && result.0 == calls[0].result.0 && result.1 == calls[0].result.1
//@   ensures[unset-fails-cleanly] !old(f != nil && f.GetBlob_ != nil) ==>
//@             calls == [f.newError(ctx, "GetBlob", repo)] && result.0 == nil && result.1 == calls[0].result

//@ func (*Funcs).GetBlobRange
//@   ensures[set-delegates] old(f != nil && f.GetBlobRange_ != nil) ==>
//@             calls == [old(f.GetBlobRange_)(ctx, repo, digest, offset0, offset1)] && result.0 == calls[0].result.0 && result.1 == calls[0].result.1
//@   ensures[unset-fails-cleanly] !old(f != nil && f.GetBlobRange_ != nil) ==>
//@             calls == [f.newError(ctx, "GetBlobRange", repo)] && result.0 == nil && result.1 == calls[0].result

//@ func (*Funcs).GetManifest
//@   ensures[set-delegates] old(f != nil && f.GetManifest_ != nil) ==>
//@             calls == [old(f.GetManifest_)(ctx, repo, digest)] && result.0 == calls[0].result.0 && result.1 == calls[0].result.1
//@   ensures[unset-fails-cleanly] !old(f != nil && f.GetManifest_ != nil) ==>
//@             calls == [f.newError(ctx, "GetManifest", repo)] && result.0 == nil && result.1 == calls[0].result

//@ func (*Funcs).GetTag
//@   ensures[set-delegates] old(f != nil && f.GetTag_ != nil) ==>
//@             calls == [old(f.GetTag_)(ctx, repo, tagName)] && result.0 == calls[0].result.0 && result.1 == calls[0].result.1
//@   ensures[unset-fails-cleanly] !old(f != nil && f.GetTag_ != nil) ==>
//@             calls == [f.newError(ctx, "GetTag", repo)] && result.0 == nil && result.1 == calls[0].result

//@ func (*Funcs).ResolveBlob
//@   ensures[set-delegates] old(f != nil && f.ResolveBlob_ != nil) ==>
//@             calls == [old(f.ResolveBlob_)(ctx, repo, digest)] && result.0 == calls[0].result.0 && result.1 == calls[0].result.1
//@   ensures[unset-fails-cleanly] !old(f != nil && f.ResolveBlob_ != nil) ==>
//@             calls == [f.newError(ctx, "ResolveBlob", repo)] && result.0 == zero(Descriptor) && result.1 == calls[0].result

//@ func (*Funcs).ResolveManifest
//@   ensures[set-delegates] old(f != nil && f.ResolveManifest_ != nil) ==>
//@             calls == [old(f.ResolveManifest_)(ctx, repo, digest)] && result.0 == calls[0].result.0 && result.1 == calls[0].result.1
//@   ensures[unset-fails-cleanly] !old(f != nil && f.ResolveManifest_ != nil) ==>
//@             calls == [f.newError(ctx, "ResolveManifest", repo)] && result.0 == zero(Descriptor) && result.1 == calls[0].result

//@ func (*Funcs).ResolveTag
//@   ensures[set-delegates] old(f != nil && f.ResolveTag_ != nil) ==>
//@             calls == [old(f.ResolveTag_)(ctx, repo, tagName)] && result.0 == calls[0].result.0 && result.1 == calls[0].result.1
//@   ensures[unset-fails-cleanly] !old(f != nil && f.ResolveTag_ != nil) ==>
//@             calls == [f.newError(ctx, "ResolveTag", repo)] && result.0 == zero(Descriptor) && result.1 == calls[0].result

//@ func (*Funcs).PushBlob
//@   ensures[set-delegates] old(f != nil && f.PushBlob_ != nil) ==>
//@             calls == [old(f.PushBlob_)(ctx, repo, desc, r)] && result.0 == calls[0].result.0 && result.1 == calls[0].result.1
//@   ensures[unset-fails-cleanly] !old(f != nil && f.PushBlob_ != nil) ==>
//@             calls == [f.newError(ctx, "PushBlob", repo)] && result.0 == zero(Descriptor) && result.1 == calls[0].result

//@ func (*Funcs).PushBlobChunked
//@   ensures[set-delegates] old(f != nil && f.PushBlobChunked_ != nil) ==>
//@             calls == [old(f.PushBlobChunked_)(ctx, repo, chunkSize)] && result.0 == calls[0].result.0 && result.1 == calls[0].result.1
//@   ensures[unset-fails-cleanly] !old(f != nil && f.PushBlobChunked_ != nil) ==>
//@             calls == [f.newError(ctx, "PushBlobChunked", repo)] && result.0 == nil && result.1 == calls[0].result

//@ func (*Funcs).PushBlobChunkedResume
//@   ensures[set-delegates] old(f != nil && f.PushBlobChunkedResume_ != nil) ==>
//@             calls == [old(f.PushBlobChunkedResume_)(ctx, repo, id, offset, chunkSize)] && result.0 == calls[0].result.0 && result.1 == calls[0].result.1
//@   ensures[unset-fails-cleanly] !old(f != nil && f.PushBlobChunkedResume_ != nil) ==>
//@             calls == [f.newError(ctx, "PushBlobChunkedResume", repo)] && result.0 == nil && result.1 == calls[0].result

//@ func (*Funcs).MountBlob
//@   ensures[set-delegates] old(f != nil && f.MountBlob_ != nil) ==>
//@             calls == [old(f.MountBlob_)(ctx, fromRepo, toRepo, digest)] && result.0 == calls[0].result.0 && result.1 == calls[0].result.1
//@   ensures[unset-fails-cleanly] !old(f != nil && f.MountBlob_ != nil) ==>
//@             calls == [f.newError(ctx, "MountBlob", toRepo)] && result.0 == zero(Descriptor) && result.1 == calls[0].result

//@ func (*Funcs).PushManifest
//@   ensures[set-delegates] old(f != nil && f.PushManifest_ != nil) ==>
//@             calls == [old(f.PushManifest_)(ctx, repo, tag, contents, mediaType)] && result.0 == calls[0].result.0 && result.1 == calls[0].result.1
//@   ensures[unset-fails-cleanly] !old(f != nil && f.PushManifest_ != nil) ==>
//@             calls == [f.newError(ctx, "PushManifest", repo)] && result.0 == zero(Descriptor) && result.1 == calls[0].result

//@ func (*Funcs).DeleteBlob
//@   ensures[set-delegates] old(f != nil && f.DeleteBlob_ != nil) ==>
//@             calls == [old(f.DeleteBlob_)(ctx, repo, digest)] && result == calls[0].result
//@   ensures[unset-fails-cleanly] !old(f != nil && f.DeleteBlob_ != nil) ==>
//@             calls == [f.newError(ctx, "DeleteBlob", repo)] && result == calls[0].result

//@ func (*Funcs).DeleteManifest
//@   ensures[set-delegates] old(f != nil && f.DeleteManifest_ != nil) ==>
//@             calls == [old(f.DeleteManifest_)(ctx, repo, digest)] && result == calls[0].result
//@   ensures[unset-fails-cleanly] !old(f != nil && f.DeleteManifest_ != nil) ==>
//@             calls == [f.newError(ctx, "DeleteManifest", repo)] && result == calls[0].result

//@ func (*Funcs).DeleteTag
//@   ensures[set-delegates] old(f != nil && f.DeleteTag_ != nil) ==>
//@             calls == [old(f.DeleteTag_)(ctx, repo, name)] && result == calls[0].result
//@   ensures[unset-fails-cleanly] !old(f != nil && f.DeleteTag_ != nil) ==>
//@             calls == [f.newError(ctx, "DeleteTag", repo)] && result == calls[0].result

//@ func (*Funcs).Repositories
//@   ensures[set-delegates] old(f != nil && f.Repositories_ != nil) ==>
//@             calls == [old(f.Repositories_)(ctx, startAfter)] && result == calls[0].result
//@   ensures[unset-fails-cleanly] !old(f != nil && f.Repositories_ != nil) ==>
//@             calls == [f.newError(ctx, "Repositories", "")] && result == ErrorSeq(calls[0].result)

//@ func (*Funcs).Tags
//@   ensures[set-delegates] old(f != nil && f.Tags_ != nil) ==>
//@             calls == [old(f.Tags_)(ctx, repo, startAfter)] && result == calls[0].result
//@   ensures[unset-fails-cleanly] !old(f != nil && f.Tags_ != nil) ==>
//@             calls == [f.newError(ctx, "Tags", repo)] && result == ErrorSeq(calls[0].result)

//@ func (*Funcs).Referrers
//@   ensures[set-delegates] old(f != nil && f.Referrers_ != nil) ==>
//@             calls == [old(f.Referrers_)(ctx, repo, digest, artifactType)] && result == calls[0].result
//@   ensures[unset-fails-cleanly] !old(f != nil && f.Referrers_ != nil) ==>
//@             calls == [f.newError(ctx, "Referrers", repo)] && result == ErrorSeq(calls[0].result)

// ErrorSeq is used as a spec function: the iterator methods of an unset table
// return ErrorSeq(e); what that iterator does is the contract of its closure.
//@ func ErrorSeq
//@   pure
//@   ensures result != nil

//@ func ErrorSeq$1
//@   ensures[yields-exactly-the-error] calls == [yield(_, err)]

// SliceSeq likewise: listings return SliceSeq(items). Its closure hands out
// elements of the slice only, never an error, and stops when told to.
//@ func SliceSeq
//@   pure
//@   ensures result != nil
// yielded() / yieldedAt(i) are the ghost count and sequence of the items a
// producer has handed to its consumer; stopped() says the consumer declined
// (or an error was delivered).
//@ func SliceSeq$1
//@   yield-requires(x, err) err == nil && exists i int :: 0 <= i && i < len(xs) && xs[i] == x
//@   loop 0 invariant yielded() == rangeindex + 1 && rangeindex + 1 <= len(xs) && !stopped()
//@   loop 0 invariant forall j int :: 0 <= j && j < yielded() ==> yieldedAt(j) == xs[j]
//@   ensures[in-order-nothing-skipped] yielded() <= len(xs) && forall j int :: 0 <= j && j < yielded() ==> yieldedAt(j) == xs[j]
//@   ensures[complete-unless-told-to-stop] stopped() || yielded() == len(xs)
//@   ensures[never-an-error] yieldedErr() == nil

// All collects exactly what the iterator offers, in order, up to the first
// error (offered() / offeredAt(i): ghost sequence of the items offered to
// the callback).
//@ func All
//@   log
//@   requires it != nil
//@   closure 1 invariant len(xs) == offered() && forall j int :: 0 <= j && j < len(xs) ==> xs[j] == offeredAt(j)
//@   ensures[collects-what-was-offered] len(result.0) == offered() && forall j int :: 0 <= j && j < len(result.0) ==> result.0[j] == offeredAt(j)

// ---------------------------------------------------------------------------
// C07: errors keep their identity, status and message across the wire.
//
// SP(status) and CP(code) are the two prefix printers as (unspecified) pure
// functions: the printers and the trimmer use the same ones, which is all the
// message lemma needs. Interface observers of errors are deterministic and
// effect-free; errAs(err, T) is the selector behind errors.As.

//@ iface-pure Error.Code, Error.Detail, HTTPError.StatusCode, HTTPError.Response, HTTPError.ResponseBody, error.Error

//@ invariant (*WireError) self != nil
//@ invariant (*httpError) self != nil
// A WireErrors value holds at least one error (it is built from a non-empty
// JSON error list, see makeError1; Error() indexes Errors[0]).
//@ invariant (*WireErrors) self != nil && len(self.Errors) >= 1

//@ func (*WireErrors).Unwrap
//@   modifies nothing
//@   loop 0 invariant len(errs) == len(e.Errors)
//@ func (*WireError).Detail
//@   modifies nothing
//@   ensures result == e.Detail_
//@ func (*httpError).StatusCode
//@   modifies nothing
//@   ensures result == e.statusCode

//@ pure func SP(status int) string
//@ pure func CP(code string) string

// The two prefix appenders, as functions on the byte buffer seen as a string.
// (trusted: strconv.AppendInt / http.StatusText / the rune loop are not modelled)
//@ func appendHTTPStatusPrefix
//@   trusted
//@   modifies nothing
//@   ensures string(result) == string(buf) + SP(statusCode)
//@ func appendErrorCodePrefix
//@   trusted
//@   modifies nothing
//@   ensures string(result) == string(buf) + CP(code)

//@ func (*WireError).Error
//@   requires e != nil
//@   modifies nothing
//@   ensures[code-prefix-then-message] result == CP(e.Code_) + (e.Message != "" ? ": " + e.Message : "")

//@ func (*WireError).Code
//@   requires e != nil
//@   modifies nothing
//@   ensures result == e.Code_

//@ func (*WireError).Is
//@   requires e != nil
//@   modifies nothing
//@   ensures[same-code] result == (errAs(err, Error) != nil && errAs(err, Error).Code() == e.Code_)

//@ func (*httpError).Error
//@   requires e != nil
//@   modifies nothing
//@   ensures[status-prefix-then-underlying] result == SP(e.statusCode) + (e.underlying != nil ? ": " + e.underlying.Error() : "")

//@ func (*httpError).Is
//@   requires e != nil
//@   modifies nothing
//@   ensures[range-invalid-only] result == (e.statusCode == 416 && err == ErrRangeInvalid)

//@ func NewError
//@   modifies nothing
//@   ensures result != nil && result.Code() == code

//@ func NewHTTPError
//@   modifies nothing
//@   ensures result != nil && result.StatusCode() == statusCode

// The trimmer removes exactly the two prefixes the printers add.
//@ func trimErrorCodePrefix
//@   requires err != nil
//@   modifies nothing
//@   ensures[trims-both-prefixes] result ==
//@     trimPrefix(trimPrefix(err.Error(), httpStatus != 0 ? SP(httpStatus) + ": " : ""),
//@                errorCode != "" ? CP(errorCode) + ": " : "")

// MarshalError: the code is the first Error in the chain (or UNKNOWN), the
// status is the specification's for that code, else the error's own HTTP
// status, else 500. It panics only if encoding/json rejects the value, i.e.
// when the error's detail is not valid JSON.
//@ pure func wireCode(err error) string =
//@   (errAs(err, Error) != nil && errAs(err, Error).Code() != "") ? errAs(err, Error).Code() : "UNKNOWN"
// What errors.Is(err, ErrRangeInvalid) answers for the error types of this
// package: true if the chain carries the code RANGE_INVALID ((*WireError).Is,
// same-code, proved above) or an HTTP-status wrapper with status 416
// ((*httpError).Is, range-invalid-only, proved above). On the client side an
// answer of status 416 is rebuilt as such a wrapper, so the answer survives a
// hop exactly when the error goes out with status 416.
//@ pure func saysRangeInvalid(err error) bool =
//@   wireCode(err) == "RANGE_INVALID" || (errAs(err, HTTPError) != nil && errAs(err, HTTPError).StatusCode() == 416)
//@ func MarshalError
//@   requires err != nil
//@   modifies nothing
//@   panics when err != nil
//@   ensures[an-error-that-says-range-invalid-is-sent-as-416] saysRangeInvalid(err) ==> result.1 == 416
// what is put on the wire (e, marshalled by encoding/json): the code, and the
// error's own detail exactly as it is (any JSON value, not only objects)
//@   ensures[code-and-detail-go-out-as-they-are] e.Code_ == wireCode(err) &&
//@     (errAs(err, Error) != nil ==> e.Detail_ == errAs(err, Error).Detail()) && (errAs(err, Error) == nil ==> len(e.Detail_) == 0)
//@   ensures[status-agrees-with-code] result.1 == specStatus(wireCode(err), errAs(err, HTTPError) != nil ? errAs(err, HTTPError).StatusCode() : 500)

// specStatus is the table of the distribution specification (written from the
// specification, not from the code; the code's table is compared with it by
// the structural obligation error-table).
//@ pure func specStatus(code string, fallback int) int =
//@   (code == "BLOB_UNKNOWN" || code == "BLOB_UPLOAD_UNKNOWN" || code == "MANIFEST_BLOB_UNKNOWN" ||
//@    code == "MANIFEST_UNKNOWN" || code == "NAME_UNKNOWN") ? 404 :
//@   ((code == "DIGEST_INVALID" || code == "MANIFEST_INVALID" || code == "NAME_INVALID" ||
//@     code == "SIZE_INVALID" || code == "UNSUPPORTED") ? 400 :
//@   ((code == "BLOB_UPLOAD_INVALID" || code == "RANGE_INVALID") ? 416 :
//@   (code == "UNAUTHORIZED" ? 401 : (code == "DENIED" ? 403 : (code == "TOOMANYREQUESTS" ? 429 : fallback)))))

//@ func WriteError
//@   requires w != nil && err != nil
//@   modifies nothing
//@   ensures[json-error-with-agreeing-status] header("Content-Type") == "application/json" &&
//@     status() == specStatus(wireCode(err), errAs(err, HTTPError) != nil ? errAs(err, HTTPError).StatusCode() : 500)

// The message reaches a fixed point after the first hop: what the client
// prints for the error it rebuilt (status prefix, code prefix, message) is
// trimmed back to the same message by the next server, for every non-empty
// message, whatever the two prefixes are.
//@ lemma hopMessageFixedPoint(sp string, cp string, m string) =
//@   m != "" ==> trimPrefix(trimPrefix(sp + ": " + cp + ": " + m, sp + ": "), cp + ": ") == m
// With an empty message the client prints "SP: CP" and the next hop keeps CP
// as the message: the fixed point is reached one hop later (stated, not a defect
// of identity or status).
//@ lemma hopEmptyMessageSecondHop(sp string, cp string) =
//@   trimPrefix(trimPrefix(sp + ": " + cp + ": " + cp, sp + ": "), cp + ": ") == cp
