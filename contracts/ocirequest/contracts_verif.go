//go:build verif

// Contracts for package internal/ocirequest, checked by /verif/govc. Comments only.

package ocirequest

// ---------------------------------------------------------------------------
// C06 / C17 / C03: the router.
//
// validRequest is the sentence "no request causes a backend call with a
// syntactically invalid repository name, tag or digest", stated on the
// parsed request with the very predicates of package ociref (in
// specifications an uncontracted function means what its body computes, so
// IsValidRepository here is the same regular-expression match the router
// performs, and IsValidTag is ociref.checkTag(s) == nil).

//@ pure func hasRepo(k Kind) bool = k != ReqPing && k != ReqCatalogList
//@ pure func needsDigest(k Kind) bool =
//@   k == ReqBlobGet || k == ReqBlobHead || k == ReqBlobDelete || k == ReqBlobUploadBlob ||
//@   k == ReqBlobMount || k == ReqBlobCompleteUpload || k == ReqReferrersList
//@ pure func isManifestKind(k Kind) bool =
//@   k == ReqManifestGet || k == ReqManifestHead || k == ReqManifestPut || k == ReqManifestDelete
//@ pure func isUploadKind(k Kind) bool =
//@   k == ReqBlobUploadInfo || k == ReqBlobUploadChunk || k == ReqBlobCompleteUpload

//@ pure func validRequest(r *Request) bool =
//@   r != nil && 0 <= r.Kind && r.Kind <= ReqCatalogList &&
//@   (hasRepo(r.Kind) ==> ociref.IsValidRepository(r.Repo)) &&
//@   (r.Digest != "" ==> ociref.IsValidDigest(r.Digest)) &&
//@   (r.Tag != "" ==> ociref.IsValidTag(r.Tag)) &&
//@   (needsDigest(r.Kind) ==> r.Digest != "") &&
//@   (r.Kind == ReqBlobMount ==> ociref.IsValidRepository(r.FromRepo)) &&
//@   (isManifestKind(r.Kind) ==> (r.Tag != "") != (r.Digest != "")) &&
//@   (!isManifestKind(r.Kind) ==> r.Tag == "")

//@ invariant (*Request) self != nil
//@ func parse
//@   modifies ocirequest.Request, Request.ListN, Request.ListLast
//@   requires u != nil
//@   ensures[valid-names-only] result.1 == nil ==> validRequest(result.0)
//@   ensures[error-means-nil] result.1 != nil ==> result.0 == nil
// C03: the fields parse extracts reconstruct the path it was given (the
// server-side half of "one Request value is rendered to a URL by the client
// and parsed back by the server"); the repository is everything between
// "/v2/" and the routing word, not a shorter prefix.
//@   ensures[blob-path-reconstructs] result.1 == nil && (result.0.Kind == ReqBlobGet || result.0.Kind == ReqBlobHead || result.0.Kind == ReqBlobDelete) ==>
//@     u.Path == "/v2/" + result.0.Repo + "/blobs/" + result.0.Digest
//@   ensures[upload-path-reconstructs] result.1 == nil && (result.0.Kind == ReqBlobUploadInfo || result.0.Kind == ReqBlobUploadChunk || result.0.Kind == ReqBlobCompleteUpload) ==>
//@     u.Path == "/v2/" + result.0.Repo + "/blobs/uploads/" + last
//@   ensures[manifest-path-reconstructs] result.1 == nil && (result.0.Kind == ReqManifestGet || result.0.Kind == ReqManifestHead || result.0.Kind == ReqManifestPut || result.0.Kind == ReqManifestDelete) ==>
//@     u.Path == "/v2/" + result.0.Repo + "/manifests/" + result.0.Digest + result.0.Tag
//@   ensures[start-upload-path-reconstructs] result.1 == nil && (result.0.Kind == ReqBlobStartUpload || result.0.Kind == ReqBlobUploadBlob || result.0.Kind == ReqBlobMount) ==>
//@     u.Path == "/v2/" + result.0.Repo + "/blobs/uploads/" || u.Path == "/v2/" + result.0.Repo + "/blobs/uploads"

//@ func Parse
//@   modifies ocirequest.Request, Request.ListN, Request.ListLast
//@   requires u != nil
//@   ensures[valid-names-only] result.1 == nil ==> validRequest(result.0)
//@   ensures[error-means-nil] result.1 != nil ==> result.0 == nil
//@   ensures[error-is-parse-error] result.1 != nil ==> typeIs(result.1, "*ParseError")

//@ func cutLast
//@   ensures[found] result.2 ==> s == result.0 + sep + result.1
//@   ensures[not-found] !result.2 ==> result.0 == "" && result.1 == s

//@ func setListQueryParams
//@   requires rreq != nil
//@   modifies Request.ListN, Request.ListLast

// ParseError always wraps a non-nil error (it is only built by Parse).
//@ invariant (*ParseError) self != nil && self.Err != nil

// MustConstruct panics when the request cannot be rendered as a URL that
// parses back; callers must hand it a well-formed request. That a
// well-formed request always renders to such a URL is the codec lemma of
// C03 and is ASSUMED here (trusted contract, body not verified).
//@ func (*Request).MustConstruct
//@   trusted
//@   modifies nothing
//@   requires req != nil && (hasRepo(req.Kind) ==> ociref.IsValidRepository(req.Repo)) &&
//@            (isUploadKind(req.Kind) ==> req.UploadID != "")

// Construct renders the request and checks it by parsing it back; it panics
// only for a kind outside the enumeration.
//@ func (*Request).construct
//@   requires req != nil && 0 <= req.Kind && req.Kind <= ReqCatalogList
//@   modifies nothing
//@ func (*Request).Construct
//@   requires req != nil && 0 <= req.Kind && req.Kind <= ReqCatalogList
//@   modifies nothing
//@   ensures[error-means-empty] result.2 != nil ==> result.0 == "" && result.1 == ""

// ---------------------------------------------------------------------------
// C04 / C01: the Content-Range codec. RangeString writes the half-open Go
// range [start, end) in the inclusive wire form; ParseRange reads it back.
// The round trip is a postcondition of RangeString over the real body of
// ParseRange (executed symbolically as a specification function; itoa/atoi
// are the decimal printer and parser as mutually inverse uninterpreted
// functions).
//@ func RangeString
//@   pure
//@   ensures[round-trip] 0 <= start && start <= end ==> ParseRange(result).0 == start && ParseRange(result).1 == end && ParseRange(result).2
