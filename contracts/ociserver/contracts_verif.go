//go:build verif

// Contracts for package ociserver, checked by /verif/govc. Comments only.

package ociserver

// ---------------------------------------------------------------------------
// C06: the server is total and protocol-conformant.
//
// * No-panic: the zero-annotation safety sweep over every function.
// * "No request causes a backend call with a syntactically invalid
//   repository name, tag or digest": every method of the backend is a sink
//   whose precondition is the validity of its name arguments (the ociref
//   predicates themselves); handlers are entered only with a request that
//   satisfies ocirequest.validRequest, which ocirequest.Parse is proved to
//   establish, and v2 dispatches through the constant table `handlers`
//   (read off the package initialiser), one path per entry.
// * Readers and writers obtained from the backend are must-close values
//   (O-OWN): on every path they are closed before the handler returns.
// * Success headers: the ghost response records header sets, the status and
//   body writes; header("X"), status(), bodyLen() read it.

//@ must-close ociregistry.BlobReader, ociregistry.BlobWriter
//@ invariant (*registry) self != nil && self.backend != nil && self.opts.WriteError != nil
//@ immutable registry.backend, registry.opts

//@ pure func vRepo(s string) bool = ociref.IsValidRepository(s)
//@ pure func vDigest(s string) bool = ociref.IsValidDigest(s)
//@ pure func vTag(s string) bool = ociref.IsValidTag(s)

// What net/http guarantees of a server-side request.
//@ pure func wfHTTP(resp http.ResponseWriter, req *http.Request) bool =
//@   resp != nil && req != nil && req.URL != nil && req.Body != nil

//@ sink (*registry).backend GetBlob(ctx, repo, digest) requires vRepo(repo) && vDigest(string(digest))
//@ sink (*registry).backend GetBlobRange(ctx, repo, digest, o0, o1) requires vRepo(repo) && vDigest(string(digest))
//@ sink (*registry).backend GetManifest(ctx, repo, digest) requires vRepo(repo) && vDigest(string(digest))
//@ sink (*registry).backend GetTag(ctx, repo, tag) requires vRepo(repo) && vTag(tag)
//@ sink (*registry).backend ResolveBlob(ctx, repo, digest) requires vRepo(repo) && vDigest(string(digest))
//@ sink (*registry).backend ResolveManifest(ctx, repo, digest) requires vRepo(repo) && vDigest(string(digest))
//@ sink (*registry).backend ResolveTag(ctx, repo, tag) requires vRepo(repo) && vTag(tag)
//@ sink (*registry).backend PushBlob(ctx, repo, desc, rd) requires vRepo(repo) && vDigest(string(desc.Digest))
//@ sink (*registry).backend PushBlobChunked(ctx, repo, chunkSize) requires vRepo(repo)
//@ sink (*registry).backend PushBlobChunkedResume(ctx, repo, id, offset, chunkSize) requires vRepo(repo)
//@ sink (*registry).backend MountBlob(ctx, fromRepo, toRepo, digest) requires vRepo(fromRepo) && vRepo(toRepo) && vDigest(string(digest))
//@ sink (*registry).backend PushManifest(ctx, repo, tag, contents, mediaType) requires vRepo(repo) && (tag != "" ==> vTag(tag))
//@ sink (*registry).backend DeleteBlob(ctx, repo, digest) requires vRepo(repo) && vDigest(string(digest))
//@ sink (*registry).backend DeleteManifest(ctx, repo, digest) requires vRepo(repo) && vDigest(string(digest))
//@ sink (*registry).backend DeleteTag(ctx, repo, tag) requires vRepo(repo) && vTag(tag)
//@ sink (*registry).backend Tags(ctx, repo, startAfter) requires vRepo(repo)
//@ sink (*registry).backend Referrers(ctx, repo, digest, artifactType) requires vRepo(repo) && vDigest(string(digest))
//@ sink (*registry).backend Repositories(ctx, startAfter) requires true

//@ func (*registry).handlePing
//@   private rreq, req
//@   requires wfHTTP(resp, req) && ocirequest.validRequest(rreq) && rreq.Kind == ocirequest.ReqPing
//@   ensures[no-backend-call] calls == [] && result == nil
//@   ensures[version-header] header("Docker-Distribution-API-Version") == "registry/2.0"

//@ func (*registry).handleBlobHead
//@   private rreq, req
//@   requires wfHTTP(resp, req) && ocirequest.validRequest(rreq) && rreq.Kind == ocirequest.ReqBlobHead
//@   ensures[one-backend-call] calls == [old(r.backend).ResolveBlob(ctx, rreq.Repo, ociregistry.Digest(rreq.Digest))]
//@   ensures[error-relayed] calls[0].result.1 != nil ==> result == calls[0].result.1
//@   ensures[headers] calls[0].result.1 == nil ==> result == nil && status() == 200 &&
//@   header("Content-Length") == itoa(calls[0].result.0.Size) &&
//@   header("Docker-Content-Digest") == string(calls[0].result.0.Digest)

//@ func (*registry).handleBlobDelete
//@   private rreq, req
//@   requires wfHTTP(resp, req) && ocirequest.validRequest(rreq) && rreq.Kind == ocirequest.ReqBlobDelete
//@   ensures[one-backend-call] calls == [old(r.backend).DeleteBlob(ctx, rreq.Repo, ociregistry.Digest(rreq.Digest))]
//@   ensures[result] result == calls[0].result
//@   ensures[status] result == nil ==> status() == 202

//@ func (*registry).handleManifestDelete
//@   private rreq, req
//@   requires wfHTTP(resp, req) && ocirequest.validRequest(rreq) && rreq.Kind == ocirequest.ReqManifestDelete
//@   ensures[by-tag] rreq.Tag != "" ==> calls == [old(r.backend).DeleteTag(ctx, rreq.Repo, rreq.Tag)]
//@   ensures[by-digest] rreq.Tag == "" ==> calls == [old(r.backend).DeleteManifest(ctx, rreq.Repo, ociregistry.Digest(rreq.Digest))]
//@   ensures[result] result == calls[0].result
//@   ensures[status] result == nil ==> status() == 202

//@ func (*registry).handleManifestHead
//@   private rreq, req
//@   requires wfHTTP(resp, req) && ocirequest.validRequest(rreq) && rreq.Kind == ocirequest.ReqManifestHead
//@   ensures[by-tag] rreq.Tag != "" ==> calls == [old(r.backend).ResolveTag(ctx, rreq.Repo, rreq.Tag)]
//@   ensures[by-digest] rreq.Tag == "" ==> calls == [old(r.backend).ResolveManifest(ctx, rreq.Repo, ociregistry.Digest(rreq.Digest))]
//@   ensures[error-relayed] calls[0].result.1 != nil ==> result == calls[0].result.1
//@   ensures[headers] calls[0].result.1 == nil ==> result == nil && status() == 200 &&
//@   header("Content-Length") == itoa(calls[0].result.0.Size) &&
//@   header("Content-Type") == calls[0].result.0.MediaType &&
//@   (rreq.Tag != "" ==> header("Docker-Content-Digest") == string(calls[0].result.0.Digest))

//@ func (*registry).handleManifestGet
//@   private rreq, req
//@   requires wfHTTP(resp, req) && ocirequest.validRequest(rreq) && rreq.Kind == ocirequest.ReqManifestGet
//@   ensures[headers] result == nil ==> status() == 200 && bodyCopied()

//@ func (*registry).handleBlobGet
//@   private rreq, req
//@   requires wfHTTP(resp, req) && ocirequest.validRequest(rreq) && rreq.Kind == ocirequest.ReqBlobGet
//@   ensures[whole-blob] result == nil && status() == 200 ==>
//@   header("Docker-Content-Digest") == rreq.Digest && header("Content-Length") == itoa(desc.Size) && bodyCopied()
//@   ensures[range-within-blob] result == nil && status() == 206 ==>
//@   0 <= ranges[0].start && ranges[0].start <= rng.end && rng.end <= desc.Size &&
//@   rng.end == ((ranges[0].end == -1 || ranges[0].end > desc.Size) ? desc.Size : ranges[0].end)
//@   ensures[a-range-inside-the-blob-is-never-refused] len(ranges) == 1 && ncallsOf("withHTTPCode") >= 1 ==> rng.start > desc.Size || rng.end < rng.start
//@   ensures[range-headers] result == nil && status() == 206 ==>
//@   header("Content-Length") == itoa(rng.end - ranges[0].start) &&
//@   header("Content-Range") == "bytes " + itoa(ranges[0].start) + "-" + itoa(rng.end - 1) + "/" + itoa(desc.Size) &&
//@   header("Docker-Content-Digest") == rreq.Digest && bodyCopied()

//@ func (*registry).handleBlobMount
//@   private rreq, req
//@   requires wfHTTP(resp, req) && ocirequest.validRequest(rreq) && rreq.Kind == ocirequest.ReqBlobMount
//@   ensures[mounts-from-to] calls[0].result.1 != nil || r.opts.LocationsForDescriptor != nil ||
//@     calls == [old(r.backend).MountBlob(ctx, rreq.FromRepo, rreq.Repo, ociregistry.Digest(rreq.Digest))]
//@   ensures[status] result == nil ==> status() == 201 && header("Docker-Content-Digest") == string(calls[0].result.0.Digest)

//@ func (*registry).handleBlobStartUpload
//@   private rreq, req
//@   requires wfHTTP(resp, req) && ocirequest.validRequest(rreq) &&
//@            (rreq.Kind == ocirequest.ReqBlobStartUpload || rreq.Kind == ocirequest.ReqBlobUploadBlob)
//@   ensures[status] result == nil ==> status() == 202 && header("Range") == "0-0"

//@ func (*registry).handleBlobUploadBlob
//@   private rreq, req
//@   requires wfHTTP(resp, req) && ocirequest.validRequest(rreq) && rreq.Kind == ocirequest.ReqBlobUploadBlob
//@   ensures[status] result == nil && !r.opts.DisableSinglePostUpload ==> status() == 201

//@ func (*registry).handleBlobUploadInfo
//@   private rreq, req
//@   requires wfHTTP(resp, req) && ocirequest.validRequest(rreq) && rreq.Kind == ocirequest.ReqBlobUploadInfo
//@   ensures[status] result == nil ==> status() == 204

// C04: a chunk (PATCH) and the closing PUT hand the backend exactly the
// session, the offset and the length the request names, relay the body into
// the writer they get, and let a refusal of that write reach the client with
// its error code intact (so range-invalid is answered with 416).
//@ func (*registry).handleBlobUploadChunk
//@   private rreq, req
//@   requires wfHTTP(resp, req) && ocirequest.validRequest(rreq) && rreq.Kind == ocirequest.ReqBlobUploadChunk
//@   ensures[status] result == nil ==> status() == 202
//@   ensures[forwards-offset-and-body] result == nil ==>
//@     calls == [old(r.backend).PushBlobChunkedResume(ctx, rreq.Repo, rreq.UploadID, start, int(end - start)), w.Close(), w.ID(), w.Size()] &&
//@     copied(w, req.Body)
//@   ensures[reports-the-new-size] result == nil ==> ncalls() == 4 && header("Range") == ocirequest.RangeString(0, calls[3].result)
//@   ensures[refused-write-reaches-the-client] copyErr() != nil ==> result != nil &&
//@     (errIs(copyErr(), ociregistry.ErrRangeInvalid) ==> errIs(result, ociregistry.ErrRangeInvalid))
//@   ensures[never-cancels-the-upload] ncallsOf("Cancel") == 0

//@ func (*registry).handleBlobCompleteUpload
//@   private rreq, req
//@   requires wfHTTP(resp, req) && ocirequest.validRequest(rreq) && rreq.Kind == ocirequest.ReqBlobCompleteUpload
//@   ensures[status] result == nil ==> status() == 201
//@   ensures[commits-what-was-asked] result == nil && r.opts.LocationsForDescriptor == nil ==>
//@     calls == [old(r.backend).PushBlobChunkedResume(ctx, rreq.Repo, rreq.UploadID, start, int(end - start)), w.Commit(ociregistry.Digest(rreq.Digest)), w.Close()] &&
//@     copied(w, req.Body)
//@   ensures[refused-write-reaches-the-client] copyErr() != nil ==> result != nil &&
//@     (errIs(copyErr(), ociregistry.ErrRangeInvalid) ==> errIs(result, ociregistry.ErrRangeInvalid))
//@   ensures[failed-commit-reported] calls == [old(r.backend).PushBlobChunkedResume(_, _, _, _, _), w.Commit(_), w.Close()] &&
//@     calls[1].result.1 != nil ==> result == calls[1].result.1
// (a refused or failed request must leave the upload as it was, so that it can
// still be completed: the server closes the writer, it never cancels the
// upload on the client's behalf)
//@   ensures[never-cancels-the-upload] ncallsOf("Cancel") == 0

//@ func (*registry).handleManifestPut
//@   private rreq, req
//@   requires wfHTTP(resp, req) && ocirequest.validRequest(rreq) && rreq.Kind == ocirequest.ReqManifestPut
//@   ensures[status] result == nil ==> status() == 201
// (C03: the backend is handed what the request carries, as it is: the parsed
// repository and tag, the whole body, and the Content-Type header verbatim -
// not a normalised or parameter-stripped form of it; only an absent header
// reads as application/octet-stream)
//@   ensures[pushes-what-the-request-carries] result == nil ==> ncallsOf("PushManifest") == 1 &&
//@     calls[lastOf("PushManifest")].arg.1 == rreq.Repo && calls[lastOf("PushManifest")].arg.2 == rreq.Tag &&
//@     string(calls[lastOf("PushManifest")].arg.3) == old(unread(req.Body)) &&
//@     calls[lastOf("PushManifest")].arg.4 == (old(hdr(req.Header, "Content-Type")) == "" ? "application/octet-stream" : old(hdr(req.Header, "Content-Type")))

//@ func (*registry).handleTagsList
//@   private rreq, req
//@   requires wfHTTP(resp, req) && ocirequest.validRequest(rreq) && rreq.Kind == ocirequest.ReqTagsList
//@   ensures[length-matches-body] result == nil ==> status() == 200 && header("Content-Length") == itoa(bodyLen())

//@ func (*registry).handleReferrersList
//@   private rreq, req
//@   requires wfHTTP(resp, req) && ocirequest.validRequest(rreq) && rreq.Kind == ocirequest.ReqReferrersList
//@   ensures[length-matches-body] result == nil ==> status() == 200 && header("Content-Length") == itoa(bodyLen())

//@ func (*registry).handleCatalogList
//@   private rreq, req
//@   requires wfHTTP(resp, req) && ocirequest.validRequest(rreq) && rreq.Kind == ocirequest.ReqCatalogList
//@   ensures[status] result == nil ==> status() == 200


//@ func (*registry).v2
//@   private req
//@   requires wfHTTP(resp, req)

//@ func (*registry).ServeHTTP
//@   private req
//@   requires wfHTTP(resp, req)

//@ func (*registry).setLocationHeader
//@   inline
//@   requires resp != nil
//@   ensures[headers] result == nil ==> header("Docker-Content-Digest") == string(desc.Digest)
//@   ensures[default-location] result == nil && r.opts.LocationsForDescriptor == nil ==> header("Location") == defaultLocation

// parseRange: every range it returns starts at a non-negative offset and is
// either open-ended (-1) or ends after its start.
//@ pure func wfRange(r httpRange) bool = 0 <= r.start && (r.end == -1 || r.end > r.start)
//@ func parseRange
//@   ensures[ranges-well-formed] result.1 == nil ==> forall k int :: 0 <= k && k < len(result.0) ==> wfRange(result.0[k])
//@   ensures[error-means-nil] result.1 != nil ==> len(result.0) == 0
//@   loop 0 invariant forall k int :: 0 <= k && k < len(ranges) ==> wfRange(ranges[k])

// C05: one page of a listing. offered()/offeredAt(i) are the items the
// backend's iterator offers. The page is a prefix of what was offered, in
// order; it is cut short only at the requested page size, and then (unless
// links are switched off) the Link header names the last item of the page.
//@ func (*registry).nextListResults
//@   private rreq, req
//@   requires req != nil && req.URL != nil && rreq != nil && itemsIter != nil
//@   closure 1 invariant truncated ==> len(items) >= 1
//@   closure 1 invariant len(items) <= offered() && forall j int :: 0 <= j && j < len(items) ==> items[j] == offeredAt(j)
//@   closure 1 invariant rreq.ListN > 0 ==> len(items) <= rreq.ListN
//@   closure 1 invariant !truncated ==> len(items) == offered()
//@   closure 1 invariant truncated ==> len(items) == rreq.ListN && offered() > len(items)
//@   ensures[a-prefix-of-the-listing-in-order] result.2 == nil ==> len(result.0) <= offered() &&
//@     forall j int :: 0 <= j && j < len(result.0) ==> result.0[j] == offeredAt(j)
//@   ensures[never-more-than-asked] result.2 == nil && rreq.ListN > 0 ==> len(result.0) <= rreq.ListN
//@   ensures[short-only-at-the-page-size] result.2 == nil && len(result.0) < offered() ==> rreq.ListN > 0 && len(result.0) == rreq.ListN
//@   ensures[cut-page-carries-a-link-to-its-last-item] result.2 == nil && len(result.0) < offered() && !r.opts.OmitLinkHeaderFromResponses ==>
//@     calls == [itemsIter(_), r.makeNextLink(req, result.0[len(result.0) - 1])] && result.1 == calls[1].result
//@   ensures[complete-page-carries-no-link] result.2 == nil && len(result.0) == offered() ==> result.1 == ""
//@   ensures[iterator-error-is-the-answer] _err != nil ==> result.2 == _err

//@ func (*registry).makeNextLink
//@   log
//@   requires req != nil && req.URL != nil

// chunkRange: the offset and length announced by the request. With a
// Content-Range header they are what the header says (and must agree with
// Content-Length); without one the offset is 0 and the length Content-Length.
//@ func chunkRange
//@   requires req != nil
//@   modifies nothing
//@   ensures[range-from-the-header] result.2 == nil && s != "" ==> ocirequest.ParseRange(s).2 &&
//@     result.0 == ocirequest.ParseRange(s).0 && result.1 == ocirequest.ParseRange(s).1 &&
//@     (req.ContentLength >= 0 ==> result.1 - result.0 == req.ContentLength)
//@   ensures[no-header-means-offset-zero] result.2 == nil && s == "" ==> result.0 == 0 &&
//@     (req.ContentLength >= 0 ==> result.1 == req.ContentLength) && (req.ContentLength < 0 ==> result.1 == 0)
//@   ensures[bad-header-refused] s != "" && !ocirequest.ParseRange(s).2 ==> result.2 != nil

// Assumed interface contract: an upload has a non-empty identifier.
//@ iface-ensures BlobWriter.ID() result != ""

//@ func (*registry).locationForUploadID
//@   modifies nothing
//@   requires vRepo(repo) && uploadID != ""

// The default error writer installed by New.
//@ func New$1
//@   requires w != nil && err != nil

//@ func New
//@   requires backend != nil
//@   ensures result != nil

// (logged so that handlers can state when they refuse with an explicit status)
//@ func withHTTPCode
//@   log
//@   modifies nothing
//@   ensures result != nil
