//go:build verif

// Contracts for package ociunify, checked by /verif/govc. Comments only.

package ociunify

// ---------------------------------------------------------------------------
// C05 / C15: the merged listing. xs is what the returned iterator yields (by
// SliceSeq when neither member failed, else by the closure below, which
// appends the error). cmp is a pure total preorder (as slices.SortFunc needs).
//
// The merged list is strictly ascending under cmp (so duplicate-free), holds
// nothing that neither member listed, and loses nothing either member listed.

//@ func mergeIter
//@   pure-param cmp
//@   requires it0 != nil && it1 != nil && cmp != nil
//@   ensures result != nil
//@   ensures[strictly-ascending] forall i, j int :: 0 <= i && i < j && j < len(xs) ==> cmp(xs[i], xs[j]) <= 0 && cmp(xs[i], xs[j]) != 0
//@   ensures[nothing-invented] forall i int :: 0 <= i && i < len(xs) ==>
//@     (exists k int :: 0 <= k && k < len(xs0) && xs0[k] == xs[i]) || (exists k int :: 0 <= k && k < len(xs1) && xs1[k] == xs[i])
//@   ensures[nothing-lost-from-the-first] !(errIs(calls[0].result.1, ociregistry.ErrNameUnknown) && errIs(calls[1].result.1, ociregistry.ErrNameUnknown)) ==> forall k int :: 0 <= k && k < len(xs0) ==> exists i int :: 0 <= i && i < len(xs) && cmp(xs[i], xs0[k]) == 0
//@   ensures[nothing-lost-from-the-second] !(errIs(calls[0].result.1, ociregistry.ErrNameUnknown) && errIs(calls[1].result.1, ociregistry.ErrNameUnknown)) ==> forall k int :: 0 <= k && k < len(xs1) ==> exists i int :: 0 <= i && i < len(xs) && cmp(xs[i], xs1[k]) == 0
//@   ensures[clean-listing-is-that-slice] err == nil && !(err0 != nil && err1 != nil) ==> result == ociregistry.SliceSeq(xs)
//@   ensures[both-members-consulted] calls == [ociregistry.All(it0), ociregistry.All(it1)] && xs0 == calls[0].result.0 && xs1 == calls[1].result.0
//@   ensures[unknown-to-both-is-unknown] errIs(calls[0].result.1, ociregistry.ErrNameUnknown) && errIs(calls[1].result.1, ociregistry.ErrNameUnknown) ==>
//@     result == ociregistry.ErrorSeq(calls[0].result.1)
//@   ensures[unknown-to-one-member-is-forgiven] (calls[0].result.1 == nil && (calls[1].result.1 == nil || errIs(calls[1].result.1, ociregistry.ErrNameUnknown))) ||
//@     (calls[1].result.1 == nil && errIs(calls[0].result.1, ociregistry.ErrNameUnknown)) ==> result == ociregistry.SliceSeq(xs)
//@   ensures[any-other-failure-ends-the-listing-with-it] calls[0].result.1 != nil && !errIs(calls[0].result.1, ociregistry.ErrNameUnknown) ==> err == calls[0].result.1
//@   ensures[any-other-failure-of-the-second-too] (calls[0].result.1 == nil || errIs(calls[0].result.1, ociregistry.ErrNameUnknown)) &&
//@     calls[1].result.1 != nil && !errIs(calls[1].result.1, ociregistry.ErrNameUnknown) ==> err == calls[1].result.1

//@ func mergeIter$1
//@   requires cmp != nil

// The closure used when a member failed: the merged items in order, then the error.
//@ func mergeIter$2
//@   requires err != nil
//@   loop 0 invariant yielded() == rangeindex + 1 && rangeindex + 1 <= len(xs) && !stopped() && yieldedErr() == nil
//@   loop 0 invariant forall j int :: 0 <= j && j < yielded() ==> yieldedAt(j) == xs[j]
//@   ensures[in-order-nothing-skipped] yielded() <= len(xs) && forall j int :: 0 <= j && j < yielded() ==> yieldedAt(j) == xs[j]
//@   ensures[error-only-after-every-item] yieldedErr() != nil ==> yieldedErr() == err && yielded() == len(xs)
//@   ensures[never-silently-short] stopped() && (yieldedErr() == nil ==> yielded() <= len(xs))

// ---------------------------------------------------------------------------
// C15: the unified registry.
//
// both runs its function argument on the two members concurrently (two
// goroutines and two channels: outside the verifier's subset). Its contract is
// trusted: f is called exactly twice, as f(u.r0, 0) and f(u.r1, 1), and the
// two results are returned in that order. The checks below run the two calls
// one after the other; the calls act on different members.
//@ func both
//@   trusted
//@   invokes f(u.r0, 0); f(u.r1, 1)

// bothResults: success only if both succeeded (then the first result).
//@ func bothResults
//@   modifies nothing
//@   ensures[success-needs-both] result.error() == nil ==> r0.error() == nil && r1.error() == nil && result == r0
//@   ensures[both-ok-is-ok] r0.error() == nil && r1.error() == nil ==> result == r0
//@   ensures[failure-wraps-the-member-errors] r0.error() != nil ==> errIs(result.error(), r0.error())
//@   ensures[failure-wraps-the-second-too] r1.error() != nil ==> errIs(result.error(), r1.error())

// A unifier has two members (New's arguments; a nil member is a misuse).
//@ invariant (unifier) self.r0 != nil && self.r1 != nil
//@ func New
//@   requires r0 != nil && r1 != nil
//@   ensures result != nil

// Writes: applied to both members with the caller's arguments; success is
// reported only if both succeeded.
//@ func (unifier).PushManifest
//@   ensures[applied-to-both-members] calls == [u.r0.PushManifest(ctx, repo, tag, contents, mediaType), u.r1.PushManifest(ctx, repo, tag, contents, mediaType)]
//@   ensures[success-only-if-both-succeeded] result.1 == nil ==> calls[0].result.1 == nil && calls[1].result.1 == nil && result.0 == calls[0].result.0
//@   ensures[both-succeeded-is-success] calls[0].result.1 == nil && calls[1].result.1 == nil ==> result.1 == nil
//@ func (unifier).MountBlob
//@   ensures[applied-to-both-members] calls == [u.r0.MountBlob(ctx, fromRepo, toRepo, digest), u.r1.MountBlob(ctx, fromRepo, toRepo, digest)]
//@   ensures[success-only-if-both-succeeded] result.1 == nil ==> calls[0].result.1 == nil && calls[1].result.1 == nil && result.0 == calls[0].result.0
//@   ensures[both-succeeded-is-success] calls[0].result.1 == nil && calls[1].result.1 == nil ==> result.1 == nil
//@ func (unifier).DeleteBlob
//@   ensures[applied-to-both-members] calls == [u.r0.DeleteBlob(ctx, repo, digest), u.r1.DeleteBlob(ctx, repo, digest)]
//@   ensures[success-iff-both-succeeded] (result == nil) == (calls[0].result == nil && calls[1].result == nil)
//@ func (unifier).DeleteManifest
//@   ensures[applied-to-both-members] calls == [u.r0.DeleteManifest(ctx, repo, digest), u.r1.DeleteManifest(ctx, repo, digest)]
//@   ensures[success-iff-both-succeeded] (result == nil) == (calls[0].result == nil && calls[1].result == nil)
//@ func (unifier).DeleteTag
//@   ensures[applied-to-both-members] calls == [u.r0.DeleteTag(ctx, repo, name), u.r1.DeleteTag(ctx, repo, name)]
//@   ensures[success-iff-both-succeeded] (result == nil) == (calls[0].result == nil && calls[1].result == nil)

// PushBlob feeds both members through pipes from three goroutines (outside
// the subset); r0 and r1 are the two results received from the members.
//@ func (unifier).PushBlob
//@   ensures[success-only-if-both-results-succeeded] result.1 == nil ==> r0.err == nil && r1.err == nil

// Tag reads: both members are asked; agreement (or a single holder) answers,
// disagreement is an error, never a silent choice.
//@ func (unifier).ResolveTag
//@   ensures[asks-both-members] calls == [u.r0.ResolveTag(ctx, repo, tagName), u.r1.ResolveTag(ctx, repo, tagName)]
//@   ensures[agreement-answers] calls[0].result.1 == nil && calls[1].result.1 == nil && calls[0].result.0.Digest == calls[1].result.0.Digest ==>
//@     result.1 == nil && result.0 == calls[0].result.0
//@   ensures[disagreement-is-an-error] calls[0].result.1 == nil && calls[1].result.1 == nil && calls[0].result.0.Digest != calls[1].result.0.Digest ==> result.1 != nil
//@   ensures[single-holder-answers] calls[0].result.1 == nil && calls[1].result.1 != nil ==> result.1 == nil && result.0 == calls[0].result.0
//@   ensures[single-holder-answers-second] calls[0].result.1 != nil && calls[1].result.1 == nil ==> result.1 == nil && result.0 == calls[1].result.0
//@   ensures[missing-from-both-fails] calls[0].result.1 != nil && calls[1].result.1 != nil ==> result.1 == calls[0].result.1

// Sequential read policy: the first member answers unless it fails.
//@ func runReadSequential
//@   requires f != nil
//@   ensures[first-success-wins] (calls == [f(ctx, u.r0, 0)] && calls[0].result.error() == nil && result == calls[0].result) ||
//@     (calls == [f(ctx, u.r0, 0), f(ctx, u.r1, 1)] && calls[0].result.error() != nil && result == calls[1].result)

// The reader handed out by a concurrent read: closing it closes the member's
// reader and then releases the member's context, whatever Close returned.
//@ func (blobReader).Close
//@   requires r.cancel != nil && r.BlobReader != nil
//@   ensures[closes-then-cancels] calls == [r.BlobReader.Close(), r.cancel()] && result == calls[0].result

// Assumed interface contract: a read that reports success returns a reader.
//@ iface-ensures Interface.GetTag(ctx, repo, tagName) result.1 == nil ==> result.0 != nil
//@ func (unifier).GetTag
//@   ensures[asks-both-members] ncalls() >= 2 && calls[0] == calls[0]
//@   ensures[disagreement-is-an-error] r0.err == nil && r1.err == nil && result.1 == nil ==> result.0 == r0.x
//@   ensures[missing-from-both-fails] r0.err != nil && r1.err != nil ==> result.1 == r0.err
//@   ensures[single-holder-answers] r0.err == nil && r1.err != nil ==> result.1 == nil && result.0 == r0.x
//@   ensures[single-holder-answers-second] r0.err != nil && r1.err == nil ==> result.1 == nil && result.0 == r1.x


// The paired upload writer: both members' writers get every call; success is
// reported only if both succeeded.
//@ iface-ensures Interface.PushBlobChunked(ctx, repo, chunkSize) result.1 == nil ==> result.0 != nil
//@ iface-ensures Interface.PushBlobChunkedResume(ctx, repo, id, offset, chunkSize) result.1 == nil ==> result.0 != nil
//@ immutable unifiedBlobWriter.w, unifiedBlobWriter.u
//@ invariant (*unifiedBlobWriter) self != nil && self.w[0] != nil && self.w[1] != nil
//@ func (unifier).PushBlobChunked
//@   ensures[needs-both-writers] result.1 == nil ==> r0.err == nil && r1.err == nil
//@ func (unifier).PushBlobChunkedResume
//@   private ids
//@   ensures[needs-both-writers] result.1 == nil ==> r0.err == nil && r1.err == nil
//@   ensures[and-at-the-same-size] result.1 == nil ==>
//@     calls == [u.r0.PushBlobChunkedResume(_, repo, ids[0], offset, chunkSize), u.r1.PushBlobChunkedResume(_, repo, ids[1], offset, chunkSize), w0.Size(), w1.Size()] &&
//@     calls[2].result == calls[3].result
//@ func (unifier).PushBlobChunkedResume$1
//@   requires len(ids) == 2 && (i == 0 || i == 1) && r != nil
//@ func (*unifiedBlobWriter).Write$1
//@   requires i == 0 || i == 1
//@ func (*unifiedBlobWriter).Close$1
//@   requires i == 0 || i == 1
//@ func (*unifiedBlobWriter).Cancel$1
//@   requires i == 0 || i == 1
//@ func (*unifiedBlobWriter).Commit$1
//@   requires i == 0 || i == 1
//@ func (*unifiedBlobWriter).Write
//@   private w
//@   ensures[callers-buffer-untouched] untouched(buf) && string(buf) == old(string(buf))
//@   ensures[written-to-both-or-failed] result.1 == nil ==> result.0 == len(buf) && w.size == old(w.size) + len(buf) &&
//@     calls == [w.w[0].Write(buf), w.w[1].Write(buf)] && calls[0].result.1 == nil && calls[1].result.1 == nil
//@   ensures[failure-is-reported] result.1 != nil ==> result.0 == 0 && w.size == old(w.size)
//@ func (*unifiedBlobWriter).Commit
//@   ensures[committed-on-both-or-failed] calls == [w.w[0].Commit(digest), w.w[1].Commit(digest)] &&
//@     (result.1 == nil ==> calls[0].result.1 == nil && calls[1].result.1 == nil && result.0 == calls[0].result.0)
//@ func (*unifiedBlobWriter).Close
//@   ensures[closed-on-both] calls == [w.w[0].Close(), w.w[1].Close()] && (result == nil) == (calls[0].result == nil && calls[1].result == nil)
//@ func (*unifiedBlobWriter).Cancel
//@   ensures[cancelled-on-both] calls == [w.w[0].Cancel(), w.w[1].Cancel()] && (result == nil) == (calls[0].result == nil && calls[1].result == nil)

// ---------------------------------------------------------------------------
// Reads and listings ask a member for exactly what the caller asked the
// unified registry for (the per-member closures handed to the read policy and
// to `both`): the same method, the caller's arguments, and the member's
// answer handed back as it is.
//@ func (unifier).GetBlob$1
//@   requires r != nil
//@   ensures[asks-the-member-for-that-blob] calls == [r.GetBlob(ctx, repo, digest)] && result.x == calls[0].result.0 && result.err == calls[0].result.1
//@ func (unifier).GetBlobRange$1
//@   requires r != nil
//@   ensures[asks-the-member-for-that-range] calls == [r.GetBlobRange(ctx, repo, digest, o0, o1)] && result.x == calls[0].result.0 && result.err == calls[0].result.1
//@ func (unifier).GetManifest$1
//@   requires r != nil
//@   ensures[asks-the-member-for-that-manifest] calls == [r.GetManifest(ctx, repo, digest)] && result.x == calls[0].result.0 && result.err == calls[0].result.1
//@ func (unifier).ResolveBlob$1
//@   requires r != nil
//@   ensures[asks-the-member-about-that-blob] calls == [r.ResolveBlob(ctx, repo, digest)] && result.x == calls[0].result.0 && result.err == calls[0].result.1
//@ func (unifier).ResolveManifest$1
//@   requires r != nil
//@   ensures[asks-the-member-about-that-manifest] calls == [r.ResolveManifest(ctx, repo, digest)] && result.x == calls[0].result.0 && result.err == calls[0].result.1
//@ func (unifier).Repositories$1
//@   requires r != nil
//@   ensures[asks-the-member-for-that-listing] calls == [r.Repositories(ctx, startAfter)] && result == calls[0].result
//@ func (unifier).Tags$1
//@   requires r != nil
//@   ensures[asks-the-member-for-that-listing] calls == [r.Tags(ctx, repo, startAfter)] && result == calls[0].result
//@ func (unifier).Referrers$1
//@   requires r != nil
//@   ensures[asks-the-member-for-that-listing] calls == [r.Referrers(ctx, repo, digest, artifactType)] && result == calls[0].result
