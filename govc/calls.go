package main

// Calls: builtins, contracts, inlining, closures, interface dispatch, foreign code.

import (
	"fmt"
	"go/token"
	"go/types"
	"regexp"
	"sync"
	"strings"

	"golang.org/x/tools/go/ssa"
)

func tokenOf(op string) token.Token {
	switch op {
	case "+":
		return token.ADD
	case "-":
		return token.SUB
	case "*":
		return token.MUL
	case "/":
		return token.QUO
	case "%":
		return token.REM
	case "&":
		return token.AND
	case "|":
		return token.OR
	case "^":
		return token.XOR
	case "&^":
		return token.AND_NOT
	case "<<":
		return token.SHL
	case ">>":
		return token.SHR
	case "==":
		return token.EQL
	case "!=":
		return token.NEQ
	case "<":
		return token.LSS
	case "<=":
		return token.LEQ
	case ">":
		return token.GTR
	case ">=":
		return token.GEQ
	}
	return token.ILLEGAL
}

func (x *Exec) call(fr *Frame, st *State, in *ssa.Call, cc *ssa.CallCommon, k func(*State, Val)) bool {
	fn := x.value(fr, st, cc.Value)
	var args []Val
	for _, a := range cc.Args {
		args = append(args, x.value(fr, st, a))
	}
	x.callWith(fr, st, in, cc, fn, args, k)
	return false
}

func resultVal(rs []Val, sig *types.Signature) Val {
	switch len(rs) {
	case 0:
		return Val{Typ: types.NewTuple()}
	case 1:
		return rs[0]
	}
	return Val{Tup: rs, Typ: sig.Results()}
}

func (x *Exec) callWith(fr *Frame, st *State, in *ssa.Call, cc *ssa.CallCommon, fn Val, args []Val, k func(*State, Val)) {
	sig := cc.Signature()
	k2 := func(int) func(*State, Val) { return k }
	if cc.IsInvoke() {
		x.invoke(fr, st, cc, fn, args, k)
		return
	}
	switch callee := cc.Value.(type) {
	case *ssa.Builtin:
		k(st, x.builtin(fr, st, callee, cc, args))
		return
	case *ssa.Function:
		x.staticCall(fr, st, cc, callee, nil, args, k)
		return
	case *ssa.MakeClosure:
		if fn.Clo != nil {
			x.staticCall(fr, st, cc, fn.Clo.Fn, fn.Clo, args, k)
			return
		}
	}
	if fn.Clo != nil {
		x.staticCall(fr, st, cc, fn.Clo.Fn, fn.Clo, args, k)
		return
	}
	if fn.SFn != nil {
		x.staticCall(fr, st, cc, fn.SFn, nil, args, k)
		return
	}
	if strings.HasPrefix(fn.Org, "global:") {
		gname := strings.TrimPrefix(fn.Org, "global:")
		key := "G_" + sanitize(strings.ReplaceAll(gname, ".", "_"))
		if pat, ok := x.L.regexGlobals[key]; ok && x.L.immutableGlobal[key] {
			r := x.freshVal(st, "regex", sig.Results().At(0).Type())
			st.assume(Not(Eq(r.T, IntLit(0))))
			r.Org = "regex:" + pat
			x.funcsUsed["assume:sync.OnceValue returns the same compiled pattern on every call"] = true
			k(st, r)
			return
		}
	}
	if strings.HasPrefix(fn.Org, "tableelem:") && !fn.Idx.IsZero() {
		// element of a constant function table: one path per entry
		tbl := x.L.funcTables[strings.TrimPrefix(fn.Org, "tableelem:")]
		for k, f := range tbl {
			st2 := st.clone()
			st2.assumeCond(Eq(fn.Idx, IntLit(int64(k))))
			x.paths++
			fr2 := fr.clone()
			x.staticCall(fr2, st2, cc, f, nil, args, k2(k))
		}
		return
	}
	// dynamic call of an unknown func value
	desc := x.exprText(cc.Value, cc.Pos())
	x.oblige(st, "SAFE", "nonnil-func("+desc+")", Not(Eq(Term{fmt.Sprintf("(fid %s)", fn.T.S), "Int"}, IntLit(0))), "call of nil func value")
	st.assume(Not(Eq(Term{fmt.Sprintf("(fid %s)", fn.T.S), "Int"}, IntLit(0))))
	if sf := x.boundSpec(fn); sf != nil {
		env := &Env{x: x, st: st, vars: map[string]Val{}, pkg: x.pkgOf(fr.fn)}
		var as []SExpr
		for i, a := range args {
			n := fmt.Sprintf("$a%d", i)
			env.vars[n] = a
			as = append(as, SIdent{n})
		}
		r := env.applySpecFunc(sf, as)
		k(st, r)
		return
	}
	if x.isPureParam(fr, fn) {
		if r, ok := x.applyUF(st, fn, args); ok {
			x.funcsUsed["assume:the func-typed parameter "+strings.TrimPrefix(fn.Org, "param:")+" of "+FuncKey(rootFn(fr.fn))+" is a pure function of its arguments (no effects, same answer for the same arguments)"] = true
			k(st, r)
			return
		}
	}
	if x.isYield(fn) && st.seqOn {
		x.yieldCall(fr, st, cc, fn, args, k)
		return
	}
	// preconditions of calls through a func-typed field (fn-sink rules)
	for _, sr := range x.cs.Sinks {
		if sr.Method != "()" || !x.sinkMatches(sr, fn, nil) {
			continue
		}
		env := &Env{x: x, st: st, vars: map[string]Val{}, pkg: x.pkgOf(fr.fn), fr: fr}
		for i, p := range sr.Params {
			if i < len(args) {
				env.vars[p] = args[i]
			}
		}
		for _, c := range sr.Req {
			g := x.evalBool(env, c.Expr)
			x.oblige(st, "CALL", fmt.Sprintf("fn-pre(%s: %s)", sr.Owner, c.Src), g, "precondition of a call through a func-typed field")
			st.assume(g)
		}
	}
	ev := &CallEvent{Kind: "fn", FnTerm: fn.T, Args: args, Desc: desc, Org: fn.Org, From: fn.From}
	if n, ok := types.Unalias(cc.Value.Type()).(*types.Named); ok && x.cs.PureFnTypes[n.Obj().Name()] {
		ev.NoHavoc = true
		x.funcsUsed["assume:values of func type "+n.Obj().Name()+" only read the package's memory (they are closures of this package, verified under `modifies nothing`)"] = true
	}
	x.foreignCall(fr, st, ev, sig, args, k)
}

// foreignCall: code we know nothing about runs. Closures passed to it may be
// invoked any number of times; the heap is havocked; the call is logged.
func (x *Exec) foreignCall(fr *Frame, st *State, ev *CallEvent, sig *types.Signature, args []Val, k func(*State, Val)) {
	for i := range args {
		if args[i].Clo != nil {
			x.closureAsLoop(fr, st, args[i].Clo, ev)
		}
		if args[i].Loc != nil && args[i].Loc.Kind == LCell {
			st.esc[args[i].Loc.Cell] = true
		}
	}
	// object invariants hold in visible states: the receiver's invariant
	// must hold when control is handed to foreign code, and holds again when
	// it comes back (every method of the type preserves it)
	selfInv := func(assume bool) {
		if fr == nil || !fr.isEntry || ev.NoHavoc {
			return
		}
		root := rootFn(fr.fn)
		if root != fr.fn || root.Signature.Recv() == nil || len(fr.params) == 0 {
			return
		}
		tn := recvTypeName(root.Signature.Recv().Type())
		invs := x.objInvsOf(FuncPkgPath(fr.fn)+"."+tn, fr.fn)
		if len(invs) == 0 {
			return
		}
		ienv := &Env{x: x, st: st, vars: map[string]Val{"self": fr.params[0]}, pkg: x.pkgOf(fr.fn)}
		for _, c := range invs {
			g := x.evalBool(ienv, c.Expr)
			if assume {
				st.assume(g)
			} else {
				x.oblige(st, "INV", fmt.Sprintf("invariant-at-foreign-call(%s: %s)@%s", tn, c.Src, ev.Desc), g, "the receiver's invariant must hold when foreign code is called")
			}
		}
	}
	selfInv(false)
	if !ev.NoHavoc {
		x.havocHeap(st, "foreign call "+ev.Desc)
	}
	selfInv(true)
	rs := x.freshResults(st, sig)
	if ev.Kind == "invoke" {
		// assumed interface contract: an iterator-returning method of
		// ociregistry.Interface never returns a nil Seq
		for i := 0; i < sig.Results().Len(); i++ {
			if n, ok := sig.Results().At(i).Type().(*types.Named); ok && n.Obj().Name() == "Seq" {
				st.assume(Not(Eq(Term{fmt.Sprintf("(fid %s)", rs[i].T.S), "Int"}, IntLit(0))))
				x.funcsUsed["assume:interface contract: methods returning ociregistry.Seq never return a nil iterator"] = true
			}
		}
	}
	if ev.Kind == "invoke" {
		for i := range rs {
			if _, ok := rs[i].Typ.Underlying().(*types.Signature); ok {
				rs[i].From = ev
			}
		}
		for _, sr := range x.cs.IfaceEns {
			if sr.Method != ev.Method || !strings.HasSuffix(ev.IfaceName, sr.Owner) {
				continue
			}
			env := &Env{x: x, st: st, vars: map[string]Val{}, pkg: x.pkgOf(fr.fn), results: rs, hasRes: true}
			for i, pn := range sr.Params {
				if i < len(args) {
					env.vars[pn] = args[i]
				}
			}
			for _, c := range sr.Ens {
				st.assume(x.evalBool(env, c.Expr))
			}
			x.funcsUsed["assume:interface contract: "+sr.Owner+"."+sr.Method+" "+sr.Ens[0].Src] = true
		}
	}
	ev.Results = rs
	st.calls = append(st.calls, ev)
	x.ownResults(st, ev, sig, rs)
	k(st, resultVal(rs, sig))
}

func (x *Exec) pkgOf(f *ssa.Function) *types.Package {
	if sp := x.L.spkgs[FuncPkgPath(f)]; sp != nil {
		return sp.Pkg
	}
	return nil
}

func (x *Exec) boundSpec(fn Val) *SpecFunc {
	if fn.Org == "" {
		return nil
	}
	for _, b := range x.cs.Binds {
		// b.Field like "(*accessCheckerRegistry).check" → "accessCheckerRegistry.check"
		f := strings.NewReplacer("(", "", ")", "", "*", "").Replace(b.Field)
		if fn.Org == "field:"+f || strings.HasSuffix(fn.Org, "."+f) || fn.Org == "field:"+pkgShort(b.Pkg)+"."+f {
			return x.cs.Specs[b.Fn]
		}
	}
	return nil
}

func pkgShort(p string) string {
	if i := strings.LastIndexByte(p, '/'); i >= 0 {
		return p[i+1:]
	}
	return p
}

// ---------------------------------------------------------------------------
// Static calls

func (x *Exec) contractFor(f *ssa.Function) *Contract {
	return x.cs.Funcs[FuncPkgPath(f)+"."+FuncKey(f)]
}

func (x *Exec) staticCall(fr *Frame, st *State, cc *ssa.CallCommon, callee *ssa.Function, clo *Closure, args []Val, k func(*State, Val)) {
	sig := callee.Signature
	name := callee.String()
	if o := callee.Origin(); o != nil {
		name = o.String()
	}
	if lib, ok := libTable[name]; ok {
		if r, ok := lib(x, fr, st, cc, args); ok {
			k(st, r)
			return
		}
	}
	if callee.Synthetic != "" && (strings.HasPrefix(callee.Synthetic, "bound method") || strings.HasPrefix(callee.Synthetic, "thunk") || strings.HasPrefix(callee.Synthetic, "wrapper")) {
		x.inlineCall(fr, st, callee, clo, args, k)
		return
	}
	if x.L.isRepoFunc(callee) {
		ctr := x.contractFor(callee)
		if ctr != nil && !ctr.Inline && clo == nil && !(x.specDepth > 0 && len(callee.Blocks) > 0 && len(x.inlineStack) < maxInlineDepth+2 && !ctr.Trusted && !ctr.Pure) {
			x.applyContract(fr, st, cc, callee, ctr, args, k)
			return
		}
		recursive := false
		for _, f := range x.inlineStack {
			if f == callee {
				recursive = true
			}
		}
		if !recursive && len(x.inlineStack) < maxInlineDepth && len(callee.Blocks) > 0 {
			x.inlineCall(fr, st, callee, clo, args, k)
			return
		}
		x.note("uncontracted call (not inlined: recursion or depth): %s — heap and results havocked", name)
		x.foreignCall(fr, st, &CallEvent{Kind: "static", Static: callee, Args: args, Desc: name}, sig, args, k)
		return
	}
	// library function without a table entry
	if isPurePackage(callee) {
		if deterministicLib(callee) {
			// a function of value-typed arguments in a side-effect-free
			// package: an unspecified but deterministic function
			x.funcsUsed["lib-pure:"+name+" (deterministic function of its arguments, otherwise unspecified)"] = true
			var rs []Val
			uargs := x.bytesAsStrings(st, args)
			for i := 0; i < sig.Results().Len(); i++ {
				rs = append(rs, x.uninterp(st, fmt.Sprintf("lf_%s_%d", sanitize(name), i), uargs, sig.Results().At(i).Type()))
			}
			x.libFacts(st, name, args, rs)
			k(st, resultVal(rs, sig))
			return
		}
		x.note("assumed side-effect free (results arbitrary): %s", name)
		// ... except through its arguments: what a pointer argument points to is unknown afterwards
		for i := range args {
			a := args[i]
			if a.Dyn != nil {
				// a pointer wrapped in an interface (json.Unmarshal(data, &v))
				a = *a.Dyn
			}
			if a.Loc != nil && a.Loc.Kind == LCell {
				c := a.Loc.Cell
				nv := x.freshVal(st, "out_"+c.name, c.typ)
				st.cells[c] = nv
				continue
			}
			if a.Typ == nil || a.T.IsZero() {
				continue
			}
			if pt, ok := a.Typ.Underlying().(*types.Pointer); ok && a.T.Sort == "Int" {
				if _, isStruct := pt.Elem().Underlying().(*types.Struct); isStruct {
					si := x.te.Struct(pt.Elem())
					for fi := range si.Acc {
						key, sort := x.fieldComp(si, fi)
						if x.immutComp(key) {
							continue
						}
						cur := x.heapGet(st, key, sort)
						st.heap[key] = Store(cur, a.T, x.d.Fresh("out_fld", si.FSorts[fi]))
					}
				}
			}
		}
		rs := x.freshResults(st, sig)
		x.libFacts(st, name, args, rs)
		k(st, resultVal(rs, sig))
		return
	}
	x.note("unmodelled call (heap and results havocked): %s", name)
	x.foreignCall(fr, st, &CallEvent{Kind: "static", Static: callee, Args: args, Desc: name}, sig, args, k)
}

var purePkgs = map[string]bool{
	"strings": true, "strconv": true, "unicode": true, "unicode/utf8": true, "bytes": true, "path": true,
	"math": true, "math/bits": true, "sort": true, "slices": true, "maps": true, "errors": true, "fmt": true,
	"net/url": true, "mime": true, "encoding/base64": true, "encoding/hex": true, "time": true, "regexp": true,
	"github.com/opencontainers/go-digest": true, "net/textproto": true, "path/filepath": true, "cmp": true,
	"encoding/json": true, "context": true, "crypto/sha256": true, "hash": true, "reflect": true,
	"net/http": true, "io": true, "os": true, "bufio": true, "sync": true, "sync/atomic": true, "log": true,
	"runtime": true, "math/rand": true, "crypto/rand": true, "net": true,
}

// isPurePackage: library packages whose functions do not write to memory
// that the verified packages can observe other than through their arguments.
// (The arguments' reachable memory IS havocked for pointer-like arguments.)
func isPurePackage(f *ssa.Function) bool {
	p := FuncPkgPath(f)
	return purePkgs[p]
}

var nondetPkgs = map[string]bool{"time": true, "math/rand": true, "crypto/rand": true, "os": true, "net": true, "net/http": true, "io": true, "bufio": true, "sync": true, "sync/atomic": true, "runtime": true, "log": true, "context": true, "reflect": true}

func valueLike(T types.Type, depth int) bool {
	if depth > 4 {
		return false
	}
	switch u := T.Underlying().(type) {
	case *types.Basic:
		return u.Kind() != types.UnsafePointer
	case *types.Slice:
		return valueLike(u.Elem(), depth+1)
	case *types.Array:
		return valueLike(u.Elem(), depth+1)
	case *types.Struct:
		for i := 0; i < u.NumFields(); i++ {
			if !valueLike(u.Field(i).Type(), depth+1) {
				return false
			}
		}
		return true
	}
	return false
}

var timeValueMethods = map[string]bool{"After": true, "Before": true, "Equal": true, "Add": true, "UTC": true, "Sub": true, "IsZero": true, "Compare": true, "Unix": true}

func deterministicLib(f *ssa.Function) bool {
	if FuncPkgPath(f) == "time" && f.Signature.Recv() != nil && timeValueMethods[f.Name()] {
		// value methods of time.Time: functions of the instants involved
		return true
	}
	if nondetPkgs[FuncPkgPath(f)] {
		return false
	}
	sig := f.Signature
	if sig.Recv() != nil && !valueLike(sig.Recv().Type(), 0) {
		return false
	}
	for i := 0; i < sig.Params().Len(); i++ {
		if !valueLike(sig.Params().At(i).Type(), 0) {
			return false
		}
	}
	for i := 0; i < sig.Results().Len(); i++ {
		rt := sig.Results().At(i).Type()
		if types.Identical(rt, types.Universe.Lookup("error").Type()) {
			continue
		}
		if !valueLike(rt, 0) {
			return false
		}
	}
	return sig.Results().Len() > 0
}

func (x *Exec) inlineCall(fr *Frame, st *State, callee *ssa.Function, clo *Closure, args []Val, k func(*State, Val)) {
	x.note("inlined: %s", FuncKey(callee))
	x.inlineStack = append(x.inlineStack, callee)
	saved := append([]*ssa.Function(nil), x.inlineStack...)
	x.L.indexDebugRefs(callee)
	x.executedInPlace[callee] = true
	x.runFunction(callee, st, args, clo, fr.depth+1, func(st2 *State, rs []Val) {
		stack := x.inlineStack
		x.inlineStack = saved[:len(saved)-1]
		k(st2, resultVal(rs, callee.Signature))
		x.inlineStack = stack
	})
	x.inlineStack = saved[:len(saved)-1]
}

// applyContract: modular call — precondition obligations, frame havoc,
// postcondition assumed.
func (x *Exec) applyContract(fr *Frame, st *State, cc *ssa.CallCommon, callee *ssa.Function, ctr *Contract, args []Val, k func(*State, Val)) {
	key := FuncKey(callee)
	x.funcsUsed["contract:"+FuncPkgPathShort(callee)+"."+key] = true
	env := &Env{x: x, st: st, vars: map[string]Val{}, pkg: x.pkgOf(callee), tfn: callee}
	for i, p := range callee.Params {
		if i < len(args) {
			a := args[i]
			if a.Typ == nil {
				a.Typ = p.Type()
			}
			env.vars[p.Name()] = a
		}
	}
	for _, c := range ctr.Requires {
		g := x.evalBool(env, c.Expr)
		x.oblige(st, "CALL", fmt.Sprintf("pre(%s: %s)@%s", key, c.Src, x.posText(cc.Pos())), g, "precondition of callee")
		st.assume(g)
	}
	for _, hk := range x.holdsKeys(ctr, env) {
		found := false
		for _, h := range st.held {
			if h == hk {
				found = true
			}
			if strings.HasPrefix(hk, "?#") && strings.HasSuffix(h, hk[1:]) {
				found = true
			}
		}
		x.oblige(st, "LOCK", fmt.Sprintf("callee-needs-lock(%s holds %s)@%s", key, strings.Join(ctr.Holds, ","), x.posText(cc.Pos())), BoolLit(found), "callee must be entered with the mutex held")
	}
	if len(ctr.Invokes) > 0 {
		// a trusted function whose whole behaviour is "call these
		// function-valued parameters, each once, and return their results":
		// the calls are made here, one after the other
		x.funcsUsed["trusted-invokes:"+FuncPkgPathShort(callee)+"."+key+" calls its function argument exactly as its contract lists and returns those results (body not verified: outside the subset)"] = true
		var run func(s *State, i int, acc []Val)
		run = func(s *State, i int, acc []Val) {
			if i == len(ctr.Invokes) {
				sig := callee.Signature
				if len(acc) != sig.Results().Len() {
					acc = x.freshResults(s, sig)
				}
				k(s, resultVal(acc, sig))
				return
			}
			call, ok := ctr.Invokes[i].(SCall)
			if !ok {
				x.note("spec-error: invokes needs calls")
				return
			}
			e2 := env.child()
			e2.st = s
			fv := e2.eval(call.Fun)
			var as []Val
			for _, a := range call.Args {
				as = append(as, e2.eval(a))
			}
			if fv.Clo == nil && fv.SFn == nil {
				sig, _ := fv.Typ.Underlying().(*types.Signature)
				ev := &CallEvent{Kind: "fn", FnTerm: fv.T, Args: as, Desc: exprString(call), Org: fv.Org}
				x.foreignCall(fr, s, ev, sig, as, func(s2 *State, r Val) { run(s2, i+1, append(acc[:len(acc):len(acc)], r)) })
				return
			}
			target := fv.SFn
			if fv.Clo != nil {
				target = fv.Clo.Fn
			}
			x.staticCall(fr, s, cc, target, fv.Clo, as, func(s2 *State, r Val) { run(s2, i+1, append(acc[:len(acc):len(acc)], r)) })
		}
		run(st, 0, nil)
		return
	}
	oldSt := st.clone()
	oldEnv := env.child()
	oldEnv.st = oldSt
	callSnap := oldSt // the state in which the callee is entered (for calls[i].arg.k.field)
	// frame
	switch {
	case ctr.Pure, ctr.HasMod && len(ctr.Modifies) == 1 && ctr.Modifies[0] == "nothing":
	case ctr.HasMod:
		for _, m := range ctr.Modifies {
			x.registerMapItem(m, x.pkgOf(callee))
			if m == "all" {
				x.frameCall(st, key, "all")
				x.havocHeap(st, "modifies all")
				break
			}
			x.frameCall(st, key, m)
			x.havocComponent(st, m)
		}
	default:
		if !x.L.noHeapEffects(callee, 0) {
			x.frameCall(st, key, "all")
			x.havocHeap(st, "callee "+key)
		}
	}
	for i := range args {
		if args[i].Clo != nil && !ctr.NoCall {
			x.closureAsLoop(fr, st, args[i].Clo, &CallEvent{Desc: key})
		}
	}
	sig := callee.Signature
	var rs []Val
	if ctr.Pure && sig.Results().Len() == 1 && len(ctr.Ensures) == 0 {
		rs = []Val{x.pureApp(st, callee, args)}
	} else if ctr.Pure && sig.Results().Len() == 1 {
		rs = []Val{x.pureApp(st, callee, args)}
	} else {
		rs = x.freshResults(st, sig)
	}
	post := env.child()
	post.st = st
	post.old = oldEnv
	post.results = rs
	post.hasRes = true
	if callee.Signature.Results().Len() > 0 {
		for i := 0; i < sig.Results().Len(); i++ {
			if n := sig.Results().At(i).Name(); n != "" && n != "_" {
				post.vars[n] = rs[i]
			}
		}
	}
	for _, c := range ctr.Ensures {
		if strings.Contains(c.Src, "calls") || execGhostRe.MatchString(c.Src) {
			// the call log and the per-execution ghosts (items yielded or
			// offered, the response written, ...) are the callee's own: a
			// clause over them is proved inside the callee and tells a
			// caller nothing
			continue
		}
		// a clause over the callee's own locals is proved inside the callee
		// but says nothing a caller can use
		var errs []string
		probe := post.child()
		probe.st = st.clone()
		probe.errs = &errs
		x.evalBool(probe, c.Expr)
		if len(errs) > 0 {
			continue
		}
		st.assume(x.evalBool(post, c.Expr))
	}
	// a method re-establishes the object invariant of its receiver
	if callee.Signature.Recv() != nil && len(args) > 0 && callee.Parent() == nil {
		tn := recvTypeName(callee.Signature.Recv().Type())
		if invs := x.objInvsOf(FuncPkgPath(callee)+"."+tn, callee); len(invs) > 0 {
			ienv := &Env{x: x, st: st, vars: map[string]Val{"self": args[0]}, pkg: x.pkgOf(callee)}
			for _, c := range invs {
				st.assume(x.evalBool(ienv, c.Expr))
			}
		}
	}
	// assume-return: facts about the result that are assumed, not proved
	// (type invariants of values that enter from outside); recorded as assumptions
	for _, c := range ctr.AssumeRet {
		var errs []string
		probe := post.child()
		probe.st = st.clone()
		probe.errs = &errs
		x.evalBool(probe, c.Expr)
		if len(errs) > 0 {
			continue
		}
		st.assume(x.evalBool(post, c.Expr))
		x.funcsUsed["assume:result of "+key+": "+c.Src+" (assume-return: not proved)"] = true
	}
	if ctr.LogCalls {
		st.calls = append(st.calls, &CallEvent{Kind: "static", Static: callee, Args: args, Results: rs, Desc: key, Snap: callSnap})
	}
	if ctr.Atomic {
		// the callee enters (and leaves) a critical section of its own
		st.lockLog = append(st.lockLog, "callee:"+key)
		if len(st.held) > 0 && callee.Signature.Recv() != nil {
			for _, h := range st.held {
				if strings.HasPrefix(h, args[0].T.S+".") {
					x.oblige(st, "LOCK", fmt.Sprintf("no-self-deadlock(call of %s while holding its receiver's mutex)@%s", key, x.posText(cc.Pos())), False, "callee locks a mutex that is already held")
				}
			}
		}
	}
	x.lockEffects(st, ctr, env)
	k(st, resultVal(rs, sig))
}

var execGhostRe = regexp.MustCompile(`\b(offered|offeredAt|yielded|yieldedAt|yieldedErr|stopped|visited|copyErr|copied|status|header|bodyLen|bodyCopied|ncalls|ncallsOf|ncallsAfter|closed)\(`)

// modifiesMatch: does the modifies item m ("pkg.Type", "pkg.Type.field",
// "Type.field") cover heap component key k ("F_S_pkg_Type__field")?
// mapItemKeys: heap components of `map:<type>` modifies items (the contents
// of every map of that Go type), filled in by registerMapItem.
var mapItemKeys = map[string][2]string{}
var mapItemMu sync.Mutex

func (x *Exec) registerMapItem(m string, pkg *types.Package) {
	if !strings.HasPrefix(m, "map:") || m == "map:*" {
		return
	}
	mapItemMu.Lock()
	_, done := mapItemKeys[m]
	mapItemMu.Unlock()
	if done {
		return
	}
	env := &Env{x: x, vars: map[string]Val{}, pkg: pkg}
	T := env.resolveType(strings.TrimPrefix(m, "map:"))
	if T == nil {
		x.note("spec-error: unknown map type in modifies item %s", m)
		return
	}
	mt, ok := T.Underlying().(*types.Map)
	if !ok {
		x.note("spec-error: %s is not a map type", m)
		return
	}
	x.te.SortOf(mt.Elem())
	hk, _, vk, _ := x.mapComps(mt)
	mapItemMu.Lock()
	mapItemKeys[m] = [2]string{hk, vk}
	mapItemMu.Unlock()
}

func modifiesMatch(m, k string) bool {
	if m == "map:*" {
		// the contents of maps of every type
		return strings.HasPrefix(k, "Mhas_") || strings.HasPrefix(k, "Mval_")
	}
	if strings.HasPrefix(m, "map:") {
		mapItemMu.Lock()
		ks := mapItemKeys[m]
		mapItemMu.Unlock()
		return k == ks[0] || k == ks[1]
	}
	parts := strings.Split(m, ".")
	switch len(parts) {
	case 3: // pkg.Type.field
		return k == "F_S_"+sanitize(parts[0]+"_"+parts[1])+"__"+sanitize(parts[2])
	case 2:
		// pkg.Type (all fields) or Type.field
		if strings.HasPrefix(k, "F_S_"+sanitize(parts[0]+"_"+parts[1])+"__") {
			return true
		}
		return strings.HasPrefix(k, "F_S_") && strings.HasSuffix(k, "_"+sanitize(parts[0])+"__"+sanitize(parts[1]))
	}
	return false
}

func (x *Exec) havocComponent(st *State, m string) {
	keys := map[string]string{}
	for k, t := range x.entryHeap {
		keys[k] = t.Sort
	}
	for k, t := range st.heap {
		keys[k] = t.Sort
	}
	for k, sort := range keys {
		if modifiesMatch(m, k) && !x.immutComp(k) {
			st.heap[k] = x.d.Fresh("hv_"+k, sort)
		}
	}
	// components of the type not yet touched on this path: remember the
	// item so that heapGet hands out a post-call symbol for them
	st.modEpoch = append(st.modEpoch[:len(st.modEpoch):len(st.modEpoch)], modEpoch{m, fmt.Sprintf("m%d", x.nextEpoch())})
}

func (x *Exec) nextEpoch() int {
	x.epochN++
	return x.epochN
}

// frameAllows: may the function under verification (with a declared
// modifies clause) write heap component k?
func (x *Exec) frameAllows(k string) bool {
	if x.ctr == nil || !x.ctr.HasMod {
		return true
	}
	for _, m := range x.ctr.Modifies {
		if m == "all" || modifiesMatch(m, k) {
			return true
		}
	}
	return false
}

// ---------------------------------------------------------------------------
// Interface method calls

func (x *Exec) invoke(fr *Frame, st *State, cc *ssa.CallCommon, recv Val, args []Val, k func(*State, Val)) {
	sig := cc.Signature()
	mname := cc.Method.Name()
	desc := x.exprText(cc.Value, cc.Pos()) + "." + mname
	// nil interface
	x.oblige(st, "SAFE", "nil-iface("+desc+")", Not(Eq(recv.T, NilIface)), "method call on nil interface")
	st.assume(Not(Eq(recv.T, NilIface)))
	if recv.Dyn != nil {
		// statically known dynamic type
		ms := x.L.prog.MethodSets.MethodSet(recv.Dyn.Typ)
		if sel := ms.Lookup(cc.Method.Pkg(), mname); sel != nil {
			if f := x.L.prog.MethodValue(sel); f != nil {
				x.staticCall(fr, st, cc, f, nil, append([]Val{*recv.Dyn}, args...), k)
				return
			}
		}
	}
	itName := shortTypeName(cc.Value.Type())
	if x.cs.IfacePure[mname] && sig.Results().Len() == 1 {
		// a deterministic, effect-free observer of the dynamic value
		x.funcsUsed["assume:interface observer "+mname+"() is a deterministic function of the value, without side effects"] = true
		k(st, x.uninterp(st, "im_"+mname, append([]Val{recv}, args...), sig.Results().At(0).Type()))
		return
	}
	ev := &CallEvent{Kind: "invoke", Recv: recv.T, Method: mname, Args: args, Desc: desc, Org: recv.Org, IfaceName: itName}
	// sink rules: preconditions at this call site
	for _, sr := range x.cs.Sinks {
		if sr.Method != mname || !x.sinkMatches(sr, recv, cc.Value.Type()) {
			continue
		}
		env := &Env{x: x, st: st, vars: map[string]Val{}, pkg: x.pkgOf(fr.fn), fr: fr}
		for i, p := range sr.Params {
			if i < len(args) {
				env.vars[p] = args[i]
			}
		}
		env.vars["recv"] = recv
		for _, c := range sr.Req {
			g := x.evalBool(env, c.Expr)
			x.oblige(st, "CALL", fmt.Sprintf("sink-pre(%s.%s: %s)", sr.Owner, mname, c.Src), g, "precondition on a sink call")
			st.assume(g)
		}
	}
	if lib, ok := libTable["iface:"+itName+"."+mname]; ok {
		if r, ok := lib(x, fr, st, cc, append([]Val{recv}, args...)); ok {
			k(st, r)
			return
		}
	}
	if mname == "Close" {
		x.disown(st, recv, "closed")
	}
	x.foreignCall(fr, st, ev, sig, args, k)
}

func (x *Exec) sinkMatches(sr *SinkRule, recv Val, T types.Type) bool {
	if strings.HasPrefix(sr.Owner, "(") {
		f := strings.NewReplacer("(", "", ")", "", "*", "").Replace(sr.Owner)
		return recv.Org == "field:"+f || strings.HasSuffix(recv.Org, "."+f)
	}
	return shortTypeName(T) == sr.Owner
}

// ---------------------------------------------------------------------------
// Builtins

func (x *Exec) builtin(fr *Frame, st *State, b *ssa.Builtin, cc *ssa.CallCommon, args []Val) Val {
	intT := types.Typ[types.Int]
	switch b.Name() {
	case "len":
		a := args[0]
		switch u := cc.Args[0].Type().Underlying().(type) {
		case *types.Slice:
			x.te.SortOf(cc.Args[0].Type())
			return Val{T: sliceLen(a.T), Typ: intT}
		case *types.Basic:
			// an existing string fits in memory (same limit as the slices' range fact)
			st.assume(Le(x.te.StrLen(a.T), Term{"281474976710656", "Int"}))
			return Val{T: x.te.StrLen(a.T), Typ: intT}
		case *types.Map:
			x.mapLockCheck(st, a, "read")
			ml := Ite(Eq(a.T, IntLit(0)), IntLit(0), x.mapLen(st, a.T, u))
			// an existing map fits in memory
			st.assume(Le(ml, Term{"281474976710656", "Int"}))
			return Val{T: ml, Typ: intT}
		case *types.Array:
			return Val{T: IntLit(u.Len()), Typ: intT}
		case *types.Pointer:
			if at, ok := u.Elem().Underlying().(*types.Array); ok {
				return Val{T: IntLit(at.Len()), Typ: intT}
			}
		case *types.Chan:
			return x.freshVal(st, "chanlen", intT)
		}
	case "cap":
		a := args[0]
		switch u := cc.Args[0].Type().Underlying().(type) {
		case *types.Slice:
			x.te.SortOf(cc.Args[0].Type())
			return Val{T: sliceCap(a.T), Typ: intT}
		case *types.Array:
			return Val{T: IntLit(u.Len()), Typ: intT}
		}
		return x.freshVal(st, "cap", intT)
	case "append":
		return x.appendBuiltin(st, cc, args)
	case "copy":
		// copy(dst, src): dst content changes; model dst as havocked
		n := x.freshVal(st, "copied", intT)
		dst := args[0]
		x.te.SortOf(cc.Args[0].Type())
		var srcLen Term
		if isStringType(cc.Args[1].Type()) {
			srcLen = x.te.StrLen(args[1].T)
		} else {
			x.te.SortOf(cc.Args[1].Type())
			srcLen = sliceLen(args[1].T)
		}
		st.assume(And(Le(IntLit(0), n.T), Le(n.T, sliceLen(dst.T)), Le(n.T, srcLen), Or(Eq(n.T, sliceLen(dst.T)), Eq(n.T, srcLen))))
		if dst.Src != nil {
			narr := x.d.Fresh("copied_arr", sliceArrSort[dst.T.Sort])
			x.store(st, dst.Src, Val{T: mk(dst.T.Sort, "mk_"+dst.T.Sort, narr, sliceLen(dst.T), sliceCap(dst.T), sliceNil(dst.T)), Typ: dst.Typ})
		}
		return n
	case "delete":
		m, kk := args[0], args[1]
		if mt, ok := cc.Args[0].Type().Underlying().(*types.Map); ok {
			hk, hs, _, _ := x.mapComps(mt)
			has := x.heapGet(st, hk, hs)
			x.mapLockCheck(st, m, "write")
			// delete on a nil map is a no-op
			upd := Store(has, m.T, Store(Select(has, m.T), x.termOf(st, &kk), False))
			st.heap[hk] = Ite(Eq(m.T, IntLit(0)), has, upd)
		}
		return Val{}
	case "min", "max":
		r := args[0]
		for _, a := range args[1:] {
			if r.T.Sort == "Int" {
				if b.Name() == "min" {
					r.T = Ite(Le(r.T, a.T), r.T, a.T)
				} else {
					r.T = Ite(Ge(r.T, a.T), r.T, a.T)
				}
			}
		}
		return r
	case "print", "println":
		return Val{}
	case "clear":
		x.note("unmodelled builtin clear")
		x.havocHeap(st, "clear")
		return Val{}
	case "ssa:wrapnilchk":
		x.oblige(st, "SAFE", "nil-deref(method value receiver "+x.posText(cc.Pos())+")", Not(Eq(args[0].T, IntLit(0))), "nil receiver in method value")
		return args[0]
	case "ssa:deferstack":
		return Val{T: IntLit(0), Typ: b.Type()}
	case "recover":
		x.note("outside-subset: recover")
		return Val{T: NilIface, Typ: types.NewInterfaceType(nil, nil)}
	case "close":
		return Val{}
	case "new":
		return x.freshVal(st, "new", cc.Signature().Results().At(0).Type())
	}
	x.note("unmodelled builtin %s", b.Name())
	sig := cc.Signature()
	if sig.Results().Len() == 1 {
		return x.freshVal(st, "builtin", sig.Results().At(0).Type())
	}
	return Val{}
}

func (x *Exec) appendBuiltin(st *State, cc *ssa.CallCommon, args []Val) Val {
	T := cc.Args[0].Type()
	sort := x.te.SortOf(T)
	s := args[0]
	if len(args) < 2 {
		return s
	}
	more := args[1]
	var n Term
	var elemAt func(i Term) Term
	if isStringType(cc.Args[1].Type()) {
		// append([]byte, string...)
		n = x.te.StrLen(more.T)
		bs := x.stringToBytes(st, more.T, T)
		elemAt = func(i Term) Term { return Select(sliceArr(bs), i) }
	} else {
		x.te.SortOf(cc.Args[1].Type())
		n = sliceLen(more.T)
		elemAt = func(i Term) Term { return Select(sliceArr(more.T), i) }
	}
	oldLen := sliceLen(s.T)
	newLen := Add(oldLen, n)
	var arr Term
	// the common case: varargs slice built from a fixed-size array literal
	if k, ok := x.constLen(st, n); ok && k <= 8 {
		arr = sliceArr(s.T)
		for i := 0; i < k; i++ {
			arr = Store(arr, Add(oldLen, IntLit(int64(i))), elemAt(IntLit(int64(i))))
		}
		newLen = Add(oldLen, IntLit(int64(k)))
		if x.ctr != nil && x.ctr.AppendFrames && k > 0 {
			// witness transfer for existentially quantified facts about the old
			// slice: every index read of the old array is also read of the new one
			st.assume(Term{fmt.Sprintf("(forall ((i Int)) (! (=> (and (<= 0 i) (< i %s)) (= (select %s i) (select %s i))) :pattern ((select %s i))))", oldLen.S, arr.S, sliceArr(s.T).S, sliceArr(s.T).S), "Bool"})
		}
	} else {
		arr = x.d.Fresh("app", sliceArrSort[sort])
		old := sliceArr(s.T)
		st.assume(Term{fmt.Sprintf("(forall ((i Int)) (! (=> (and (<= 0 i) (< i %s)) (= (select %s i) (select %s i))) :pattern ((select %s i))))", oldLen.S, arr.S, old.S, arr.S), "Bool"})
		j := Term{"j", "Int"}
		st.assume(Term{fmt.Sprintf("(forall ((j Int)) (! (=> (and (<= 0 j) (< j %s)) (= (select %s (+ %s j)) %s)) :pattern (%s)))", n.S, arr.S, oldLen.S, elemAt(j).S, elemAt(j).S), "Bool"})
		if x.ctr != nil && x.ctr.AppendFrames {
			st.assume(Term{fmt.Sprintf("(forall ((i Int)) (! (=> (and (<= 0 i) (< i %s)) (= (select %s i) (select %s i))) :pattern ((select %s i))))", oldLen.S, arr.S, old.S, old.S), "Bool"})
			// reads of the new array beyond the old length are reads of the appended slice
			st.assume(Term{fmt.Sprintf("(forall ((k Int)) (! (=> (and (<= %s k) (< k %s)) (= (select %s k) %s)) :pattern ((select %s k))))", oldLen.S, newLen.S, arr.S, elemAt(Term{"(- k " + oldLen.S + ")", "Int"}).S, arr.S), "Bool"})
		}
	}
	// []byte contents seen as a string: appending concatenates
	if sl, ok := T.Underlying().(*types.Slice); ok && isByteType(sl.Elem()) && x.te.StrSort == "String" && !x.te.ByteBV {
		oldS := x.bytesToString(st, s.T)
		var added Term
		if isStringType(cc.Args[1].Type()) {
			added = more.T
		} else if k, ok := x.constLen(st, n); ok && k == 1 {
			added = Term{fmt.Sprintf("(str.from_code %s)", elemAt(IntLit(0)).S), "String"}
		} else {
			added = x.bytesToString(st, more.T)
		}
		b2s := "b2s_" + sanitize(sort)
		newS := Term{fmt.Sprintf("(%s %s %s)", b2s, arr.S, newLen.S), "String"}
		st.assume(Eq(newS, mk("String", "str.++", oldS, added)))
	}
	cp := x.d.Fresh("cap", "Int")
	st.assume(Ge(cp, newLen))
	// append(nil, <empty>...) stays nil
	isnil := And(sliceNil(s.T), Eq(n, IntLit(0)))
	r := mk(sort, "mk_"+sort, arr, newLen, cp, isnil)
	// appending to a nil literal (or to a slice this function allocated) gives a backing array of its own
	fresh := s.Fresh
	if c, ok := cc.Args[0].(*ssa.Const); ok && c.IsNil() {
		fresh = true
	}
	rv := Val{T: x.nameTerm(st, "appended", r), Typ: T, Fresh: fresh}
	if strings.HasPrefix(s.Org, "param:") && !fresh {
		// appending onto a view of a caller's buffer: when the view is shorter than the caller's
		// own and capacity allows, the appended elements overwrite bytes the caller still sees.
		// Slices are values in this model, so the write itself is not represented; the ghost
		// flag behind untouched(p) records that it may happen.
		name := strings.TrimPrefix(s.Org, "param:")
		if !s.ShrLen.IsZero() {
			prev, ok := st.ghost["clobber:"+name]
			if !ok {
				prev = False
			}
			st.ghost["clobber:"+name] = Or(prev, And(Gt(n, IntLit(0)), Lt(oldLen, s.ShrLen)))
		}
		rv.Org = s.Org
		rv.ShrLen = s.ShrLen
	}
	return rv
}

// constLen recognises a literal length term such as "(len_Sl (mk_Sl arr 2 2 false))".
func (x *Exec) constLen(st *State, n Term) (int, bool) {
	if k, ok := modelInt(n.S); ok {
		return int(k), true
	}
	// (len_S (mk_S a L C N))
	if strings.HasPrefix(n.S, "(len_") {
		i := strings.IndexByte(n.S, ' ')
		inner := n.S[i+1 : len(n.S)-1]
		if strings.HasPrefix(inner, "(mk_") {
			parts := splitTopLevel(inner[1 : len(inner)-1])
			if len(parts) == 5 {
				if k, ok := modelInt(parts[2]); ok {
					return int(k), true
				}
			}
		}
	}
	return 0, false
}

// ---------------------------------------------------------------------------
// Closures handed to foreign code: the closure body is a loop body.

func (x *Exec) closureAsLoop(fr *Frame, st *State, c *Closure, ev *CallEvent) {
	x.executedInPlace[c.Fn] = true
	x.L.indexDebugRefs(c.Fn)
	ord := x.closureOrdinal(c.Fn)
	var invs []*Clause
	if x.ctr != nil && fr.isEntry {
		invs = x.ctr.CloInv[ord]
	}
	mkEnv := func(s *State) *Env {
		env := x.entryEnv(fr, s)
		// captured cells by the closure's free-variable names
		for i, fv := range c.Fn.FreeVars {
			if i < len(c.Bindings) {
				T := fv.Type().(*types.Pointer).Elem()
				b := c.Bindings[i]
				env.vars[fv.Name()] = x.load(s, x.locOfPointer(s, b, T), T)
			}
		}
		return env
	}
	// ghost: the items the foreign iterator offers to this callback
	itemSort := ""
	if len(c.Fn.Params) >= 1 && c.Fn.Signature.Results().Len() == 1 {
		itemSort = x.te.SortOf(c.Fn.Params[0].Type())
		st.ghost["ocnt"] = IntLit(0)
		st.ghost["oseq:"+itemSort] = x.d.Fresh("oseq0", ArraySort("Int", itemSort))
	}
	// entry: invariants hold before the foreign call
	if len(invs) > 0 {
		env := mkEnv(st)
		for _, c := range invs {
			x.oblige(st, "INV", fmt.Sprintf("closure%d/entry(%s)", ord, c.Src), x.evalBool(env, c.Expr), "closure invariant on entry")
		}
	}
	// an arbitrary invocation
	body := st.clone()
	if itemSort != "" {
		oc := x.d.Fresh("ocnt", "Int")
		body.assume(Ge(oc, IntLit(0)))
		body.ghost["ocnt"] = oc
		body.ghost["oseq:"+itemSort] = x.d.Fresh("oseq", ArraySort("Int", itemSort))
	}
	x.havocCaptured(body, c)
	if ev == nil || !ev.NoHavoc {
		x.havocHeap(body, "closure invocation")
	}
	if len(invs) > 0 {
		env := mkEnv(body)
		for _, c := range invs {
			body.assume(x.evalBool(env, c.Expr))
		}
	}
	if body.seqOn {
		// the foreign Seq does not call back after false was returned; by the
		// exit obligation below stopped implies false was returned.
		body.assume(Not(body.stopped))
	}
	var params []Val
	for _, p := range c.Fn.Params {
		params = append(params, x.freshVal(body, "cb_"+p.Name(), p.Type()))
	}
	if itemSort != "" {
		// this invocation offers params[0] (an item unless an error comes with it)
		isItem := True
		if len(params) >= 2 && params[len(params)-1].T.Sort == "Iface" {
			isItem = Eq(params[len(params)-1].T, NilIface)
		}
		cnt, seq := x.offerGhost(body, itemSort)
		it := x.termOf(body, &params[0])
		nc := x.d.Fresh("ocnt", "Int")
		ns := x.d.Fresh("oseq", seq.Sort)
		body.assume(Eq(nc, Ite(isItem, Add(cnt, IntLit(1)), cnt)))
		body.assume(Eq(ns, Ite(isItem, Store(seq, cnt, it), seq)))
		body.ghost["ocnt"] = nc
		body.ghost["oseq:"+itemSort] = ns
	}
	// assumed interface contract on the items of a Seq obtained from an
	// interface method (seq-items rules)
	if ev != nil && ev.From != nil {
		for _, sr := range x.cs.SeqItems {
			if sr.Method != ev.From.Method {
				continue
			}
			env := &Env{x: x, st: body, vars: map[string]Val{}, pkg: x.pkgOf(fr.fn)}
			for i, pn := range sr.Params {
				if i < len(ev.From.Args) {
					env.vars[pn] = ev.From.Args[i]
				}
			}
			for i, pn := range strings.Split(sr.Owner, ",") {
				if i < len(params) {
					env.vars[strings.TrimSpace(pn)] = params[i]
				}
			}
			for _, c := range sr.Ens {
				body.assume(x.evalBool(env, c.Expr))
			}
			x.funcsUsed["assume:interface contract (seq-items): "+sr.Method+" "+sr.Ens[0].Src] = true
		}
	}
	savedStack := x.inlineStack
	x.inlineStack = append(x.inlineStack, c.Fn)
	x.runFunction(c.Fn, body, params, c, fr.depth+1, func(s2 *State, rs []Val) {
		x.paths++
		if len(invs) > 0 {
			env := mkEnv(s2)
			for _, c := range invs {
				x.oblige(s2, "INV", fmt.Sprintf("closure%d/preserved(%s)", ord, c.Src), x.evalBool(env, c.Expr), "closure invariant preserved")
			}
		}
		if s2.seqOn && len(rs) == 1 && rs[0].T.Sort == "Bool" {
			x.oblige(s2, "SEQ", fmt.Sprintf("closure%d/stop-propagated", ord), Implies(s2.stopped, Not(rs[0].T)), "after the consumer declined or an error was delivered the callback must return false")
		}
	})
	x.inlineStack = savedStack
	// after the foreign call
	x.havocCaptured(st, c)
	if itemSort != "" {
		oc := x.d.Fresh("ocnt", "Int")
		st.assume(Ge(oc, IntLit(0)))
		st.ghost["ocnt"] = oc
		st.ghost["oseq:"+itemSort] = x.d.Fresh("oseq", ArraySort("Int", itemSort))
	}
	if len(invs) > 0 {
		// heap is havocked by the caller right after; assume invariants on the cells now
		env := mkEnv(st)
		for _, c := range invs {
			st.assume(x.evalBool(env, c.Expr))
		}
	}
	if st.seqOn {
		st.stopped = x.d.Fresh("stopped", "Bool")
	}
}

func (x *Exec) havocCaptured(st *State, c *Closure) {
	stored := storedFreeVars(c.Fn)
	for i, b := range c.Bindings {
		if b.Loc == nil || b.Loc.Kind != LCell {
			continue
		}
		if i < len(c.Fn.FreeVars) && !stored[c.Fn.FreeVars[i]] {
			continue
		}
		cell := b.Loc.Cell
		nv := x.freshVal(st, "cap_"+cell.name, cell.typ)
		st.cells[cell] = nv
	}
}

// storedFreeVars: free variables the closure (or its nested closures) may write.
func storedFreeVars(f *ssa.Function) map[*ssa.FreeVar]bool {
	out := map[*ssa.FreeVar]bool{}
	var visit func(g *ssa.Function, m map[ssa.Value]*ssa.FreeVar)
	visit = func(g *ssa.Function, m map[ssa.Value]*ssa.FreeVar) {
		for _, b := range g.Blocks {
			for _, in := range b.Instrs {
				switch in := in.(type) {
				case *ssa.Store:
					if fv, ok := m[rootAddr(in.Addr)]; ok {
						out[fv] = true
					}
				case *ssa.MakeClosure:
					inner := in.Fn.(*ssa.Function)
					m2 := map[ssa.Value]*ssa.FreeVar{}
					for i, bnd := range in.Bindings {
						if fv, ok := m[bnd]; ok && i < len(inner.FreeVars) {
							m2[inner.FreeVars[i]] = fv
						}
					}
					visit(inner, m2)
				case *ssa.Call:
					// address passed to a call
					for _, a := range in.Call.Args {
						if fv, ok := m[rootAddr(a)]; ok {
							out[fv] = true
						}
					}
				}
			}
		}
	}
	m := map[ssa.Value]*ssa.FreeVar{}
	for _, fv := range f.FreeVars {
		m[fv] = fv
	}
	visit(f, m)
	return out
}

func rootAddr(v ssa.Value) ssa.Value {
	for {
		switch a := v.(type) {
		case *ssa.FieldAddr:
			v = a.X
		case *ssa.IndexAddr:
			v = a.X
		default:
			return v
		}
	}
}

func (x *Exec) closureOrdinal(f *ssa.Function) int {
	name := f.Name()
	if i := strings.LastIndexByte(name, '$'); i >= 0 {
		n := 0
		fmt.Sscanf(name[i+1:], "%d", &n)
		return n
	}
	return 0
}

// ---------------------------------------------------------------------------
// O-SEQ, producer side

// isPureParam: fn is a func-typed parameter of the function under
// verification that its contract declares `pure-param`.
func (x *Exec) isPureParam(fr *Frame, fn Val) bool {
	if x.ctr == nil || fr == nil || !strings.HasPrefix(fn.Org, "param:") {
		return false
	}
	for _, p := range x.ctr.PureParams {
		if fn.Org == "param:"+p {
			return true
		}
	}
	return false
}

// applyUF: application of a symbolic func value as an uninterpreted function
// of (function identity, arguments); code and specs use the same symbol.
func (x *Exec) applyUF(st *State, fn Val, args []Val) (Val, bool) {
	if fn.Typ == nil {
		return Val{}, false
	}
	sig, ok := fn.Typ.Underlying().(*types.Signature)
	if !ok || sig.Results().Len() != 1 {
		return Val{}, false
	}
	name := "app_" + sanitize(shortTypeName(sig))
	return x.uninterp(st, name, append([]Val{fn}, args...), sig.Results().At(0).Type()), true
}

func (x *Exec) isYield(fn Val) bool {
	return strings.HasPrefix(fn.Org, "param:yield") || strings.HasPrefix(fn.Org, "yield")
}

func (x *Exec) yieldCall(fr *Frame, st *State, cc *ssa.CallCommon, fn Val, args []Val, k func(*State, Val)) {
	x.oblige(st, "SEQ", "yield-after-stop("+x.posText(cc.Pos())+")", Not(st.stopped), "consumer called again after it declined further items or an error was delivered")
	if x.ctr != nil {
		for _, yr := range x.ctr.YieldReq {
			env := &Env{x: x, st: st, vars: map[string]Val{}, pkg: x.pkgOf(x.fn), fr: fr}
			for i, pn := range yr.Params {
				if i < len(args) {
					env.vars[pn] = args[i]
				}
			}
			// names of the entry function (parameters / captured variables)
			for n, v := range x.entryNames(st) {
				if _, ok := env.vars[n]; !ok {
					env.vars[n] = v
				}
			}
			for _, c := range yr.Req {
				x.oblige(st, "CALL", "yield-pre("+c.Src+")@"+x.posText(cc.Pos()), x.evalBool(env, c.Expr), "precondition on the values handed to the consumer")
			}
		}
	}
	ret := x.freshVal(st, "yield_ret", types.Typ[types.Bool])
	stop := Not(ret.T)
	isItem := True
	if len(args) >= 2 && args[len(args)-1].T.Sort == "Iface" {
		stop = Or(stop, Not(Eq(args[len(args)-1].T, NilIface)))
		isItem = Eq(args[len(args)-1].T, NilIface)
		// the error delivered (if any)
		prev, ok := st.ghost["yerr"]
		if !ok {
			prev = NilIface
		}
		ne := x.d.Fresh("yerr", "Iface")
		st.assume(Eq(ne, Ite(isItem, prev, args[len(args)-1].T)))
		st.ghost["yerr"] = ne
	}
	if len(args) >= 1 {
		// ghost: the sequence of items handed to the consumer so far
		it := x.termOf(st, &args[0])
		cnt, seq := x.yieldGhost(st, it.Sort)
		nc := x.d.Fresh("ycnt", "Int")
		ns := x.d.Fresh("yseq", seq.Sort)
		st.assume(Eq(nc, Ite(isItem, Add(cnt, IntLit(1)), cnt)))
		st.assume(Eq(ns, Ite(isItem, Store(seq, cnt, it), seq)))
		st.ghost["ycnt"] = nc
		st.ghost["yseq:"+it.Sort] = ns
	}
	ns := x.d.Fresh("stopped", "Bool")
	st.assume(Eq(ns, Or(st.stopped, stop)))
	st.stopped = ns
	st.calls = append(st.calls, &CallEvent{Kind: "fn", FnTerm: fn.T, Args: args, Results: []Val{ret}, Desc: "yield", Org: fn.Org})
	// the consumer may do anything to the heap, but not to the producer's cells
	x.havocHeapOnly(st)
	k(st, ret)
}

// yieldGhost: the ghost count and sequence (by item sort) of yielded items.
func (x *Exec) yieldGhost(st *State, sort string) (Term, Term) {
	cnt, ok := st.ghost["ycnt"]
	if !ok {
		cnt = IntLit(0)
		st.ghost["ycnt"] = cnt
	}
	seq, ok := st.ghost["yseq:"+sort]
	if !ok {
		seq = x.d.Fresh("yseq0", ArraySort("Int", sort))
		st.ghost["yseq:"+sort] = seq
	}
	return cnt, seq
}

// offerGhost: the same for the items a foreign iterator has offered to a
// callback of the verified function (consumer side).
func (x *Exec) offerGhost(st *State, sort string) (Term, Term) {
	cnt, ok := st.ghost["ocnt"]
	if !ok {
		cnt = IntLit(0)
		st.ghost["ocnt"] = cnt
	}
	seq, ok := st.ghost["oseq:"+sort]
	if !ok {
		seq = x.d.Fresh("oseq0", ArraySort("Int", sort))
		st.ghost["oseq:"+sort] = seq
	}
	return cnt, seq
}

func (x *Exec) havocHeapOnly(st *State) {
	saved := st.esc
	st.esc = map[*Cell]bool{}
	x.havocHeap(st, "consumer")
	st.esc = saved
}

// libFacts: the few things assumed about otherwise unspecified deterministic
// library functions.
// digestOf: the digest (algorithm:hex) of some bytes under an algorithm, as an
// uninterpreted function; FromBytes and NewDigest are both defined by it.
func (x *Exec) digestOf(st *State, alg, data Term, T types.Type) Val {
	x.d.DeclareFun("dg_of", "(declare-fun dg_of (String String) String)")
	return Val{T: mk("String", "dg_of", alg, data), Typ: T}
}

func (x *Exec) libFacts(st *State, name string, args, rs []Val) {
	switch name {
	case "github.com/opencontainers/go-digest.Parse":
		// the empty string is not a digest
		if len(args) == 1 && len(rs) == 2 && args[0].T.Sort == "String" {
			st.assume(Implies(Eq(args[0].T, StrLit("")), Not(Eq(rs[1].T, NilIface))))
			st.assume(Implies(Eq(rs[1].T, NilIface), Eq(rs[0].T, args[0].T)))
			x.funcsUsed["assume:go-digest: Parse(\"\") fails; Parse(s) returns Digest(s) on success"] = true
		}
	case "github.com/opencontainers/go-digest.FromBytes", "github.com/opencontainers/go-digest.FromString":
		if len(rs) == 1 && rs[0].T.Sort == "String" {
			if as := x.bytesAsStrings(st, args); len(as) == 1 && as[0].T.Sort == "String" {
				st.assume(Eq(rs[0].T, x.digestOf(st, StrLit("sha256"), as[0].T, rs[0].Typ).T))
			}
			// the canonical digest of some bytes is a valid, non-empty digest
			st.assume(Not(Eq(rs[0].T, StrLit(""))))
			perr := x.uninterp(st, "lf_github_com_opencontainers_go_digest_Parse_1", []Val{{T: rs[0].T, Typ: types.Typ[types.String]}}, types.Universe.Lookup("error").Type())
			st.assume(Eq(perr.T, NilIface))
			x.funcsUsed["assume:go-digest: FromBytes/FromString return a digest that Parse accepts"] = true
		}
	case "math/bits.OnesCount8", "math/bits.OnesCount16", "math/bits.OnesCount32", "math/bits.OnesCount64", "math/bits.OnesCount":
		if len(rs) == 1 && rs[0].T.Sort == "Int" {
			st.assume(And(Le(IntLit(0), rs[0].T), Le(rs[0].T, IntLit(64))))
			if name == "math/bits.OnesCount8" {
				st.assume(Le(rs[0].T, IntLit(8)))
				if len(args) == 1 && args[0].T.Sort == "(_ BitVec 8)" {
					// the population count of an 8-bit vector, exactly: the sum of its bits
					sum := "0"
					for i := 0; i < 8; i++ {
						sum = fmt.Sprintf("(+ %s (ite (= ((_ extract %d %d) %s) #b1) 1 0))", sum, i, i, args[0].T.S)
					}
					st.assume(Eq(rs[0].T, Term{sum, "Int"}))
				}
			}
		}
	case "encoding/json.Unmarshal":
		// success means the whole input was one well-formed JSON document
		// (trailing data is an error for Unmarshal, unlike Decoder.Decode)
		if len(args) == 2 && len(rs) == 1 && x.te.StrSort == "String" && !x.te.ByteBV {
			if as := x.bytesAsStrings(st, args[:1]); len(as) == 1 && as[0].T.Sort == "String" {
				x.d.DeclareFun("jsonDoc", "(declare-fun jsonDoc (String) Bool)")
				st.assume(Implies(Eq(rs[0].T, NilIface), Term{"(jsonDoc " + as[0].T.S + ")", "Bool"}))
				x.funcsUsed["lib:encoding/json.Unmarshal succeeds only if its whole input is one well-formed JSON document (jsonDoc, otherwise unspecified)"] = true
			}
		}
	case "(github.com/opencontainers/go-digest.Digest).Validate":
		if len(args) == 1 && len(rs) == 1 && args[0].T.Sort == "String" {
			st.assume(Implies(Eq(args[0].T, StrLit("")), Not(Eq(rs[0].T, NilIface))))
			x.funcsUsed["assume:go-digest: Digest(\"\").Validate() fails"] = true
		}
	}
}

// noHeapEffects: a conservative syntactic check that f (and the repo
// functions it calls statically) never writes to memory other than its own
// locals and never calls code we cannot see.
func (L *Loaded) noHeapEffects(f *ssa.Function, depth int) bool {
	if v, ok := L.pureMemo[f]; ok {
		return v
	}
	if depth > 6 || len(f.Blocks) == 0 {
		return false
	}
	if L.pureMemo == nil {
		L.pureMemo = map[*ssa.Function]bool{}
	}
	L.pureMemo[f] = true // optimistic for recursion
	ok := true
	for _, b := range f.Blocks {
		for _, in := range b.Instrs {
			switch in := in.(type) {
			case *ssa.Store:
				if _, local := rootAddr(in.Addr).(*ssa.Alloc); !local {
					ok = false
				}
			case *ssa.MapUpdate, *ssa.Go, *ssa.Send, *ssa.Defer:
				ok = false
			case *ssa.Call:
				if in.Call.IsInvoke() {
					ok = false
					continue
				}
				switch c := in.Call.Value.(type) {
				case *ssa.Builtin:
					switch c.Name() {
					case "delete", "clear", "copy", "close":
						ok = false
					}
				case *ssa.Function:
					if L.isRepoFunc(c) {
						if !L.noHeapEffects(c, depth+1) {
							ok = false
						}
					} else if !isPurePackage(c) || nondetPkgs[FuncPkgPath(c)] {
						name := c.String()
						if _, known := libTable[name]; !known {
							ok = false
						}
					}
					// passing the address of a local to a callee lets it write only that local
				default:
					ok = false
				}
			}
		}
	}
	L.pureMemo[f] = ok
	return ok
}

// frameCall: O-FRAME at a call — the callee's declared effects must be
// covered by the caller's own modifies clause (when it has one).
func (x *Exec) frameCall(st *State, callee, item string) {
	if x.ctr == nil || !x.ctr.HasMod {
		return
	}
	for _, m := range x.ctr.Modifies {
		if m == "all" || m == item {
			return
		}
		// pkg.Type covers pkg.Type.field
		if strings.HasPrefix(item, m+".") {
			return
		}
	}
	x.oblige(st, "FRAME", fmt.Sprintf("frame(call of %s modifies %s)", callee, item), False, "callee may modify memory outside this function's modifies clause")
	x.frameAcc(st, False)
}

// bytesAsStrings: a deterministic library function of a []byte argument
// depends on the bytes only (not on capacity or nil-ness): the argument is
// passed as its string view.
func (x *Exec) bytesAsStrings(st *State, args []Val) []Val {
	if x.te.StrSort != "String" || x.te.ByteBV {
		return args
	}
	out := make([]Val, len(args))
	for i, a := range args {
		out[i] = a
		if a.Typ == nil || a.T.IsZero() {
			continue
		}
		if sl, ok := a.Typ.Underlying().(*types.Slice); ok && isByteType(sl.Elem()) && strings.HasPrefix(a.T.Sort, "Sl_") {
			out[i] = Val{T: x.bytesToString(st, a.T), Typ: types.Typ[types.String]}
		}
	}
	return out
}
