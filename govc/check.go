package main

// `govc check --property Cxx --tier quick|thorough`

import (
	"encoding/json"
	"flag"
	"fmt"
	"os"
	"path/filepath"
	"sort"
	"strings"
	"time"

	"golang.org/x/tools/go/ssa"
)

type Baseline struct {
	Property   string   `json:"property"`
	Discharged []string `json:"discharged"`
}

func loadBaseline(id string) map[string]bool {
	b, err := os.ReadFile(filepath.Join(verifDir, "baseline", id+".json"))
	if err != nil {
		return nil
	}
	var bl Baseline
	if json.Unmarshal(b, &bl) != nil {
		return nil
	}
	m := map[string]bool{}
	for _, n := range bl.Discharged {
		m[n] = true
	}
	return m
}

type obSample struct {
	Name    string  `json:"obligation"`
	Class   string  `json:"class"`
	Status  string  `json:"status"`
	Solver  string  `json:"back_end"`
	Seconds float64 `json:"solver_s"`
	Paths   int     `json:"path_instances"`
	Where   string  `json:"where,omitempty"`
}

func cmdCheck(args []string) int {
	fs := flag.NewFlagSet("check", flag.ExitOnError)
	prop := fs.String("property", "", "property id")
	tier := fs.String("tier", "", "quick or thorough")
	update := fs.Bool("update-baseline", false, "rewrite the baseline from this run")
	verbose := fs.Bool("v", false, "verbose")
	fs.Parse(args)
	if *tier == "" {
		*tier = os.Getenv("VERIF_TIER")
	}
	if *tier == "" {
		*tier = "quick"
	}
	solverSeed = envInt("VERIF_SEED", 0)
	start := time.Now()
	id := *prop
	ps, err := loadPropSpec(id)
	if err != nil {
		fmt.Fprintln(os.Stderr, "govc:", err)
		return 2
	}
	L, err := LoadPackages(ps.Load)
	if err != nil {
		// the tree does not build: nothing can be concluded
		fmt.Fprintln(os.Stderr, "govc: cannot load /repo:", err)
		return 2
	}
	cs, warns, err := loadContracts(L)
	if err != nil {
		fmt.Fprintln(os.Stderr, "govc:", err)
		return 2
	}
	for _, w := range warns {
		fmt.Println("WARNING:", w)
	}
	known := loadKnown()
	sel := selectFunctions(L, ps)
	budget := ps.Budget
	var results []*FuncResult
	inPlace := map[*ssa.Function]bool{}
	run := func(s selected) {
		cl := s.classes
		if cl == nil {
			cl = allClasses()
		}
		r := VerifyFunction(L, cs, s.fn, VerifyOpts{Classes: cl, Budget: budget}, known)
		for f := range r.Exec.executedInPlace {
			inPlace[f] = true
		}
		results = append(results, r)
	}
	for _, s := range sel {
		if s.fn.Parent() == nil {
			run(s)
		}
	}
	for _, s := range sel {
		if s.fn.Parent() != nil && (!inPlace[s.fn] || cs.Funcs[FuncPkgPath(s.fn)+"."+FuncKey(s.fn)] != nil) {
			run(s)
		}
	}
	timeout := 10 * time.Second
	all := false
	if *tier == "thorough" {
		timeout = 60 * time.Second
		all = true
		useCache = false
	}
	if os.Getenv("GOVC_NOCACHE") != "" {
		// cold run: no solver answer is taken from /verif/.cache
		useCache = false
	}
	(&Discharger{Timeout: timeout, All: all}).Run(results)
	groups := groupObligations(results)

	// structural and lemma obligations
	extra := runStructural(L, cs, ps)
	groups = append(groups, extra...)
	lem := runLemmas(L, cs, ps, timeout, all, known...)
	groups = append(groups, lem...)

	baseline := loadBaseline(id)
	violations := 0
	var knownLines []string
	var samples []obSample
	var undecided, stale []string
	discharged, total := 0, 0
	solverSecs := 0.0
	backends := map[string]int{}
	os.MkdirAll(filepath.Join(outDir(), "replays"), 0o755)
	staleFn := map[string]bool{}
	droppedReq := map[string]bool{}
	for _, r := range results {
		if len(r.StaleRequires) > 0 {
			for _, o := range r.Obls {
				droppedReq[o.Fn] = true
			}
			for _, c := range r.StaleRequires {
				fmt.Printf("STALE-CONTRACT %s: requires clause no longer binds to the code and was not assumed: %s\n", r.Key, c)
			}
		}
		if len(r.SpecErrors) > 0 {
			staleFn[r.Key] = true
			for _, e := range r.SpecErrors {
				fmt.Printf("STALE-CONTRACT %s: %s\n", r.Key, e)
			}
		}
		if r.Vacuity != nil && r.Vacuity.Result != nil && r.Vacuity.Result.Answer == "unsat" {
			fmt.Printf("VACUOUS %s: requires/type invariants are unsatisfiable\n", r.Key)
			path := writeReplayFile(id, r.Vacuity, nil, "vacuous precondition: the contract's requires clauses contradict each other; every obligation of the function would pass vacuously")
			fmt.Printf("VIOLATION property=%s replay=%s no-failing-input-found\n", id, path)
			violations++
		}
	}
	// return statements whose postconditions were discharged on infeasible paths only
	var deadReturns []string
	coverChecked := 0
	for _, r := range results {
		coverChecked += r.CoverChecked
		sort.Strings(r.DeadReturns)
		for _, p := range r.DeadReturns {
			deadReturns = append(deadReturns, r.Key+" @ "+strings.TrimPrefix(p, L.repoDir+"/"))
		}
	}
	for _, d := range deadReturns {
		ok := false
		for suf := range ps.DeadOK {
			if strings.HasSuffix(d, suf) {
				ok = true
			}
		}
		if !ok {
			fmt.Printf("VACUITY-WARNING unreachable return %s (every path to it contradicts the contracts and assumptions: postconditions there hold vacuously; review, then list it under unreachable-ok in the spec)\n", d)
		}
	}
	var newBaseline []string
	replays := 0
	boundedRuns := 0
	const maxReplays = 6
	for _, g := range groups {
		solverSecs += g.Seconds
		// (only for obligations the unchanged tree does not have under this name: one that was
		// discharged at baseline and fails now is reported, stale requires or not)
		isStale := droppedReq[g.Fn] && baseline != nil && !baseline[g.Name]
		for _, o := range g.Instances {
			if strings.Contains(o.Goal.S, "specerr!") {
				isStale = true
			}
			for _, t := range o.PC {
				if strings.Contains(t.S, "specerr!") {
					isStale = true
				}
			}
		}
		if isStale && g.Status != "discharged" {
			// the contract no longer binds to the (changed) code: for functions over
			// plain data the clause is checked on the real code over an enumerated
			// input space instead (bounded stand-in, never counted as a proof)
			if g.Class == "POST" && !*update && boundedRuns < 6 {
				if rep := tryBoundedCheck(L, id, g); rep != nil {
					boundedRuns++
					if rep.Reproduced {
						total++
						o := g.firstFailing()
						if o == nil {
							o = g.Instances[0]
						}
						path := writeReplayFile(id, o, rep, "contract stale for this function (its loop invariants name locals that no longer exist); the clause was checked on the real code over an enumerated input space")
						fmt.Printf("FAILED %s (%s) at %s: %s\n", g.Name, g.Class, o.Pos, o.Info)
						fmt.Printf("  replay: %s\n", rep.Summary)
						fmt.Printf("VIOLATION property=%s replay=%s\n", id, path)
						violations++
						continue
					}
					stale = append(stale, g.Name+" ["+rep.Summary+"]")
					continue
				}
			}
			stale = append(stale, g.Name)
			continue
		}
		switch g.Status {
		case "discharged":
			newBaseline = append(newBaseline, g.Name)
			if baseline == nil || baseline[g.Name] || *update {
				total++
				discharged++
				backends[g.Solver]++
			} else {
				// newly discharged, not yet in the committed claim set
				total++
				discharged++
				backends[g.Solver]++
			}
		case "known":
			what := g.Name
			for _, k := range known {
				if k.Obligation == g.Name {
					what = k.What
				}
			}
			knownLines = append(knownLines, fmt.Sprintf("KNOWN-FINDING: property=%s %s [obligation %s]", id, what, g.Name))
		case "failed":
			total++
			o := g.firstFailing()
			var rep *ReplayResult
			if replays < maxReplays {
				rep = tryReplay(L, id, g, o)
				if rep == nil {
					rep = tryWitness(L, o)
				}
				replays++
			} else {
				rep = &ReplayResult{Summary: fmt.Sprintf("replay skipped: more than %d failing obligations in this run", maxReplays)}
			}
			path := writeReplayFile(id, o, rep, "")
			suffix := ""
			if rep == nil || !rep.Reproduced {
				suffix = " no-failing-input-found"
			}
			fmt.Printf("FAILED %s (%s) at %s: %s\n", g.Name, g.Class, o.Pos, o.Info)
			if rep != nil {
				fmt.Printf("  replay: %s\n", rep.Summary)
			}
			fmt.Printf("VIOLATION property=%s replay=%s%s\n", id, path, suffix)
			violations++
		default: // undecided
			var relO *Oblig
			var relRep *ReplayResult
			if !*update && replays < maxReplays {
				relO, relRep = tryRelaxedReplay(L, id, g)
				if relRep != nil {
					replays++
				}
			}
			if relRep != nil && relRep.Reproduced {
				// undecided by the solvers, but a candidate input fails on the real code
				total++
				path := writeReplayFile(id, relO, relRep, "obligation undecided by the solvers ("+solverOutcome(g.firstFailing())+"); a candidate input from the relaxed query reproduces the failure on the real code")
				fmt.Printf("FAILED %s (%s) at %s: %s\n", g.Name, g.Class, relO.Pos, relO.Info)
				fmt.Printf("  replay: %s\n", relRep.Summary)
				fmt.Printf("VIOLATION property=%s replay=%s\n", id, path)
				violations++
			} else if baseline != nil && baseline[g.Name] && !*update {
				total++
				o := g.firstFailing()
				path := writeReplayFile(id, o, nil, "obligation was discharged on the baseline tree and is no longer provable (solver: "+solverOutcome(o)+")")
				fmt.Printf("REGRESSED %s (%s): discharged at baseline, now undecided\n", g.Name, g.Class)
				fmt.Printf("VIOLATION property=%s replay=%s no-failing-input-found\n", id, path)
				violations++
			} else if w := tryWitness(L, g.firstFailing()); w != nil && w.Reproduced {
				// not provable, no model from the solver, but a witness-pool
				// input attached to this obligation fails on the real code
				total++
				o := g.firstFailing()
				path := writeReplayFile(id, o, w, "obligation undecided by the solvers; witness-pool input reproduces the failure")
				fmt.Printf("FAILED %s (%s) at %s: %s\n", g.Name, g.Class, o.Pos, o.Info)
				fmt.Printf("  replay: %s\n", w.Summary)
				fmt.Printf("VIOLATION property=%s replay=%s\n", id, path)
				violations++
			} else {
				n := g.Name
				if g.Class == "LEMMA" && len(g.Instances) == 0 {
					n += " [" + g.Info + "]"
				}
				undecided = append(undecided, n)
			}
		}
		if len(samples) < 400 {
			samples = append(samples, obSample{g.Name, g.Class, g.Status, g.Solver, round3(g.Seconds), len(g.Instances), g.Pos})
		}
	}
	// baseline names that disappeared
	if baseline != nil {
		have := map[string]bool{}
		for _, g := range groups {
			have[g.Name] = true
		}
		var missing []string
		for n := range baseline {
			if !have[n] {
				missing = append(missing, n)
			}
		}
		sort.Strings(missing)
		for _, n := range missing {
			fmt.Printf("MISSING-OBLIGATION %s (in baseline, not generated from the current tree)\n", n)
		}
	}
	for _, l := range knownLines {
		fmt.Println(l)
	}
	for _, n := range undecided {
		fmt.Printf("UNDECIDED %s (not in the claimed set)\n", n)
	}
	for _, n := range stale {
		fmt.Printf("STALE %s (contract no longer binds to the code; not decided)\n", n)
	}
	if *update {
		sort.Strings(newBaseline)
		os.MkdirAll(filepath.Join(verifDir, "baseline"), 0o755)
		b, _ := json.MarshalIndent(Baseline{Property: id, Discharged: newBaseline}, "", " ")
		os.WriteFile(filepath.Join(verifDir, "baseline", id+".json"), b, 0o644)
	}
	wall := time.Since(start).Seconds()
	writeEvidence(id, *tier, ps, cs, results, groups, samples, total, discharged, violations, undecided, stale, knownLines, backends, solverSecs, wall)
	fmt.Printf("govc: property=%s tier=%s functions=%d obligations=%d discharged=%d undecided=%d known=%d violations=%d wall=%.1fs\n",
		id, *tier, len(results), total, discharged, len(undecided), len(knownLines), violations, wall)
	if *verbose {
		for _, g := range groups {
			fmt.Printf("  %-10s %-6s %s [%s %s]\n", g.Status, g.Class, g.Name, g.Solver, fmtSecs(g.Seconds))
		}
	}
	if violations > 0 {
		return 1
	}
	if total == 0 {
		fmt.Println("govc: zero obligations generated — refusing to report success")
		return 2
	}
	return 0
}

func solverOutcome(o *Oblig) string {
	if o == nil || o.Result == nil {
		return "not run"
	}
	return strings.Join(o.Result.Tried, " ")
}

func round3(f float64) float64 { return float64(int(f*1000+0.5)) / 1000 }

func writeEvidence(id, tier string, ps *PropSpec, cs *ContractSet, results []*FuncResult, groups []*Group, samples []obSample,
	total, discharged, violations int, undecided, stale, knownLines []string, backends map[string]int, solverSecs, wall float64) {
	var fns []string
	libUsed := map[string]bool{}
	notes := map[string]int{}
	classCount := map[string]int{}
	for _, r := range results {
		tag := ""
		if !r.HasContract {
			tag = " (no contract: safety obligations only)"
		}
		fns = append(fns, r.Key+tag)
		for _, l := range r.LibUsed {
			libUsed[l] = true
		}
		for n, c := range r.Notes {
			notes[n] += c
		}
	}
	for _, g := range groups {
		if g.Status == "discharged" {
			classCount[g.Class]++
		}
	}
	var trusted []string
	for l := range libUsed {
		trusted = append(trusted, l)
	}
	sort.Strings(trusted)
	trusted = append(trusted,
		"govc itself (VC generator written for this task; defended by the must-fail selftest corpus and by replay)",
		"SMT solvers z3 5.1.0 / cvc5 1.0.3 / z3 4.8.12",
		"go/ssa (x/tools v0.29.0) translation of the source to SSA",
		"integers are mathematical (no wrap-around) except explicit conversions",
		"slices have value semantics (no aliasing between distinct slice values after append)",
	)
	for _, a := range ps.Assume {
		trusted = append(trusted, a)
	}
	assumptions := []string{}
	var noteList []string
	for n, c := range notes {
		noteList = append(noteList, fmt.Sprintf("%s (x%d)", n, c))
	}
	sort.Strings(noteList)
	assumptions = append(assumptions, noteList...)
	for _, s := range cs.Scan {
		assumptions = append(assumptions, "contract-file scan: "+s)
	}
	for _, n := range ps.NotDecided {
		assumptions = append(assumptions, "not decided by this check: "+n)
	}
	coverChecked := 0
	var deadReturns []string
	for _, r := range results {
		coverChecked += r.CoverChecked
		for _, p := range r.DeadReturns {
			deadReturns = append(deadReturns, r.Key+" @ "+p)
		}
	}
	assumptions = append(assumptions, fmt.Sprintf("vacuity guard: %d return statements with discharged postconditions were checked for reachability (path condition not refuted); unreachable: %d", coverChecked, len(deadReturns)))
	for _, d := range deadReturns {
		assumptions = append(assumptions, "unreachable return (postconditions vacuous there): "+d)
	}
	ev := map[string]interface{}{
		"property_id": id,
		"tier":        tier,
		"seed":        solverSeed,
		"level":       "proof",
		"wall_s":      round3(wall),
		"violations":  violations,
		"assumptions": assumptions,
		"coverage": map[string]interface{}{
			"obligations":              total,
			"discharged":               discharged,
			"checker_cmd":              fmt.Sprintf("bin/govc check --property %s --tier %s", id, tier),
			"trusted_base":             trusted,
			"functions_under_contract": fns,
			"discharged_by_class":      classCount,
			"discharged_by_back_end":   backends,
			"solver_s":                 round3(solverSecs),
			"attempted_not_claimed":    nz(undecided),
			"stale_contracts":          nz(stale),
			"known_findings":           nz(knownLines),
			"bounded_parts":            nz(ps.Bounded),
			"not_decided":              nz(ps.NotDecided),
			"samples":                  samples,
			"contract_files":           cs.Files,
		},
	}
	os.MkdirAll(filepath.Join(outDir(), "evidence"), 0o755)
	b, _ := json.MarshalIndent(ev, "", " ")
	os.WriteFile(filepath.Join(outDir(), "evidence", id+".json"), b, 0o644)
}

// runStructural / runLemmas are filled in by structural.go / lemma.go.

func nz(s []string) []string {
	if s == nil {
		return []string{}
	}
	return s
}
