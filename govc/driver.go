package main

// Verification of one function: entry state, exit obligations, discharge.

import (
	"fmt"
	"os"
	"go/types"
	"path/filepath"
	"sort"
	"strings"
	"sync"
	"time"

	"golang.org/x/tools/go/ssa"
)

type FuncResult struct {
	Key       string
	Pkg       string
	Fn        *ssa.Function
	Obls      []*Oblig
	Notes     map[string]int
	LibUsed   []string
	Paths     int
	Truncated bool
	HasContract bool
	SpecErrors []string
	// requires clauses that no longer bind to the code (an identifier they name disappeared) and
	// were therefore not assumed: what fails in this function afterwards is "contract stale",
	// not a violation
	StaleRequires []string
	Vacuity   *Oblig
	Decls     string
	Exec      *Exec
	// return statements (source positions) that no path reaches without
	// contradicting the assumptions made on the way: every postcondition
	// there is discharged vacuously
	DeadReturns []string
	CoverChecked int
}

type VerifyOpts struct {
	Classes map[string]bool
	Budget  int
}

func allClasses() map[string]bool {
	return map[string]bool{"SAFE": true, "POST": true, "CALL": true, "INV": true, "SEQ": true, "OWN": true, "LOCK": true, "FRAME": true, "TERM": true}
}

// VerifyFunction generates the obligations of fn under its contract.
// VerifyFunction never lets a construct outside the engine's subset take the
// whole check down: a panic while generating the conditions of one function
// makes that function "not decided" (reported like a stale contract), and the
// other functions are still checked.
func VerifyFunction(L *Loaded, cs *ContractSet, fn *ssa.Function, opts VerifyOpts, known []KnownFinding) (res *FuncResult) {
	defer func() {
		if r := recover(); r != nil {
			key := pkgShort(FuncPkgPath(fn)) + "." + FuncKey(fn)
			res = &FuncResult{Key: key, Notes: map[string]int{}, SpecErrors: []string{fmt.Sprintf("engine limitation: condition generation stopped (%v); the function is not decided", r)}}
		}
	}()
	return verifyFunction(L, cs, fn, opts, known)
}

func verifyFunction(L *Loaded, cs *ContractSet, fn *ssa.Function, opts VerifyOpts, known []KnownFinding) *FuncResult {
	ctr := cs.Funcs[FuncPkgPath(fn)+"."+FuncKey(fn)]
	strMode := "seq"
	byteBV := false
	if ctr != nil {
		if ctr.StrMode != "" {
			strMode = ctr.StrMode
		}
		byteBV = ctr.ByteBV
	}
	if pm, ok := cs.PkgMode[FuncPkgPath(fn)]; ok && (ctr == nil || ctr.StrMode == "") {
		strMode = pm.StrMode
		byteBV = pm.ByteBV
	}
	d := NewDecls()
	te := NewTypeEnv(d, strMode, byteBV)
	x := &Exec{L: L, d: d, te: te, cs: cs, fn: fn, ctr: ctr, budget: opts.Budget, notes: map[string]int{},
		entryHeap: map[string]Term{}, inputs: map[string]Term{}, classes: opts.Classes, oblCount: map[string]int{},
		funcsUsed: map[string]bool{}, executedInPlace: map[*ssa.Function]bool{}, exclusions: map[string]Term{}}
	if x.budget == 0 {
		x.budget = 4000
	}
	x.fnKey = FuncPkgPathShort(fn) + "." + FuncKey(fn)
	if len(fn.TypeArgs()) > 0 {
		var as []string
		for _, t := range fn.TypeArgs() {
			as = append(as, shortTypeName(t))
		}
		x.fnKey += "[" + strings.Join(as, ",") + "]"
	} else if r := rootFn(fn); len(r.TypeArgs()) > 0 {
		var as []string
		for _, t := range r.TypeArgs() {
			as = append(as, shortTypeName(t))
		}
		x.fnKey += "[" + strings.Join(as, ",") + "]"
	}
	res := &FuncResult{Key: x.fnKey, Pkg: FuncPkgPath(fn), Fn: fn, HasContract: ctr != nil, Exec: x}
	L.indexDebugRefs(fn)
	x.errAxioms()

	st := &State{cells: map[*Cell]Val{}, esc: map[*Cell]bool{}, heap: map[string]Term{}, ghost: map[string]Term{}, stopped: False}
	st.topBase = Term{"top0", "Int"}
	d.DeclareFun("top0", "(declare-const top0 Int)")
	st.assume(Ge(st.topBase, IntLit(0)))
	var params []Val
	for _, p := range fn.Params {
		v := x.freshVal(st, "in_"+p.Name(), p.Type())
		v.Org = "param:" + p.Name()
		switch p.Type().Underlying().(type) {
		case *types.Pointer, *types.Map, *types.Chan:
			x.knownRef(st, v.T)
		}
		x.inputs[p.Name()] = v.T
		params = append(params, v)
		if sig, ok := p.Type().Underlying().(*types.Signature); ok && isYieldSig(sig) && strings.HasPrefix(p.Name(), "yield") {
			st.seqOn = true
			if sig.Params().Len() >= 1 {
				// ghost sequence of the items handed to the consumer (empty so far)
				x.yieldGhost(st, x.te.SortOf(sig.Params().At(0).Type()))
			}
			st.assume(Not(Eq(Term{fmt.Sprintf("(fid %s)", v.T.S), "Int"}, IntLit(0))))
			x.funcsUsed["assume:iterator protocol: the consumer (yield) handed to an iterator is non-nil"] = true
		}
	}
	x.entryParams = params
	// sentinel error globals are non-nil and pairwise distinct (trusted)
	x.sentinelFacts(st)

	x.fvPtrs = map[*ssa.FreeVar]Val{}
	x.fvCells = map[string]*Cell{}
	for _, fv := range fn.FreeVars {
		T := fv.Type().(*types.Pointer).Elem()
		c := x.newCell(fv.Name(), T, fv.Pos())
		if !capturedImmutable(fn, fv) {
			st.esc[c] = true
		}
		v := x.freshVal(st, "fv_"+fv.Name(), T)
		v.Org = "param:" + fv.Name()
		st.cells[c] = v
		x.fvCells[fv.Name()] = c
		x.inputs[fv.Name()] = v.T
		x.fvPtrs[fv] = Val{Loc: &Loc{Kind: LCell, Cell: c, Elem: T}, Typ: fv.Type()}
		// a captured strings.Builder holds some text already when the closure runs
		if n, ok := T.(*types.Named); ok && n.Obj().Pkg() != nil && n.Obj().Pkg().Path() == "strings" && n.Obj().Name() == "Builder" && x.te.StrSort == "String" {
			st.ghost[fmt.Sprintf("sb:%d", c.id)] = x.d.Fresh("sb_"+fv.Name(), "String")
		}
	}
	fr0 := &Frame{fn: fn, params: params, isEntry: true, vals: map[ssa.Value]Val{}}
	env := x.entryEnv(fr0, st)
	for n, c := range x.fvCells {
		env.vars[n] = st.cells[c]
	}
	var specErrs []string
	env.errs = &specErrs
	if ctr != nil {
		for _, pn := range ctr.Private {
			for _, fv := range fn.FreeVars {
				if fv.Name() != pn {
					continue
				}
				T := fv.Type().(*types.Pointer).Elem()
				if pt, ok := T.Underlying().(*types.Pointer); ok {
					if _, isStruct := pt.Elem().Underlying().(*types.Struct); isStruct {
						if c, ok := x.fvCells[pn]; ok {
							x.privateRefs = append(x.privateRefs, privateRef{st.cells[c].T, pt.Elem()})
							x.funcsUsed["assume:separation: the object captured as "+pn+" by "+x.fnKey+" is not reachable by foreign code"] = true
						}
					}
				}
			}
			for i, p := range fn.Params {
				if p.Name() == pn {
					if pt, ok := p.Type().Underlying().(*types.Pointer); ok {
						if _, isStruct := pt.Elem().Underlying().(*types.Struct); isStruct {
							x.privateRefs = append(x.privateRefs, privateRef{params[i].T, pt.Elem()})
							x.addPrivateFields(st, params[i].T, pt.Elem())
							x.funcsUsed["assume:separation: the object passed as "+pn+" to "+x.fnKey+" is not reachable by the backend or other foreign code (its fields survive foreign calls)"] = true
						}
					}
				}
			}
		}
	}
	// object invariants of the receiver (or of the captured receiver of a closure)
	for _, inv := range x.objInvsFor(fn, params, st) {
		st.assume(inv)
	}
	if ctr != nil {
		for _, c := range ctr.Requires {
			// a requires clause that no longer binds to the code (an
			// identifier disappeared) is dropped, not assumed: fewer
			// assumptions is sound, and the obligations stay decidable
			var errs []string
			env.errs = &errs
			scratch := st.clone()
			env.st = scratch
			t := x.evalBool(env, c.Expr)
			env.st = st
			env.errs = &specErrs
			if len(errs) > 0 {
				x.note("stale requires dropped (does not bind to the code): %s", c.Src)
				res.StaleRequires = append(res.StaleRequires, c.Src)
				delete(x.notes, "spec-error: "+errs[0])
				continue
			}
			st.pc = scratch.pc
			st.assume(t)
		}
	}
	for _, a := range cs.Axioms {
		if strings.HasSuffix(filepath.Dir(a.File), pkgShort(FuncPkgPath(fn))) || true {
			aenv := &Env{x: x, st: st, vars: map[string]Val{}, pkg: x.pkgOf(fn)}
			st.assume(x.evalBool(aenv, a.Expr))
		}
	}
	if ctr != nil {
		st.held = append(st.held, x.holdsKeys(ctr, env)...)
		x.entryHeld = len(st.held)
	}
	// known-finding exclusions for this function
	for _, kf := range known {
		if strings.HasPrefix(kf.Obligation, x.fnKey+"/") && kf.ExcludedInput != "" {
			e, err := ParseSpecExpr(kf.ExcludedInput)
			if err != nil {
				specErrs = append(specErrs, "known finding: "+err.Error())
				continue
			}
			x.exclusions[kf.Obligation] = x.evalBool(env, e)
		}
	}
	// vacuity: requires ∧ type invariants must be satisfiable
	res.Vacuity = &Oblig{Name: x.fnKey + "/vacuity(requires satisfiable)", Class: "VACUITY", Fn: x.fnKey, Goal: False, PC: st.pc[:len(st.pc):len(st.pc)]}

	oldSt := st.clone()
	if ctr != nil && ctr.Trusted {
		x.note("trusted: body of %s not verified", x.fnKey)
	} else {
		x.runEntry(fn, st, params, oldSt, &specErrs)
	}
	res.Obls = x.obls
	res.Notes = x.notes
	for k := range x.funcsUsed {
		res.LibUsed = append(res.LibUsed, k)
	}
	sort.Strings(res.LibUsed)
	res.Paths = x.paths
	res.Truncated = x.truncated
	res.SpecErrors = specErrs
	res.Decls = d.Snapshot()
	return res
}

// objInvsOf: the object invariants of a receiver type that apply to fn (a
// `public-invariant` does not bind helpers that run under the caller's lock).
func (x *Exec) objInvsOf(key string, fn *ssa.Function) []*Clause {
	all := x.cs.ObjInvs[key]
	if len(all) == 0 || fn == nil {
		return all
	}
	ctr := x.contractFor(rootFn(fn))
	if ctr == nil || len(ctr.Holds) == 0 {
		return all
	}
	var out []*Clause
	for _, c := range all {
		if c.Kind != "public-invariant" {
			out = append(out, c)
		}
	}
	return out
}

// objInvsFor evaluates the object invariants that apply to fn's receiver
// (for a closure: the captured variable holding the enclosing method's receiver).
func (x *Exec) objInvsFor(fn *ssa.Function, params []Val, st *State) []Term {
	root := rootFn(fn)
	recv := root.Signature.Recv()
	if recv == nil {
		return nil
	}
	tn := recvTypeName(recv.Type())
	invs := x.objInvsOf(FuncPkgPath(fn)+"."+tn, fn)
	if len(invs) == 0 {
		return nil
	}
	var self Val
	found := false
	if fn == root {
		self, found = params[0], true
	} else {
		for _, fv := range fn.FreeVars {
			T := fv.Type().(*types.Pointer).Elem()
			if types.Identical(T, recv.Type()) {
				if c, ok := x.fvCells[fv.Name()]; ok {
					self, found = st.cells[c], true
				}
			}
		}
	}
	if !found {
		return nil
	}
	env := &Env{x: x, st: st, vars: map[string]Val{"self": self}, pkg: x.pkgOf(fn)}
	var out []Term
	for _, c := range invs {
		out = append(out, x.evalBool(env, c.Expr))
	}
	x.funcsUsed["assume:object invariant of "+tn+" holds on entry (established by its constructor, fields unexported)"] = true
	return out
}

// capturedImmutable: the captured variable is a parameter of an enclosing
// function that is assigned only by its parameter spill, and no closure that
// captures it stores to it — so nobody can change it behind the closure's back.
func capturedImmutable(fn *ssa.Function, fv *ssa.FreeVar) bool {
	idx := -1
	for i, f := range fn.FreeVars {
		if f == fv {
			idx = i
		}
	}
	parent := fn.Parent()
	if idx < 0 || parent == nil {
		return false
	}
	var binding ssa.Value
	for _, b := range parent.Blocks {
		for _, in := range b.Instrs {
			if mc, ok := in.(*ssa.MakeClosure); ok && mc.Fn == ssa.Value(fn) && idx < len(mc.Bindings) {
				binding = mc.Bindings[idx]
			}
		}
	}
	switch b := binding.(type) {
	case *ssa.FreeVar:
		return capturedImmutable(parent, b)
	case *ssa.Alloc:
		var mcs []*ssa.MakeClosure
		for _, blk := range parent.Blocks {
			for _, in := range blk.Instrs {
				if mc, ok := in.(*ssa.MakeClosure); ok && mc.Fn == ssa.Value(fn) {
					mcs = append(mcs, mc)
				}
			}
		}
		idxOf := func(in ssa.Instruction) int {
			for i, x := range in.Block().Instrs {
				if x == in {
					return i
				}
			}
			return -1
		}
		reach := func(from, to *ssa.BasicBlock) bool {
			seen := map[*ssa.BasicBlock]bool{}
			stack := append([]*ssa.BasicBlock(nil), from.Succs...)
			for len(stack) > 0 {
				n := stack[len(stack)-1]
				stack = stack[:len(stack)-1]
				if seen[n] {
					continue
				}
				seen[n] = true
				if n == to {
					return true
				}
				stack = append(stack, n.Succs...)
			}
			return false
		}
		for _, blk := range parent.Blocks {
			for _, in := range blk.Instrs {
				switch in := in.(type) {
				case *ssa.Store:
					if in.Addr != ssa.Value(b) {
						continue
					}
					for _, mc := range mcs {
						sb, mb := in.Block(), mc.Block()
						// the store can never run after the closure was made
						if reach(mb, sb) || (sb == mb && idxOf(in) > idxOf(mc)) {
							return false
						}
					}
				case *ssa.MakeClosure:
					inner := in.Fn.(*ssa.Function)
					sv := storedFreeVars(inner)
					for i, bnd := range in.Bindings {
						if bnd == ssa.Value(b) && i < len(inner.FreeVars) && sv[inner.FreeVars[i]] {
							return false
						}
					}
				case *ssa.Call:
					for _, a := range in.Call.Args {
						if a == ssa.Value(b) {
							return false
						}
					}
				}
			}
		}
		return len(mcs) > 0
	}
	return false
}

func recvTypeName(T types.Type) string {
	if p, ok := T.(*types.Pointer); ok {
		T = p.Elem()
	}
	if n, ok := T.(*types.Named); ok {
		return n.Obj().Name()
	}
	return T.String()
}

// entryNames: parameters and captured variables of the function under
// verification, by source name (captured variables with their current value).
func (x *Exec) entryNames(st *State) map[string]Val {
	out := map[string]Val{}
	for i, p := range x.fn.Params {
		if i < len(x.entryParams) {
			out[p.Name()] = x.entryParams[i]
		}
	}
	for n, c := range x.fvCells {
		if v, ok := st.cells[c]; ok {
			out[n] = v
		}
	}
	return out
}

func rootFn(f *ssa.Function) *ssa.Function {
	for f.Parent() != nil {
		f = f.Parent()
	}
	return f
}

func isYieldSig(sig *types.Signature) bool {
	if sig.Results().Len() != 1 || !isBoolType(sig.Results().At(0).Type()) {
		return false
	}
	n := sig.Params().Len()
	return n >= 1 && n <= 2
}

func (x *Exec) globalStructFacts(st *State) {
	for g, fields := range x.L.globalStructs {
		key := x.globalKey(g)
		if !x.L.immutableGlobal[key] {
			continue
		}
		T := g.Type().(*types.Pointer).Elem()
		if _, ok := T.Underlying().(*types.Struct); !ok {
			continue
		}
		si := x.te.Struct(T)
		gt := x.heapGet(st, key, si.Sort)
		for _, f := range fields {
			cv := x.constVal(f.Const)
			st.assume(Eq(si.Get(gt, f.Field), cv.T))
		}
		x.funcsUsed["struct:value of "+g.Name()+" read off the package initialiser (never reassigned)"] = true
	}
}

// errGlobalFacts: what the package initialiser says about the standard
// error values (dynamic type *WireError, their code and message).
func (x *Exec) errGlobalFacts(st *State) {
	if x.te.StrSort != "String" {
		return
	}
	var gs []*ssa.Global
	for g := range x.L.errGlobals {
		gs = append(gs, g)
	}
	sort.Slice(gs, func(i, j int) bool { return gs[i].Name() < gs[j].Name() })
	strT := types.Typ[types.String]
	for _, g := range gs {
		e := x.L.errGlobals[g]
		key := x.globalKey(g)
		if !x.L.immutableGlobal[key] {
			continue
		}
		gt := x.heapGet(st, key, "Iface")
		T := lookupType(x.L, "ociregistry", "WireError")
		if T == nil {
			continue
		}
		st.assume(Term{fmt.Sprintf("(= (itag %s) %d)", gt.S, x.te.TagOf(types.NewPointer(T))), "Bool"})
		ref := Term{fmt.Sprintf("(ival %s)", gt.S), "Int"}
		st.assume(Gt(ref, IntLit(0)))
		si := x.te.Struct(T)
		for i, fn := range si.FNames {
			k, sort := x.fieldComp(si, i)
			switch fn {
			case "Code_":
				st.assume(Eq(Select(x.heapGet(st, k, sort), ref), StrLit(e.Code)))
			case "Message":
				st.assume(Eq(Select(x.heapGet(st, k, sort), ref), StrLit(e.Msg)))
			}
		}
		x.privateRefs = append(x.privateRefs, privateRef{ref, T})
		if x.cs.IfacePure["Code"] {
			c := x.uninterp(st, "im_Code", []Val{{T: gt, Typ: g.Type().(*types.Pointer).Elem()}}, strT)
			st.assume(Eq(c.T, StrLit(e.Code)))
		}
	}
	if len(gs) > 0 {
		x.funcsUsed["struct:standard error values (dynamic type, code, message) read off the package initialiser; the objects are never modified"] = true
	}
}

func (x *Exec) sentinelFacts(st *State) {
	x.globalStructFacts(st)
	x.errGlobalFacts(st)
	var errs []Term
	for _, sp := range x.L.spkgs {
		if !x.L.isRepoPkg(sp.Pkg) {
			continue
		}
		var names []string
		for n := range sp.Members {
			names = append(names, n)
		}
		sort.Strings(names)
		for _, n := range names {
			g, ok := sp.Members[n].(*ssa.Global)
			if !ok || !strings.HasPrefix(n, "Err") {
				continue
			}
			T := g.Type().(*types.Pointer).Elem()
			if _, ok := T.Underlying().(*types.Interface); !ok {
				continue
			}
			key := x.globalKey(g)
			if !x.L.immutableGlobal[key] {
				continue
			}
			t := x.heapGet(st, key, "Iface")
			errs = append(errs, t)
			st.assume(Not(Eq(t, NilIface)))
		}
	}
	// package-level errors built once by errors.New / fmt.Errorf in the
	// package initialiser and never reassigned: non-nil, and wrapping the
	// error given to %w
	var ngs []*ssa.Global
	for g := range x.L.newErrGlobals {
		ngs = append(ngs, g)
	}
	sort.Slice(ngs, func(i, j int) bool { return ngs[i].String() < ngs[j].String() })
	for _, g := range ngs {
		key := x.globalKey(g)
		if !x.L.immutableGlobal[key] {
			continue
		}
		if _, loaded := x.L.spkgs[g.Pkg.Pkg.Path()]; !loaded {
			continue
		}
		t := x.heapGet(st, key, "Iface")
		st.assume(Not(Eq(t, NilIface)))
		if w := x.L.newErrGlobals[g]; w != nil && x.L.immutableGlobal[x.globalKey(w)] {
			st.assume(x.errIs(t, x.heapGet(st, x.globalKey(w), "Iface")))
		}
		x.funcsUsed["struct:package-level error "+g.Name()+" read off the package initialiser (errors.New / fmt.Errorf result, never reassigned): non-nil, wraps its %w operand"] = true
	}
	if len(errs) > 1 {
		var ss []string
		for _, e := range errs {
			ss = append(ss, e.S)
		}
		st.assume(Term{"(distinct " + strings.Join(ss, " ") + ")", "Bool"})
	}
	if len(errs) > 0 {
		x.funcsUsed["assume:exported Err* sentinel globals are non-nil, pairwise distinct and never reassigned outside init"] = true
	}
}

func (x *Exec) runEntry(fn *ssa.Function, st *State, params []Val, oldSt *State, specErrs *[]string) {
	for i := range params {
		if params[i].Org == "" {
			params[i].Org = "param:" + fn.Params[i].Name()
		}
	}
	fr := &Frame{fn: fn, vals: map[ssa.Value]Val{}, depth: 0, loops: computeLoops(fn), params: params, isEntry: true}
	fr.onReturn = func(s *State, rs []Val) {
		x.paths++
		x.retPos = x.curPos
		x.exitObligations(fr, s, rs, oldSt, specErrs)
	}
	for i, p := range fn.Params {
		fr.vals[p] = params[i]
	}
	for fv, pv := range x.fvPtrs {
		fr.vals[fv] = pv
	}
	x.inlineStack = []*ssa.Function{fn}
	if len(fn.Blocks) == 0 {
		return
	}
	x.runBlock(fr, st, fn.Blocks[0], nil, 0)
}

func (x *Exec) exitObligations(fr *Frame, st *State, rs []Val, oldSt *State, specErrs *[]string) {
	ctr := x.ctr
	oldEnv := x.entryEnv(fr, oldSt)
	oldEnv.errs = specErrs
	oldEnv.fr = nil
	env := x.entryEnv(fr, st)
	env.errs = specErrs
	env.fr = x.exitFrame // locals of the function at the return (by source name)
	env.old = oldEnv
	env.results = rs
	env.hasRes = true
	env.events = st.calls
	env.eventsUnknown = st.callsUnknown
	oldEnv.events = st.calls
	sig := fr.fn.Signature
	for i := 0; i < sig.Results().Len() && i < len(rs); i++ {
		if n := sig.Results().At(i).Name(); n != "" && n != "_" {
			env.vars[n] = rs[i]
		}
	}
	// free variables of a closure entry: current and old contents
	for _, fv := range fr.fn.FreeVars {
		if pv, ok := fr.vals[fv]; ok && pv.Loc != nil {
			T := fv.Type().(*types.Pointer).Elem()
			env.vars[fv.Name()] = x.load(st, pv.Loc, T)
			oldEnv.vars[fv.Name()] = x.load(oldSt, pv.Loc, T)
		}
	}
	if ctr != nil {
		for i, c := range ctr.Ensures {
			name := c.Label
			if name == "" {
				name = c.Src
			}
			_ = i
			g := x.evalBool(env, c.Expr)
			x.curPos = x.retPos
			x.oblige(st, "POST", "post("+name+")", g, "postcondition")
		}
		if ctr.HasMod {
			ok, has := st.ghost["frameok"]
			if !has {
				ok = True
			}
			x.curPos = x.retPos
			x.oblige(st, "FRAME", "frame(modifies clause respected)", ok, "a store on this path lies outside the declared modifies clause")
		}
	}
	// every method re-establishes the object invariant of its receiver
	if root := rootFn(fr.fn); root == fr.fn && root.Signature.Recv() != nil && len(fr.params) > 0 {
		tn := recvTypeName(root.Signature.Recv().Type())
		if invs := x.objInvsOf(FuncPkgPath(fr.fn)+"."+tn, fr.fn); len(invs) > 0 {
			ienv := &Env{x: x, st: st, vars: map[string]Val{"self": fr.params[0]}, pkg: x.pkgOf(fr.fn)}
			for _, c := range invs {
				g := x.evalBool(ienv, c.Expr)
				x.curPos = x.retPos
				x.oblige(st, "INV", fmt.Sprintf("preserves-invariant(%s: %s)", tn, c.Src), g, "the receiver's object invariant must hold again when the method returns")
			}
		}
	}
	// constructors establish object invariants: every object allocated on
	// this path whose type has an invariant satisfies it at the return
	var freshKeys []string
	for k := range st.ghost {
		if strings.HasPrefix(k, "fresh:") {
			freshKeys = append(freshKeys, k)
		}
	}
	sort.Strings(freshKeys)
	for _, k := range freshKeys {
		ref := k[len("fresh:"):]
		T, ok := x.freshTypes[ref]
		if !ok {
			continue
		}
		// only objects handed out through the results
		escapes := false
		for _, r := range rs {
			if strings.Contains(r.T.S, ref) {
				escapes = true
			}
			for _, t := range r.Tup {
				if strings.Contains(t.T.S, ref) {
					escapes = true
				}
			}
		}
		if !escapes {
			continue
		}
		n, ok := T.(*types.Named)
		if !ok || n.Obj().Pkg() == nil {
			continue
		}
		invs := x.cs.ObjInvs[n.Obj().Pkg().Path()+"."+n.Obj().Name()]
		if len(invs) == 0 {
			continue
		}
		ienv := &Env{x: x, st: st, vars: map[string]Val{"self": {T: Term{ref, "Int"}, Typ: types.NewPointer(T)}}, pkg: n.Obj().Pkg()}
		for _, c := range invs {
			g := x.evalBool(ienv, c.Expr)
			x.curPos = x.retPos
			x.oblige(st, "INV", fmt.Sprintf("establishes-invariant(%s: %s)", n.Obj().Name(), c.Src), g, "an object constructed here must satisfy its type's invariant when the function returns")
		}
	}
	// O-OWN: everything obtained has been closed, returned or handed on
	for _, o := range st.owned {
		returned := false
		for _, r := range rs {
			if r.T.S == o.t.S {
				returned = true
			}
			// ... or handed back inside a returned value (a wrapper struct that holds it)
			if strings.Contains(r.T.S, o.t.S) || (r.Dyn != nil && strings.Contains(r.Dyn.T.S, o.t.S)) {
				returned = true
			}
		}
		if returned {
			continue
		}
		x.oblige(st, "OWN", "closed("+o.desc+")", Not(o.cond), "a reader/writer obtained from "+o.desc+" is neither closed nor returned on this path")
	}
	// O-LOCK: nothing held at exit; atomic methods lock at most once
	if x.classes["LOCK"] {
		if len(st.held) != x.entryHeld {
			x.oblige(st, "LOCK", "released-at-exit", False, "the set of held mutexes at return differs from the one at entry")
		}
		if ctr != nil && ctr.Atomic {
			// critical sections on the receiver's own mutex type (nested
			// locks of other objects inside the section do not count)
			n := 0
			tn := ""
			if recv := rootFn(fr.fn).Signature.Recv(); recv != nil {
				tn = recvTypeName(recv.Type())
			}
			for _, l := range st.lockLog {
				if strings.HasPrefix(l, "callee:") || tn == "" || strings.Contains(l, "#"+tn+".") {
					n++
				}
			}
			x.oblige(st, "LOCK", "atomic(single critical section)", BoolLit(n <= 1), "method declared atomic enters more than one critical section")
		}
	}
}

// ---------------------------------------------------------------------------
// Discharge

type Discharger struct {
	Timeout time.Duration
	All     bool
	Workers int
}

func buildQuery(decls string, pc []Term, goal Term, extra ...Term) string {
	var b strings.Builder
	b.WriteString(decls)
	for _, t := range pc {
		if t.S == "true" {
			continue
		}
		b.WriteString("(assert ")
		b.WriteString(t.S)
		b.WriteString(")\n")
	}
	for _, t := range extra {
		b.WriteString("(assert ")
		b.WriteString(t.S)
		b.WriteString(")\n")
	}
	b.WriteString("(assert (not ")
	b.WriteString(goal.S)
	b.WriteString("))\n")
	return b.String()
}

func (dg *Discharger) Run(results []*FuncResult) {
	type job struct {
		o     *Oblig
		decls string
		x     *Exec
	}
	var jobs []job
	for _, r := range results {
		for _, o := range r.Obls {
			jobs = append(jobs, job{o, r.Decls, r.Exec})
		}
		if r.Vacuity != nil {
			jobs = append(jobs, job{r.Vacuity, r.Decls, r.Exec})
		}
	}
	ch := make(chan job)
	var wg sync.WaitGroup
	// once several instances of one obligation are not provable the obligation is not discharged
	// whatever the others say: the remaining instances are not sent to the solvers (a heavily
	// changed function can have thousands of instances, each running into the timeout)
	var gmu sync.Mutex
	notProved := map[string]int{}
	const maxNotProved = 8
	n := dg.Workers
	if n == 0 {
		n = 16
	}
	for i := 0; i < n; i++ {
		wg.Add(1)
		go func() {
			defer wg.Done()
			for j := range ch {
				o := j.o
				if o.Goal.S == "true" {
					o.Result = &SolverResult{Answer: "unsat", Solver: "syntactic"}
					continue
				}
				gkey := o.Fn + "/" + o.Name
				if o.Class != "VACUITY" {
					gmu.Lock()
					skip := notProved[gkey] >= maxNotProved
					gmu.Unlock()
					if skip {
						o.Result = &SolverResult{Answer: "unknown", Solver: "not tried", Output: "not tried: several instances of this obligation are already not provable"}
						continue
					}
				}
				q := buildQuery(j.decls, o.PC, o.Goal)
				o.Query = q
				if o.Class != "VACUITY" && !strings.Contains(o.Goal.S, "(forall") && !strings.Contains(o.Goal.S, "(exists") {
					// first try with the quantifier-free part of the path
					// condition only (fewer assumptions: a proof from them is
					// a proof); it keeps easy goals away from the quantifier engine
					var ground []Term
					nq := 0
					for _, t := range o.PC {
						if strings.Contains(t.S, "(forall") || strings.Contains(t.S, "(exists") {
							nq++
							continue
						}
						ground = append(ground, t)
					}
					if nq > 0 {
						r0 := Solve(buildQuery(j.decls, ground, o.Goal), 2*time.Second, false)
						if r0.Answer == "unsat" {
							o.Result = &r0
							continue
						}
					}
				}
				r := Solve(q, dg.Timeout, dg.All && o.Class != "VACUITY")
				o.Result = &r
				if o.Class == "VACUITY" {
					continue
				}
				if r.Answer != "unsat" {
					if ex, ok := j.x.exclusions[o.Name]; ok {
						q2 := buildQuery(j.decls, o.PC, o.Goal, Not(ex))
						r2 := Solve(q2, dg.Timeout, false)
						if r2.Answer == "unsat" {
							o.Known = true
							o.Excl = ex.S
						}
					}
					if !o.Known {
						gmu.Lock()
						notProved[gkey]++
						gmu.Unlock()
					}
				}
			}
		}()
	}
	for _, j := range jobs {
		ch <- j
	}
	close(ch)
	wg.Wait()
	dg.cover(results)
}

// cover: reachability of each return statement at which a postcondition was
// discharged. For every (function, return position) the path condition of
// one path must be satisfiable (or at least not refuted): if the solver
// refutes the path condition of every path to it, the obligations there hold
// vacuously and the position is reported.
func (dg *Discharger) cover(results []*FuncResult) {
	type key struct {
		r   *FuncResult
		pos string
	}
	groups := map[key][]*Oblig{}
	var order []key
	for _, r := range results {
		// every path that ends at a return yields one instance of each
		// postcondition there: the instances of one of them stand for the paths
		chosen := map[string]string{}
		for _, o := range r.Obls {
			if o.Class != "POST" || o.Pos == "" || o.Result == nil {
				continue
			}
			if n, ok := chosen[o.Pos]; ok && n != o.Name {
				continue
			}
			chosen[o.Pos] = o.Name
			k := key{r, o.Pos}
			if _, ok := groups[k]; !ok {
				order = append(order, k)
			}
			groups[k] = append(groups[k], o)
		}
	}
	var mu sync.Mutex
	var wg sync.WaitGroup
	sem := make(chan struct{}, 16)
	for _, k := range order {
		k := k
		wg.Add(1)
		sem <- struct{}{}
		go func() {
			defer wg.Done()
			defer func() { <-sem }()
			dead := true
			for _, o := range groups[k] {
				q := buildQuery(k.r.Decls, o.PC, False)
				res := Solve(q, time.Second, false)
				if res.Answer != "unsat" {
					dead = false
					break
				}
			}
			mu.Lock()
			k.r.CoverChecked++
			if dead {
				k.r.DeadReturns = append(k.r.DeadReturns, k.pos)
				if dir := os.Getenv("GOVC_DEBUG_COVER"); dir != "" && len(groups[k]) > 0 {
					os.WriteFile(filepath.Join(dir, "dead_"+sanitize(filepath.Base(k.pos))+".smt2"), []byte(buildQuery(k.r.Decls, groups[k][0].PC, False)+"(check-sat)\n"), 0o644)
				}
			}
			mu.Unlock()
		}()
	}
	wg.Wait()
}

func lastPC(o *Oblig) string {
	if len(o.PC) == 0 {
		return ""
	}
	return shortHash(o.PC[len(o.PC)-1].S)
}

// Group merges the per-path instances of one named obligation.
type Group struct {
	Name      string
	Class     string
	Fn        string
	Instances []*Oblig
	Status    string // discharged, failed, undecided, known
	Solver    string
	Seconds   float64
	Pos       string
	Info      string
}

func groupObligations(results []*FuncResult) []*Group {
	m := map[string]*Group{}
	var order []string
	for _, r := range results {
		for _, o := range r.Obls {
			g, ok := m[o.Name]
			if !ok {
				g = &Group{Name: o.Name, Class: o.Class, Fn: o.Fn, Pos: o.Pos, Info: o.Info}
				m[o.Name] = g
				order = append(order, o.Name)
			}
			g.Instances = append(g.Instances, o)
		}
	}
	var out []*Group
	for _, n := range order {
		g := m[n]
		g.Status = "discharged"
		solvers := map[string]bool{}
		for _, o := range g.Instances {
			if o.Result == nil {
				g.Status = "undecided"
				continue
			}
			g.Seconds += o.Result.Seconds
			solvers[strings.TrimSuffix(o.Result.Solver, " (cached)")] = true
			switch {
			case o.Result.Answer == "unsat":
			case o.Known:
				if g.Status == "discharged" {
					g.Status = "known"
				}
			case o.Result.Answer == "sat":
				g.Status = "failed"
			default:
				if o.Class == "LOCK" || o.Class == "FRAME" || o.Class == "TERM" || strings.Contains(o.Name, "/invariant-at-unlock(") {
					// structural obligations (goal false unless the path is
					// infeasible): a path that is not proved infeasible fails
					g.Status = "failed"
				} else if g.Status != "failed" {
					g.Status = "undecided"
				}
			}
		}
		var ss []string
		for s := range solvers {
			ss = append(ss, s)
		}
		sort.Strings(ss)
		g.Solver = strings.Join(ss, "+")
		out = append(out, g)
	}
	return out
}

func (g *Group) firstFailing() *Oblig {
	for _, o := range g.Instances {
		if o.Result != nil && o.Result.Answer == "sat" && !o.Known {
			return o
		}
	}
	for _, o := range g.Instances {
		if o.Result == nil || (o.Result.Answer != "unsat" && !o.Known) {
			return o
		}
	}
	return nil
}

func fmtSecs(s float64) string { return fmt.Sprintf("%.2fs", s) }
