package main

// Symbolic executor over go/ssa (NaiveForm): per-path VC generation.

import (
	"fmt"
	"go/constant"
	"go/token"
	"go/types"
	"regexp"
	"sort"
	"strings"

	"golang.org/x/tools/go/ssa"
)

type Cell struct {
	id   int
	name string
	typ  types.Type
	pos  token.Pos
}

type LocKind int

const (
	LCell LocKind = iota
	LField
	LSub
	LElem
	LSliceElem
	LGlobal
	LHeapCell
)

type Loc struct {
	Kind   LocKind
	Cell   *Cell
	Base   Term // LField / LHeapCell: pointer term
	ST     types.Type
	Idx    int
	Parent *Loc
	I      Term
	SliceV Term
	Elem   types.Type
	Global *ssa.Global
	Table  string
}

type Closure struct {
	Fn       *ssa.Function
	Bindings []Val
}

type Val struct {
	T     Term
	Typ   types.Type
	Tup   []Val
	Loc   *Loc
	Clo   *Closure
	SFn   *ssa.Function
	Dyn   *Val
	Org   string
	Src   *Loc
	From  *CallEvent // for a Seq value: the call that produced it
	Idx   Term       // for an element of a constant function table: the index
	Elems []Val      // for a slice built from a local array literal: its elements (Go-side)
	Fresh bool       // a slice whose backing array was allocated by this function (make, append to nil, io.ReadAll): shared with nobody yet
	ShrLen Term      // for a re-slice x[lo:hi] of a slice that came in as a parameter: how far the caller's view of the backing array reaches (len(x)-lo); an append onto it may write into the caller's bytes
}

type CallEvent struct {
	Snap      *State // state at the moment of the call (logged contract calls): what the arguments pointed to then
	Kind      string // "fn", "invoke", "static"
	FnTerm    Term
	Recv      Term
	Method    string
	Static    *ssa.Function
	Args      []Val
	Results   []Val
	Desc      string
	Org       string
	From      *CallEvent
	IfaceName string
	NoHavoc   bool
}

// named: is this a logged call of the method, function or func-typed field
// of that name (ncallsOf, ncallsAfter, lastOf)?
func (ev *CallEvent) named(n string) bool {
	if ev.Method == n || (ev.Static != nil && ev.Static.Name() == n) {
		return true
	}
	if ev.Kind == "fn" {
		if i := strings.LastIndex(ev.Desc, "."); ev.Desc[i+1:] == n {
			return true
		}
	}
	return false
}

type deferRec struct {
	call *ssa.CallCommon
	args []Val
	fn   Val
	pos  token.Pos
}

type lockEv struct {
	lock string // textual identity of the mutex location term
}

type State struct {
	pc             []Term
	cells          map[*Cell]Val
	esc            map[*Cell]bool
	heap           map[string]Term
	calls          []*CallEvent
	callsUnknown   bool
	held           []string   // ghost lock set (terms of mutex locations)
	lockLog        []string   // Lock events (for atomic)
	owned          []ownedRec // O-OWN
	stopped        Term       // O-SEQ ghost flag (producer side)
	seqOn          bool
	topN           int // fresh refs allocated on this path
	topBase        Term
	depth          int
	ghost          map[string]Term
	loopHeads      map[int]*State // state at the head of the current iteration of a loop with `step` clauses
	loopEntries    map[string]*State // state on first arrival at a loop head (before the havoc), for atEntry(...) in its invariants
	guardedOutside []string
	condIdx        []int                   // indices into pc that are branch conditions
	pend           string                  // goal of the last obligation (its assumption is a branch condition)
	epoch          string                  // id of the last heap havoc on this path
	modEpoch       []modEpoch              // partial havocs (modifies items) since then
	arrElems       map[*Cell]map[int64]Val // Go-side view of local array literals (varargs)
	resp           []RespEvent             // ghost HTTP response: header sets, status, body writes
}

type modEpoch struct {
	item string
	id   string
}

type RespEvent struct {
	Kind string // "header", "status", "body", "bodycopy"
	Key  string
	KeyT Term
	Val  Term
}

type ownedRec struct {
	t    Term // identity (Iface term or ref)
	desc string
	cond Term // owned only when cond holds
}

func (st *State) clone() *State {
	n := &State{
		pc:             st.pc[:len(st.pc):len(st.pc)],
		cells:          make(map[*Cell]Val, len(st.cells)),
		esc:            make(map[*Cell]bool, len(st.esc)),
		heap:           make(map[string]Term, len(st.heap)),
		calls:          st.calls[:len(st.calls):len(st.calls)],
		callsUnknown:   st.callsUnknown,
		held:           append([]string(nil), st.held...),
		lockLog:        append([]string(nil), st.lockLog...),
		owned:          append([]ownedRec(nil), st.owned...),
		stopped:        st.stopped,
		seqOn:          st.seqOn,
		topN:           st.topN,
		topBase:        st.topBase,
		depth:          st.depth,
		ghost:          make(map[string]Term, len(st.ghost)),
		guardedOutside: append([]string(nil), st.guardedOutside...),
		condIdx:        st.condIdx[:len(st.condIdx):len(st.condIdx)],
		resp:           st.resp[:len(st.resp):len(st.resp)],
		epoch:          st.epoch,
		modEpoch:       st.modEpoch[:len(st.modEpoch):len(st.modEpoch)],
	}
	if len(st.loopEntries) > 0 {
		n.loopEntries = make(map[string]*State, len(st.loopEntries))
		for k, v := range st.loopEntries {
			n.loopEntries[k] = v
		}
	}
	if len(st.loopHeads) > 0 {
		n.loopHeads = make(map[int]*State, len(st.loopHeads))
		for k, v := range st.loopHeads {
			n.loopHeads[k] = v
		}
	}
	if len(st.arrElems) > 0 {
		n.arrElems = make(map[*Cell]map[int64]Val, len(st.arrElems))
		for c, m := range st.arrElems {
			m2 := make(map[int64]Val, len(m))
			for k, v := range m {
				m2[k] = v
			}
			n.arrElems[c] = m2
		}
	}
	for k, v := range st.cells {
		n.cells[k] = v
	}
	for k, v := range st.esc {
		n.esc[k] = v
	}
	for k, v := range st.heap {
		n.heap[k] = v
	}
	for k, v := range st.ghost {
		n.ghost[k] = v
	}
	return n
}

func (st *State) assume(t Term) {
	if t.S == "true" || t.S == "" {
		return
	}
	if st.pend != "" && t.S == st.pend {
		// the assumption that follows a safety obligation acts as a branch
		// condition (the path continues only if the check passed)
		st.condIdx = append(st.condIdx, len(st.pc))
		st.pend = ""
	}
	st.pc = append(st.pc, t)
}

func (st *State) assumeCond(t Term) {
	if t.S == "true" || t.S == "" {
		return
	}
	st.condIdx = append(st.condIdx, len(st.pc))
	st.pc = append(st.pc, t)
}

type Frame struct {
	fn          *ssa.Function
	vals        map[ssa.Value]Val
	defers      []deferRec
	onReturn    func(st *State, results []Val)
	onPanic     func(st *State)
	depth       int
	clo         *Closure
	params      []Val
	isEntry     bool
	loops       *loopInfo
	inlinedFrom string
	auto        map[*ssa.BasicBlock][]autoInv
}

func (fr *Frame) clone() *Frame {
	n := *fr
	n.vals = make(map[ssa.Value]Val, len(fr.vals)+8)
	for k, v := range fr.vals {
		n.vals[k] = v
	}
	n.defers = append([]deferRec(nil), fr.defers...)
	return &n
}

type Oblig struct {
	Name   string
	Class  string
	Fn     string
	Goal   Term
	PC     []Term
	Pos    string
	Info   string
	Result *SolverResult
	Query  string
	Known  bool
	Inputs map[string]Term // named inputs for replay
	Claim  bool
	Excl   string // precondition exclusion applied (known finding)
	x      *Exec
}

type Exec struct {
	L               *Loaded
	d               *Decls
	te              *TypeEnv
	cs              *ContractSet
	fn              *ssa.Function
	ctr             *Contract
	obls            []*Oblig
	paths           int
	budget          int
	notes           map[string]int
	cellN           int
	entryHeap       map[string]Term
	entryParams     []Val
	inputs          map[string]Term
	classes         map[string]bool
	oblCount        map[string]int
	fnKey           string
	truncated       bool
	curPos          token.Pos
	inlineStack     []*ssa.Function
	extraAssume     []Term
	resultVals      []Val
	funcsUsed       map[string]bool
	trusted         map[string]bool
	executedInPlace map[*ssa.Function]bool
	exclusions      map[string]Term
	loopMaps        []*types.Map // map types updated in the loop being entered (scratch of loopEffects)
	loopOwnCode     bool         // the loop body runs own code with undeclared heap effects (scratch of loopEffects)
	loopMods        []string     // declared frames of the own callees of the loop body (scratch of loopEffects)
	fvCells         map[string]*Cell
	fvPtrs          map[*ssa.FreeVar]Val
	immutKeys       map[string]bool
	outerVals       map[string]Val
	specDepth       int
	retPos          token.Pos
	exitFrame       *Frame
	privateRefs     []privateRef
	epochN          int
	freshTypes      map[string]types.Type
	sortedBy        map[string]func(a, b Term) (Term, []Term, bool)
	entryHeld       int
	refComp         map[string]string
	closedDone      map[string]bool
}

type privateRef struct {
	Ref Term
	T   types.Type
}

func (x *Exec) note(format string, a ...interface{}) {
	x.notes[fmt.Sprintf(format, a...)]++
}

func (x *Exec) newCell(name string, typ types.Type, pos token.Pos) *Cell {
	x.cellN++
	return &Cell{id: x.cellN, name: name, typ: typ, pos: pos}
}

func (x *Exec) fresh(prefix string, T types.Type) Term {
	s := x.te.SortOf(T)
	if tp, ok := T.(*types.TypeParam); ok {
		x.d.DeclareSort(s, fmt.Sprintf("(declare-sort %s 0)", s))
		_ = tp
	}
	return x.d.Fresh(prefix, s)
}

// freshVal returns a fresh symbolic value of type T with its range fact assumed.
func (x *Exec) freshVal(st *State, prefix string, T types.Type) Val {
	if tup, ok := T.(*types.Tuple); ok {
		v := Val{Typ: T}
		for i := 0; i < tup.Len(); i++ {
			v.Tup = append(v.Tup, x.freshVal(st, fmt.Sprintf("%s_%d", prefix, i), tup.At(i).Type()))
		}
		return v
	}
	t := x.fresh(prefix, T)
	st.assume(x.te.RangeFact(T, t))
	return Val{T: t, Typ: T}
}

// ---------------------------------------------------------------------------
// Heap components

func (x *Exec) heapGet(st *State, key, sort string) Term {
	if t, ok := st.heap[key]; ok {
		return t
	}
	t, ok := x.entryHeap[key]
	if !ok {
		name := "H0_" + sanitize(key)
		x.d.DeclareFun(name, fmt.Sprintf("(declare-const %s %s)", name, sort))
		t = Term{name, sort}
		x.entryHeap[key] = t
	}
	if !((strings.HasPrefix(key, "G_") && x.L.immutableGlobal[key]) || x.immutComp(key)) {
		id := st.epoch
		for _, me := range st.modEpoch {
			if modifiesMatch(me.item, key) {
				id = me.id
			}
		}
		if id != "" {
			// first touched after a havoc: its content is that havoc's, not the entry heap's
			name := "Hh" + id + "_" + sanitize(key)
			x.d.DeclareFun(name, fmt.Sprintf("(declare-const %s %s)", name, sort))
			t = Term{name, sort}
		}
	}
	st.heap[key] = t
	x.closedFact(st, key, t)
	return t
}

func (x *Exec) fieldComp(si *StructInfo, idx int) (string, string) {
	key := "F_" + si.Sort + "__" + sanitize(si.FNames[idx])
	if isRefType(si.FTypes[idx]) {
		x.markRefComp(key, "")
	}
	return key, ArraySort("Int", si.FSorts[idx])
}

func isRefType(T types.Type) bool {
	switch T.Underlying().(type) {
	case *types.Pointer, *types.Map, *types.Chan:
		return true
	}
	return false
}

func (x *Exec) markRefComp(key, keySort string) {
	if x.refComp == nil {
		x.refComp = map[string]string{}
	}
	x.refComp[key] = keySort
}

// closedFact: every reference stored in a heap component was allocated
// before "now" (so it differs from anything allocated later on this path).
func (x *Exec) closedFact(st *State, key string, t Term) {
	ks, ok := x.refComp[key]
	if !ok {
		return
	}
	if st.topBase.IsZero() {
		st.topBase = Term{"top0", "Int"}
		x.d.DeclareFun("top0", "(declare-const top0 Int)")
	}
	if !regexp.MustCompile(`^[A-Za-z0-9_!]+$`).MatchString(t.S) {
		return // only for named component symbols (entry heap, post-havoc heaps)
	}
	top := fmt.Sprintf("(+ %s %d)", st.topBase.S, st.topN)
	if x.closedDone == nil {
		x.closedDone = map[string]bool{}
	}
	if x.closedDone[t.S] {
		return
	}
	x.closedDone[t.S] = true
	// the component symbol and the allocation mark are constants: a global fact
	if ks == "" {
		x.d.Axiom(fmt.Sprintf("(forall ((i_h Int)) (! (<= (select %s i_h) %s) :pattern ((select %s i_h))))", t.S, top, t.S))
	} else {
		x.d.Axiom(fmt.Sprintf("(forall ((m_h Int) (k_h %s)) (! (<= (select (select %s m_h) k_h) %s) :pattern ((select (select %s m_h) k_h))))", ks, t.S, top, t.S))
	}
}

func (x *Exec) cellComp(T types.Type) (string, string) {
	s := x.te.SortOf(T)
	return "C_" + sanitize(s), ArraySort("Int", s)
}

func (x *Exec) mapComps(T *types.Map) (hasKey, hasSort, valKey, valSort string) {
	ks, vs := x.te.SortOf(T.Key()), x.te.SortOf(T.Elem())
	// components are per Go key/element type (not per sort): maps of
	// different Go types can never alias
	// (an injective rendering: "[]string" and "string" must not collide)
	enc := func(t types.Type) string {
		r := strings.NewReplacer("[]", "Sl_", "*", "P_", "map[", "Map_", "]", "_", "[", "Arr")
		return sanitize(r.Replace(canonTypeName(t)))
	}
	n := enc(T.Key()) + "__" + enc(T.Elem())
	if isRefType(T.Elem()) {
		x.markRefComp("Mval_"+n, ks)
	}
	return "Mhas_" + n, ArraySort("Int", ArraySort(ks, "Bool")), "Mval_" + n, ArraySort("Int", ArraySort(ks, vs))
}

// havocHeap replaces every heap component by a fresh array (the effect of an
// unknown callee).  Escaped cells are havocked too.
func (x *Exec) havocHeap(st *State, why string) {
	x.note("heap havoc: %s", why)
	// objects declared private to the verified function keep their fields
	type keep struct {
		key string
		ref Term
		old Term
	}
	// Only code that is foreign to the verified package is kept out of private
	// objects: a havoc that stands for the package's own code (a callee
	// without a frame, a loop body, invocations of one of its closures) may
	// have written to them.
	foreign := strings.HasPrefix(why, "foreign call") || why == "consumer" || why == "go" || why == "bodyless" || why == "clear"
	privRefs := x.privateRefs
	if !foreign {
		privRefs = nil
	}
	var keeps []keep
	for _, pr := range privRefs {
		si := x.te.Struct(pr.T)
		for i := range si.Acc {
			key, sort := x.fieldComp(si, i)
			keeps = append(keeps, keep{key, pr.Ref, Select(x.heapGet(st, key, sort), pr.Ref)})
		}
	}
	// ... and the contents of the maps they hold (directly, or inside a struct-valued field)
	var mapKeeps []keep
	var addMaps func(T types.Type, v Term, depth int)
	addMaps = func(T types.Type, v Term, depth int) {
		switch u := T.Underlying().(type) {
		case *types.Map:
			hk, hs, vk, vs := x.mapComps(u)
			mapKeeps = append(mapKeeps, keep{hk, v, Select(x.heapGet(st, hk, hs), v)}, keep{vk, v, Select(x.heapGet(st, vk, vs), v)})
		case *types.Struct:
			if depth > 2 {
				return
			}
			si := x.te.Struct(T)
			for i, ft := range si.FTypes {
				addMaps(ft, si.Get(v, i), depth+1)
			}
		}
	}
	for _, pr := range privRefs {
		si := x.te.Struct(pr.T)
		for i, ft := range si.FTypes {
			key, sort := x.fieldComp(si, i)
			addMaps(ft, Select(x.heapGet(st, key, sort), pr.Ref), 0)
		}
	}
	defer func() {
		for _, k := range append(keeps, mapKeeps...) {
			if cur, ok := st.heap[k.key]; ok {
				st.assume(Eq(Select(cur, k.ref), k.old))
			}
		}
	}()
	for k, t := range st.heap {
		if strings.HasPrefix(k, "G_") && x.L.immutableGlobal[k] {
			continue
		}
		if x.immutComp(k) {
			continue
		}
		st.heap[k] = x.d.Fresh("hv_"+k, t.Sort)
	}
	// components not yet touched on this path must also change identity:
	// mark by a per-path epoch so heapGet hands out fresh symbols.
	for k, t := range x.entryHeap {
		if _, ok := st.heap[k]; !ok {
			if (strings.HasPrefix(k, "G_") && x.L.immutableGlobal[k]) || x.immutComp(k) {
				continue
			}
			st.heap[k] = x.d.Fresh("hv_"+k, t.Sort)
		}
	}
	x.epochN++
	st.epoch = fmt.Sprintf("%d", x.epochN)
	st.modEpoch = nil
	for c := range st.esc {
		if foreign && x.privateCell(c) {
			// declared `private`: only calls handed its address directly change it
			continue
		}
		if v, ok := st.cells[c]; ok {
			nv := x.freshVal(st, "esc_"+c.name, c.typ)
			nv.Typ = v.Typ
			st.cells[c] = nv
		}
	}
	// the callee may allocate
	oldTop := Term{"0", "Int"}
	if !st.topBase.IsZero() {
		oldTop = Term{fmt.Sprintf("(+ %s %d)", st.topBase.S, st.topN), "Int"}
	}
	st.topBase = x.d.Fresh("top", "Int")
	st.assume(Ge(st.topBase, oldTop))
	st.topN = 0
	for k, t := range st.heap {
		x.closedFact(st, k, t)
	}
}

// immutComp: heap components of fields declared `immutable` survive havoc.
// The declaration itself is checked package-wide (structural obligation
// immutable(T.f): no store outside the allocating function).
func (x *Exec) immutComp(k string) bool {
	if strings.HasPrefix(k, "GH_") {
		// ghost state of objects created and owned by the verified package
		// (hash states): only their own operations change it
		return true
	}
	if x.immutKeys == nil {
		x.immutKeys = map[string]bool{}
		for key := range x.cs.Immut {
			// key: pkgpath.Type.field
			j := strings.LastIndexByte(key, '.')
			tf := key[:j]
			i := strings.LastIndexByte(tf, '.')
			pkgPath, tn, fn := tf[:i], tf[i+1:], key[j+1:]
			x.immutKeys["F_S_"+sanitize(pkgShort(pkgPath)+"_"+tn)+"__"+sanitize(fn)] = true
		}
	}
	return x.immutKeys[k]
}

// addPrivateFields: the objects a private object points to directly (pointer
// fields to structs) are private too.
func (x *Exec) addPrivateFields(st *State, ref Term, T types.Type) {
	si := x.te.Struct(T)
	for i, ft := range si.FTypes {
		pt, ok := ft.Underlying().(*types.Pointer)
		if !ok {
			continue
		}
		if _, isStruct := pt.Elem().Underlying().(*types.Struct); !isStruct {
			continue
		}
		key, sort := x.fieldComp(si, i)
		x.privateRefs = append(x.privateRefs, privateRef{Select(x.heapGet(st, key, sort), ref), pt.Elem()})
	}
}

// isFresh: the reference is one of the objects allocated on this path.
func (x *Exec) isFresh(st *State, ref Term) Term {
	var alts []Term
	for k := range st.ghost {
		if strings.HasPrefix(k, "fresh:") {
			alts = append(alts, Eq(ref, Term{k[len("fresh:"):], "Int"}))
		}
	}
	sort.Slice(alts, func(i, j int) bool { return alts[i].S < alts[j].S })
	return Or(alts...)
}

func (x *Exec) freshRef(st *State) Term {
	if st.topBase.IsZero() {
		st.topBase = Term{"top0", "Int"}
		x.d.DeclareFun("top0", "(declare-const top0 Int)")
	}
	st.topN++
	return Term{fmt.Sprintf("(+ %s %d)", st.topBase.S, st.topN), "Int"}
}

// knownRef states that a pointer loaded from memory or passed in was
// allocated before "now".
func (x *Exec) knownRef(st *State, t Term) {
	if st.topBase.IsZero() {
		st.topBase = Term{"top0", "Int"}
		x.d.DeclareFun("top0", "(declare-const top0 Int)")
	}
	st.assume(Term{fmt.Sprintf("(<= %s (+ %s %d))", t.S, st.topBase.S, st.topN), "Bool"})
}

// ---------------------------------------------------------------------------
// Locations

func (x *Exec) addrTerm(st *State, v *Val) Term {
	if !v.T.IsZero() {
		return v.T
	}
	if v.Loc != nil && v.Loc.Kind == LCell {
		return IntLit(int64(-1000 - v.Loc.Cell.id))
	}
	t := x.d.Fresh("addr", "Int")
	st.assume(Lt(t, IntLit(-1000000)))
	v.T = t
	return t
}

func (x *Exec) locOfPointer(st *State, p Val, elem types.Type) *Loc {
	if p.Loc != nil {
		return p.Loc
	}
	return &Loc{Kind: LHeapCell, Base: p.T, Elem: elem}
}

func (x *Exec) load(st *State, l *Loc, T types.Type) Val {
	switch l.Kind {
	case LCell:
		v, ok := st.cells[l.Cell]
		if !ok {
			v = x.freshVal(st, "cell_"+l.Cell.name, l.Cell.typ)
			st.cells[l.Cell] = v
		}
		if v.Typ == nil {
			v.Typ = T
		}
		v.Src = l
		return v
	case LField:
		si := x.te.Struct(l.ST)
		key, sort := x.fieldComp(si, l.Idx)
		arr := x.heapGet(st, key, sort)
		v := Val{T: Select(arr, l.Base), Typ: T, Src: l}
		v.Org = "field:" + x.fieldKey(l.ST, l.Idx)
		x.lockCheck(st, l, "read")
		x.loadFacts(st, v)
		return v
	case LSub:
		pv := x.load(st, l.Parent, l.ST)
		si := x.te.Struct(l.ST)
		v := Val{T: si.Get(pv.T, l.Idx), Typ: T, Src: l}
		v.Org = "field:" + x.fieldKey(l.ST, l.Idx)
		return v
	case LElem:
		pv := x.load(st, l.Parent, nil)
		return Val{T: Select(pv.T, l.I), Typ: T, Src: l}
	case LSliceElem:
		v := Val{T: Select(sliceArr(l.SliceV), l.I), Typ: T, Src: l}
		if l.Table != "" {
			v.Org = "tableelem:" + l.Table
			v.Idx = l.I
		}
		return v
	case LGlobal:
		key := x.globalKey(l.Global)
		if T == nil {
			// loaded as the parent of an element access: the global's own type
			if pt, ok := l.Global.Type().(*types.Pointer); ok {
				T = pt.Elem()
			}
		}
		t := x.heapGet(st, key, x.te.SortOf(T))
		v := Val{T: t, Typ: T, Org: "global:" + l.Global.Pkg.Pkg.Name() + "." + l.Global.Name()}
		x.loadFacts(st, v)
		if gn := l.Global.Name(); t.Sort == "Iface" && !x.L.isRepoPkg(l.Global.Pkg.Pkg) && x.L.immutableGlobal[key] &&
			(gn == "EOF" || strings.HasPrefix(gn, "Err") || gn == "Canceled" || gn == "DeadlineExceeded" || gn == "DefaultTransport") {
			// a sentinel error of the standard library: a non-nil value made
			// once at start-up (so different from any error made later)
			st.assume(Not(Eq(t, NilIface)))
			x.d.DeclareFun("top0", "(declare-const top0 Int)")
			st.assume(Term{fmt.Sprintf("(<= (ival %s) top0)", t.S), "Bool"})
			x.funcsUsed["struct:standard-library sentinel "+l.Global.Pkg.Pkg.Name()+"."+gn+" is a non-nil error created at start-up and never reassigned"] = true
		}
		if tbl, ok := x.L.funcTables[key]; ok && x.L.immutableGlobal[key] {
			v.Org = "table:" + key
			n := IntLit(int64(len(tbl)))
			st.assume(And(Eq(sliceLen(t), n), Eq(sliceCap(t), n), Not(sliceNil(t))))
			x.funcsUsed["struct:function table "+l.Global.Name()+" read off the package initialiser (never reassigned)"] = true
		}
		return v
	case LHeapCell:
		if stt, ok := T.Underlying().(*types.Struct); ok && stt != nil {
			si := x.te.Struct(T)
			fs := make([]Term, len(si.Acc))
			for i := range si.Acc {
				key, sort := x.fieldComp(si, i)
				fs[i] = Select(x.heapGet(st, key, sort), l.Base)
			}
			return Val{T: si.Make(fs), Typ: T, Src: l}
		}
		key, sort := x.cellComp(T)
		v := Val{T: Select(x.heapGet(st, key, sort), l.Base), Typ: T, Src: l}
		x.loadFacts(st, v)
		return v
	}
	panic("load: bad loc")
}

func (x *Exec) loadFacts(st *State, v Val) {
	if v.Typ == nil {
		return
	}
	switch v.Typ.Underlying().(type) {
	case *types.Pointer, *types.Map, *types.Chan:
		x.knownRef(st, v.T)
		st.assume(Ge(v.T, IntLit(0)))
	case *types.Basic, *types.Interface, *types.Signature, *types.Slice:
		st.assume(x.te.RangeFact(v.Typ, v.T))
	case *types.Struct:
		st.assume(x.te.RangeFact(v.Typ, v.T))
	}
}

// frameAcc: the conjunction of the frame conditions met on this path; it is checked once more
// at the return under a name that does not depend on where the stores are (so that a store
// added by a later change fails an obligation the unchanged tree discharges).
func (x *Exec) frameAcc(st *State, ok Term) {
	prev, has := st.ghost["frameok"]
	if !has {
		prev = True
	}
	st.ghost["frameok"] = And(prev, ok)
}

func (x *Exec) store(st *State, l *Loc, v Val) {
	switch l.Kind {
	case LCell:
		st.cells[l.Cell] = v
	case LField:
		si := x.te.Struct(l.ST)
		key, sort := x.fieldComp(si, l.Idx)
		arr := x.heapGet(st, key, sort)
		x.lockCheck(st, l, "write")
		x.immutCheck(st, l)
		if !x.frameAllows(key) && st.ghost["fresh:"+l.Base.S].S != "true" {
			x.oblige(st, "FRAME", fmt.Sprintf("frame(store to %s at %s)", x.fieldKey(l.ST, l.Idx), x.posText(x.curPos)), x.isFresh(st, l.Base), "store outside the declared modifies clause")
			x.frameAcc(st, x.isFresh(st, l.Base))
		}
		st.heap[key] = Store(arr, l.Base, x.termOf(st, &v))
	case LSub:
		pv := x.load(st, l.Parent, l.ST)
		si := x.te.Struct(l.ST)
		nv := Val{T: si.Set(pv.T, l.Idx, x.termOf(st, &v)), Typ: l.ST}
		x.store(st, l.Parent, nv)
	case LElem:
		pv := x.load(st, l.Parent, nil)
		nv := Val{T: Store(pv.T, l.I, x.termOf(st, &v)), Typ: pv.Typ}
		x.store(st, l.Parent, nv)
		if l.Parent.Kind == LCell {
			if k, ok := modelInt(l.I.S); ok {
				if st.arrElems == nil {
					st.arrElems = map[*Cell]map[int64]Val{}
				}
				if st.arrElems[l.Parent.Cell] == nil {
					st.arrElems[l.Parent.Cell] = map[int64]Val{}
				}
				st.arrElems[l.Parent.Cell][k] = v
			}
		}
	case LSliceElem:
		if l.Parent == nil {
			x.note("outside-subset: store to an element of a slice that is not held in a local or field (lost)")
			return
		}
		sv := l.SliceV
		narr := Store(sliceArr(sv), l.I, x.termOf(st, &v))
		ns := mk(sv.Sort, "mk_"+sv.Sort, narr, sliceLen(sv), sliceCap(sv), sliceNil(sv))
		x.store(st, l.Parent, Val{T: ns, Typ: l.ST})
	case LGlobal:
		st.heap[x.globalKey(l.Global)] = x.termOf(st, &v)
	case LHeapCell:
		if _, ok := l.Elem.Underlying().(*types.Struct); ok {
			si := x.te.Struct(l.Elem)
			for i := range si.Acc {
				key, sort := x.fieldComp(si, i)
				st.heap[key] = Store(x.heapGet(st, key, sort), l.Base, si.Get(v.T, i))
			}
			return
		}
		key, sort := x.cellComp(l.Elem)
		st.heap[key] = Store(x.heapGet(st, key, sort), l.Base, x.termOf(st, &v))
	}
}

func (x *Exec) globalKey(g *ssa.Global) string {
	return "G_" + sanitize(g.Pkg.Pkg.Name()+"_"+g.Name())
}

func (x *Exec) fieldKey(T types.Type, idx int) string {
	st := T.Underlying().(*types.Struct)
	name := shortTypeName(T)
	return name + "." + st.Field(idx).Name()
}

// termOf returns the SMT term of a value, materialising addresses.
func (x *Exec) termOf(st *State, v *Val) Term {
	if !v.T.IsZero() {
		return v.T
	}
	if v.Loc != nil {
		if v.Loc.Kind == LCell {
			st.esc[v.Loc.Cell] = true
		}
		return x.addrTerm(st, v)
	}
	if v.Typ != nil {
		return x.te.Zero(v.Typ)
	}
	return IntLit(0)
}

// ---------------------------------------------------------------------------
// Obligations

func (x *Exec) oblige(st *State, class, name string, goal Term, info string) {
	st.pend = goal.S
	if !x.classes[class] {
		return
	}
	if goal.S == "true" {
		// still count: a trivially true obligation is a discharged one
	}
	pos := ""
	if x.curPos.IsValid() {
		p := x.L.fset.Position(x.curPos)
		pos = fmt.Sprintf("%s:%d", p.Filename, p.Line)
	}
	o := &Oblig{Name: x.fnKey + "/" + name, Class: class, Fn: x.fnKey, Goal: goal, PC: st.pc[:len(st.pc):len(st.pc)], Pos: pos, Info: info, Inputs: x.inputs, x: x}
	x.obls = append(x.obls, o)
}

func (x *Exec) posText(pos token.Pos) string {
	if !pos.IsValid() {
		return ""
	}
	return x.L.sourceText(pos)
}

// ---------------------------------------------------------------------------
// Running a function body

func (x *Exec) value(fr *Frame, st *State, v ssa.Value) Val {
	switch c := v.(type) {
	case *ssa.Const:
		return x.constVal(c)
	case *ssa.Function:
		return Val{T: mk("Fn", "mk_Fn", IntLit(int64(x.te.FnID(c.String()))), IntLit(0)), Typ: c.Type(), SFn: c}
	case *ssa.Global:
		return Val{Loc: &Loc{Kind: LGlobal, Global: c, Elem: c.Type().(*types.Pointer).Elem()}, Typ: c.Type()}
	case *ssa.Builtin:
		return Val{Typ: c.Type()}
	}
	if r, ok := fr.vals[v]; ok {
		return r
	}
	x.note("internal: value %s (%T) not bound in %s", v.Name(), v, fr.fn.Name())
	return x.freshVal(st, "unbound", v.Type())
}

func (x *Exec) constVal(c *ssa.Const) Val {
	T := c.Type()
	if c.Value == nil {
		return Val{T: x.te.Zero(T), Typ: T}
	}
	switch u := T.Underlying().(type) {
	case *types.Basic:
		switch {
		case u.Info()&types.IsBoolean != 0:
			return Val{T: BoolLit(constant.BoolVal(c.Value)), Typ: T}
		case u.Info()&types.IsString != 0:
			return Val{T: x.te.StrConst(constant.StringVal(c.Value)), Typ: T}
		case u.Info()&types.IsInteger != 0:
			if u.Kind() == types.Uint8 && x.te.ByteBV {
				n, _ := constant.Uint64Val(c.Value)
				return Val{T: BVLit(n, 8), Typ: T}
			}
			if n, ok := constant.Int64Val(c.Value); ok {
				return Val{T: IntLit(n), Typ: T}
			}
			if n, ok := constant.Uint64Val(c.Value); ok {
				return Val{T: UintLit(n), Typ: T}
			}
			return Val{T: Term{c.Value.ExactString(), "Int"}, Typ: T}
		case u.Info()&types.IsFloat != 0:
			f, _ := constant.Float64Val(c.Value)
			return Val{T: Term{fmt.Sprintf("%f", f), "Real"}, Typ: T}
		}
	}
	return Val{T: x.te.Zero(T), Typ: T}
}

type loopInfo struct {
	headers map[*ssa.BasicBlock]int                      // header → ordinal
	body    map[*ssa.BasicBlock]map[*ssa.BasicBlock]bool // header → body blocks
}

func computeLoops(fn *ssa.Function) *loopInfo {
	li := &loopInfo{headers: map[*ssa.BasicBlock]int{}, body: map[*ssa.BasicBlock]map[*ssa.BasicBlock]bool{}}
	if len(fn.Blocks) == 0 {
		return li
	}
	var hs []*ssa.BasicBlock
	for _, b := range fn.Blocks {
		for _, p := range b.Preds {
			if b.Dominates(p) {
				if li.body[b] == nil {
					li.body[b] = map[*ssa.BasicBlock]bool{b: true}
					hs = append(hs, b)
				}
				// natural loop of back edge p→b
				stack := []*ssa.BasicBlock{p}
				for len(stack) > 0 {
					n := stack[len(stack)-1]
					stack = stack[:len(stack)-1]
					if li.body[b][n] {
						continue
					}
					li.body[b][n] = true
					stack = append(stack, n.Preds...)
				}
			}
		}
	}
	sort.Slice(hs, func(i, j int) bool { return blockPos(hs[i]) < blockPos(hs[j]) })
	for i, h := range hs {
		li.headers[h] = i
	}
	return li
}

func blockPos(b *ssa.BasicBlock) int {
	// order loop headers by source position of the first positioned
	// instruction in their natural loop header, falling back to block index
	for _, in := range b.Instrs {
		if p := in.Pos(); p.IsValid() {
			return int(p)
		}
	}
	for _, s := range b.Succs {
		for _, in := range s.Instrs {
			if p := in.Pos(); p.IsValid() {
				return int(p)
			}
		}
	}
	return 1<<40 + b.Index
}

const maxInlineDepth = 4

// runFunction symbolically executes fn with the given arguments.
func (x *Exec) runFunction(fn *ssa.Function, st *State, args []Val, clo *Closure, depth int, onReturn func(*State, []Val)) {
	if len(fn.Blocks) == 0 {
		x.note("call of body-less function %s: results havocked", fn.String())
		x.havocHeap(st, "bodyless")
		onReturn(st, x.freshResults(st, fn.Signature))
		return
	}
	fr := &Frame{fn: fn, vals: map[ssa.Value]Val{}, onReturn: onReturn, depth: depth, clo: clo, loops: computeLoops(fn), params: args}
	for i, p := range fn.Params {
		if i < len(args) {
			a := args[i]
			if a.Typ == nil {
				a.Typ = p.Type()
			}
			fr.vals[p] = a
		} else {
			fr.vals[p] = x.freshVal(st, p.Name(), p.Type())
		}
	}
	for i, fv := range fn.FreeVars {
		if clo != nil && i < len(clo.Bindings) {
			fr.vals[fv] = clo.Bindings[i]
		} else {
			// free variable with unknown binding: a pointer to an unknown cell
			c := x.newCell(fv.Name(), fv.Type().(*types.Pointer).Elem(), fv.Pos())
			st.esc[c] = true
			fr.vals[fv] = Val{Loc: &Loc{Kind: LCell, Cell: c, Elem: c.typ}, Typ: fv.Type()}
		}
	}
	x.runBlock(fr, st, fn.Blocks[0], nil, 0)
}

func (x *Exec) freshResults(st *State, sig *types.Signature) []Val {
	var rs []Val
	for i := 0; i < sig.Results().Len(); i++ {
		rs = append(rs, x.freshVal(st, "res", sig.Results().At(i).Type()))
	}
	return rs
}

func (x *Exec) runBlock(fr *Frame, st *State, b *ssa.BasicBlock, from *ssa.BasicBlock, idx int) {
	if x.truncated {
		return
	}
	if idx == 0 && from != nil && fr.isEntry && x.ctr != nil && len(x.ctr.LoopExit) > 0 {
		// control leaves a loop for the code after it: `loop N exit E`
		for h, ord := range fr.loops.headers {
			// (the normal exit: the loop condition, evaluated in the header, is false)
			// ... or a break: an edge from inside the loop to the block the header exits to
			toExit := false
			for _, sc := range h.Succs {
				if sc == b && !fr.loops.body[h][sc] {
					toExit = true
				}
			}
			if cs := x.ctr.LoopExit[ord]; len(cs) > 0 && (from == h || (fr.loops.body[h][from] && toExit)) && !fr.loops.body[h][b] && h != b {
				env := x.loopEnv(fr, st, h)
				for _, c := range cs {
					x.oblige(st, "INV", fmt.Sprintf("loop%d/exit(%s)", ord, c.Src), x.evalBool(env, c.Expr), "condition on leaving the loop")
				}
			}
		}
	}
	if idx == 0 {
		if ord, ok := fr.loops.headers[b]; ok {
			if from != nil && fr.loops.body[b][from] {
				// back edge
				x.loopBackEdge(fr, st, b, ord)
				x.paths++
				return
			}
			if !x.loopEntry(fr, st, b, ord) {
				return
			}
		}
		// phis
		for _, in := range b.Instrs {
			phi, ok := in.(*ssa.Phi)
			if !ok {
				break
			}
			for i, p := range b.Preds {
				if p == from {
					fr.vals[phi] = x.value(fr, st, phi.Edges[i])
				}
			}
		}
	}
	for i := idx; i < len(b.Instrs); i++ {
		in := b.Instrs[i]
		if p := in.Pos(); p.IsValid() {
			x.curPos = p
		}
		switch in := in.(type) {
		case *ssa.Phi, *ssa.DebugRef:
			continue
		case *ssa.Jump:
			x.runBlock(fr, st, b.Succs[0], b, 0)
			return
		case *ssa.If:
			c := x.value(fr, st, in.Cond).T
			if c.S == "true" {
				x.runBlock(fr, st, b.Succs[0], b, 0)
				return
			}
			if c.S == "false" {
				x.runBlock(fr, st, b.Succs[1], b, 0)
				return
			}
			x.paths++
			if x.paths > x.budget {
				x.truncated = true
				x.note("outside-subset: path budget exceeded in %s", x.fnKey)
				return
			}
			st2 := st.clone()
			fr2 := fr.clone()
			st.assumeCond(c)
			x.runBlock(fr, st, b.Succs[0], b, 0)
			st2.assumeCond(Not(c))
			x.runBlock(fr2, st2, b.Succs[1], b, 0)
			return
		case *ssa.Return:
			var rs []Val
			for _, r := range in.Results {
				rs = append(rs, x.value(fr, st, r))
			}
			if fr.isEntry {
				x.exitFrame = fr
			}
			fr.onReturn(st, rs)
			return
		case *ssa.Panic:
			x.panicReached(fr, st, in)
			return
		case *ssa.RunDefers:
			if len(fr.defers) > 0 {
				x.runDefers(fr, st, func(st2 *State, fr2 *Frame) {
					x.runBlock(fr2, st2, b, from, i+1)
				})
				return
			}
		case *ssa.Defer:
			d := deferRec{call: &in.Call, pos: in.Pos()}
			if !in.Call.IsInvoke() {
				d.fn = x.value(fr, st, in.Call.Value)
			} else {
				d.fn = x.value(fr, st, in.Call.Value)
			}
			for _, a := range in.Call.Args {
				d.args = append(d.args, x.value(fr, st, a))
			}
			fr.defers = append(fr.defers, d)
		case *ssa.Go:
			x.note("outside-subset: go statement in %s (spawned function verified separately if under contract; shared state havocked)", fr.fn.Name())
			x.goStmt(fr, st, in)
		case *ssa.Call:
			cont := func(st2 *State, res Val) {
				fr2 := fr.clone()
				fr2.vals[in] = res
				x.runBlock(fr2, st2, b, from, i+1)
			}
			done := x.call(fr, st, in, &in.Call, func(st2 *State, res Val) {
				cont(st2, res)
			})
			if !done {
				return
			}
		case *ssa.Store:
			x.doStore(fr, st, in)
		case *ssa.MapUpdate:
			x.mapUpdate(fr, st, in)
		case *ssa.Send:
			x.sendStmt(fr, st, in)
		case ssa.Value:
			v, ok := x.evalInstr(fr, st, in)
			if !ok {
				return // path ended (e.g. failed assertion with no continuation)
			}
			fr.vals[in] = v
		default:
			x.note("unmodelled instruction %T", in)
		}
	}
}

// panicReached: an explicit panic instruction.
func (x *Exec) panicReached(fr *Frame, st *State, in *ssa.Panic) {
	x.paths++
	// declared panics
	if fr.isEntry && x.ctr != nil && len(x.ctr.Panics) > 0 {
		env := x.entryEnv(fr, st)
		var conds []Term
		for _, c := range x.ctr.Panics {
			conds = append(conds, x.evalBool(env, c.Expr))
		}
		x.oblige(st, "SAFE", "panic-declared("+x.posText(in.Pos())+")", Or(conds...), "panic reached outside the declared `panics when` condition")
		return
	}
	x.oblige(st, "SAFE", "unreachable-panic("+x.posText(in.Pos())+")", False, "explicit panic reachable")
}

func (x *Exec) runDefers(fr *Frame, st *State, k func(*State, *Frame)) {
	if len(fr.defers) == 0 {
		k(st, fr)
		return
	}
	d := fr.defers[len(fr.defers)-1]
	fr2 := fr.clone()
	fr2.defers = fr2.defers[:len(fr2.defers)-1]
	x.callWith(fr2, st, nil, d.call, d.fn, d.args, func(st2 *State, _ Val) {
		fr3 := fr2.clone()
		x.runDefers(fr3, st2, k)
	})
}

func (x *Exec) doStore(fr *Frame, st *State, in *ssa.Store) {
	addr := x.value(fr, st, in.Addr)
	v := x.value(fr, st, in.Val)
	elem := in.Addr.Type().Underlying().(*types.Pointer).Elem()
	if v.Typ == nil {
		v.Typ = elem
	}
	if addr.Loc == nil {
		x.oblige(st, "SAFE", "nil-deref(*"+in.Addr.Name()+" = "+x.posText(in.Pos())+")", Not(Eq(addr.T, IntLit(0))), "store through nil pointer")
		st.assume(Not(Eq(addr.T, IntLit(0))))
	}
	// storing a pointer to a local cell makes it escape
	if v.Loc != nil && v.Loc.Kind == LCell {
		if l := addr.Loc; l == nil || l.Kind != LCell {
			st.esc[v.Loc.Cell] = true
		}
	}
	if v.Clo != nil {
		if l := addr.Loc; l == nil || l.Kind != LCell {
			x.escapeClosure(st, v.Clo)
		}
	}
	if x.ctr != nil && len(x.ctr.Private) > 0 && addr.Loc != nil && addr.Loc.Kind == LCell && fr.fn == x.fn && !v.T.IsZero() {
		for _, pn := range x.ctr.Private {
			if pn != addr.Loc.Cell.name {
				continue
			}
			if pt, ok := elem.Underlying().(*types.Pointer); ok {
				if _, isStruct := pt.Elem().Underlying().(*types.Struct); isStruct {
					dup := false
					for _, pr := range x.privateRefs {
						if pr.Ref.S == v.T.S {
							dup = true
						}
					}
					if !dup {
						x.privateRefs = append(x.privateRefs, privateRef{v.T, pt.Elem()})
						x.addPrivateFields(st, v.T, pt.Elem())
						x.funcsUsed["assume:separation: the object held in local "+pn+" of "+x.fnKey+" is not modified by foreign code"] = true
					}
				}
			}
		}
	}
	x.store(st, x.locOfPointer(st, addr, elem), v)
}

// privateCell: an address-taken local named in a `private` clause is only
// written by the calls its address is passed to (no callee retains it).
func (x *Exec) privateCell(c *Cell) bool {
	if x.ctr == nil {
		return false
	}
	for _, pn := range x.ctr.Private {
		if pn == c.name {
			x.funcsUsed["assume:separation: the address of local "+pn+" of "+x.fnKey+" is not retained by the calls it is passed to"] = true
			return true
		}
	}
	return false
}

func (x *Exec) escapeClosure(st *State, c *Closure) {
	for _, b := range c.Bindings {
		if b.Loc != nil && b.Loc.Kind == LCell {
			st.esc[b.Loc.Cell] = true
		}
	}
}

func (x *Exec) mapUpdate(fr *Frame, st *State, in *ssa.MapUpdate) {
	m := x.value(fr, st, in.Map)
	k := x.value(fr, st, in.Key)
	v := x.value(fr, st, in.Value)
	mt, ok := in.Map.Type().Underlying().(*types.Map)
	if !ok {
		x.note("unmodelled MapUpdate on %s", in.Map.Type())
		return
	}
	x.oblige(st, "SAFE", "nil-map-write("+x.posText(in.Pos())+")", Not(Eq(m.T, IntLit(0))), "assignment to entry in nil map")
	st.assume(Not(Eq(m.T, IntLit(0))))
	hk, hs, vk, vs := x.mapComps(mt)
	has := x.heapGet(st, hk, hs)
	val := x.heapGet(st, vk, vs)
	x.mapLockCheck(st, m, "write")
	if x.ctr != nil && x.ctr.HasMod && fr.isEntry {
		for _, mm := range x.ctr.Modifies {
			x.registerMapItem(mm, x.pkgOf(fr.fn))
		}
		if !x.frameAllows(hk) && st.ghost["fresh:"+m.T.S].S != "true" {
			hasMapItem := false
			for _, mm := range x.ctr.Modifies {
				if strings.HasPrefix(mm, "map:") {
					hasMapItem = true
				}
			}
			if hasMapItem {
				// (map contents are framed only where the contract names map items at all)
				x.oblige(st, "FRAME", fmt.Sprintf("frame(map update at %s)", x.posText(in.Pos())), x.isFresh(st, m.T), "update of a map outside the declared modifies clause")
				x.frameAcc(st, x.isFresh(st, m.T))
			}
		}
	}
	kt := x.termOf(st, &k)
	st.heap[hk] = Store(has, m.T, Store(Select(has, m.T), kt, True))
	st.heap[vk] = Store(val, m.T, Store(Select(val, m.T), kt, x.termOf(st, &v)))
}

func (x *Exec) goStmt(fr *Frame, st *State, in *ssa.Go) {
	// The spawned function runs concurrently: everything it can reach may
	// change at any later point. Sound abstraction: havoc heap and captured cells.
	fv := x.value(fr, st, in.Call.Value)
	if fv.Clo != nil {
		x.escapeClosure(st, fv.Clo)
	}
	for _, a := range in.Call.Args {
		av := x.value(fr, st, a)
		if av.Loc != nil && av.Loc.Kind == LCell {
			st.esc[av.Loc.Cell] = true
		}
		if av.Clo != nil {
			x.escapeClosure(st, av.Clo)
		}
	}
	x.havocHeap(st, "go")
}

func (x *Exec) sendStmt(fr *Frame, st *State, in *ssa.Send) {
	v := x.value(fr, st, in.X)
	// ownership transfer: a sent value is no longer owned by this thread
	x.disown(st, v, "sent on channel")
}
