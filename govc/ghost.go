package main

// Ghost state: lock sets (O-LOCK), ownership (O-OWN), loops and invariants.

import (
	"os"
	"fmt"
	"go/types"
	"sort"
	"strings"

	"golang.org/x/tools/go/ssa"
)

// ---------------------------------------------------------------------------
// O-LOCK

func (x *Exec) mutexKey(st *State, recv Val) string {
	if recv.Loc != nil {
		l := recv.Loc
		switch l.Kind {
		case LField:
			return l.Base.S + "." + l.ST.Underlying().(*types.Struct).Field(l.Idx).Name()
		case LSub:
			return fmt.Sprintf("sub%p.%d", l.Parent, l.Idx)
		case LCell:
			return fmt.Sprintf("cell%d", l.Cell.id)
		}
	}
	return recv.T.S
}

func (x *Exec) mutexOwner(recv Val) string {
	if recv.Loc != nil && recv.Loc.Kind == LField {
		if n, ok := recv.Loc.ST.(*types.Named); ok {
			return n.Obj().Name() + "." + recv.Loc.ST.Underlying().(*types.Struct).Field(recv.Loc.Idx).Name()
		}
	}
	return ""
}

func (x *Exec) lockOp(st *State, recv Val, lock bool) {
	key := x.mutexKey(st, recv)
	if o := x.mutexOwner(recv); o != "" {
		key = key + "#" + o
	}
	if lock {
		for _, h := range st.held {
			if h == key {
				x.oblige(st, "LOCK", "no-self-deadlock("+x.posText(x.curPos)+")", False, "mutex locked while already held")
			}
		}
		reacquired := false
		for _, l := range st.lockLog {
			if l == key {
				reacquired = true
			}
		}
		st.held = append(st.held, key)
		st.lockLog = append(st.lockLog, key)
		if reacquired {
			// between two critical sections of one call other goroutines may
			// have run theirs: what the mutex guards is unknown again
			x.havocGuarded(st, recv)
		}
		// monitor invariant: whoever held the mutex before left the object's
		// invariants established (every release is checked, below and at the
		// exits of the type's own methods)
		if recv.Loc != nil && recv.Loc.Kind == LField && x.fn != nil {
			if named, ok := recv.Loc.ST.(*types.Named); ok && named.Obj().Pkg() != nil {
				own := false
				if rc := rootFn(x.fn).Signature.Recv(); rc != nil && recvTypeName(rc.Type()) == named.Obj().Name() {
					own = true
				}
				if invs := x.cs.ObjInvs[named.Obj().Pkg().Path()+"."+named.Obj().Name()]; len(invs) > 0 && !own {
					self := Val{T: recv.Loc.Base, Typ: types.NewPointer(named)}
					env := &Env{x: x, st: st, vars: map[string]Val{"self": self}, pkg: named.Obj().Pkg()}
					for _, c := range invs {
						st.assume(x.evalBool(env, c.Expr))
					}
				}
			}
		}
		return
	}
	// monitor invariant: whoever releases an object's mutex leaves the
	// object's invariants established (checked here for code that is not a
	// method of the object's own type; those are checked at their exits)
	if recv.Loc != nil && recv.Loc.Kind == LField && x.fn != nil {
		if named, ok := recv.Loc.ST.(*types.Named); ok && named.Obj().Pkg() != nil {
			own := false
			if rc := rootFn(x.fn).Signature.Recv(); rc != nil && recvTypeName(rc.Type()) == named.Obj().Name() {
				own = true
			}
			if invs := x.cs.ObjInvs[named.Obj().Pkg().Path()+"."+named.Obj().Name()]; len(invs) > 0 && !own {
				self := Val{T: recv.Loc.Base, Typ: types.NewPointer(named)}
				env := &Env{x: x, st: st, vars: map[string]Val{"self": self}, pkg: named.Obj().Pkg()}
				for _, c := range invs {
					x.oblige(st, "INV", fmt.Sprintf("invariant-at-unlock(%s: %s)@%s", named.Obj().Name(), c.Src, x.posText(x.curPos)), x.evalBool(env, c.Expr), "an object's invariant must hold when its mutex is released")
				}
			}
		}
	}
	for i, h := range st.held {
		if h == key {
			st.held = append(st.held[:i:i], st.held[i+1:]...)
			return
		}
	}
	x.oblige(st, "LOCK", "unlock-held("+x.posText(x.curPos)+")", False, "unlock of a mutex that is not held")
}

// havocGuarded forgets the fields guarded by the mutex recv (of the object
// that holds it; fields of other types guarded by it are forgotten for all
// objects).
func (x *Exec) havocGuarded(st *State, recv Val) {
	if recv.Loc == nil || recv.Loc.Kind != LField {
		return
	}
	named, ok := recv.Loc.ST.(*types.Named)
	if !ok || named.Obj().Pkg() == nil {
		return
	}
	owner := x.mutexOwner(recv)
	self := named.Obj().Pkg().Path() + "." + named.Obj().Name() + "."
	for gk, gv := range x.cs.Guarded {
		if gv != owner {
			continue
		}
		j := strings.LastIndexByte(gk, '.')
		if j < 0 {
			continue
		}
		tkey, fname := gk[:j], gk[j+1:]
		var T types.Type
		if strings.HasPrefix(gk, self) {
			T = named
		} else if k := strings.LastIndexByte(tkey, '.'); k >= 0 {
			if sp := x.L.spkgs[tkey[:k]]; sp != nil {
				if tn, ok := sp.Pkg.Scope().Lookup(tkey[k+1:]).(*types.TypeName); ok {
					T = tn.Type()
				}
			}
		}
		if T == nil {
			continue
		}
		stt, ok := T.Underlying().(*types.Struct)
		if !ok {
			continue
		}
		si := x.te.Struct(T)
		for i := 0; i < stt.NumFields(); i++ {
			if stt.Field(i).Name() != fname {
				continue
			}
			key, sort := x.fieldComp(si, i)
			cur := x.heapGet(st, key, sort)
			if T == types.Type(named) {
				st.heap[key] = Store(cur, recv.Loc.Base, x.d.Fresh("relock_"+fname, si.FSorts[i]))
			} else {
				st.heap[key] = x.d.Fresh("relock_"+fname, sort)
			}
		}
	}
	x.note("guarded fields forgotten at a second acquisition of %s", owner)
}

// lockCheck: an access to a guarded_by field must happen with the guarding
// mutex of the same object in the ghost lock set.
func (x *Exec) lockCheck(st *State, l *Loc, mode string) {
	if !x.classes["LOCK"] || l.Kind != LField {
		return
	}
	named, ok := l.ST.(*types.Named)
	if !ok {
		return
	}
	fname := l.ST.Underlying().(*types.Struct).Field(l.Idx).Name()
	key := named.Obj().Pkg().Path() + "." + named.Obj().Name() + "." + fname
	owner, ok := x.cs.Guarded[key] // "Type.mu"
	if !ok {
		return
	}
	if st.ghost["fresh:"+l.Base.S].S == "true" {
		return // object allocated in this function and not yet published
	}
	j := strings.LastIndexByte(owner, '.')
	ownerType, mu := owner[:j], owner[j+1:]
	for _, h := range st.held {
		if ownerType == named.Obj().Name() {
			// the mutex of the same object
			if strings.HasPrefix(h, l.Base.S+"."+mu+"#") || h == l.Base.S+"."+mu {
				return
			}
		} else if strings.HasSuffix(h, "#"+owner) {
			// a field of another type guarded by the owner's mutex
			return
		}
	}
	x.oblige(st, "LOCK", fmt.Sprintf("guarded(%s.%s %s at %s)", named.Obj().Name(), fname, mode, x.posText(x.curPos)), False,
		fmt.Sprintf("%s of %s.%s without holding %s", mode, named.Obj().Name(), fname, owner))
}

func (x *Exec) mapLockCheck(st *State, m Val, mode string) {
	// maps reachable from guarded fields: the map value was loaded from a
	// guarded field (checked at that load). A map handed to a helper as a
	// parameter declared `guarded-param` keeps its guard: the helper and the
	// closures it creates may only touch it with that mutex held.
	if x.fn == nil || !strings.HasPrefix(m.Org, "param:") {
		return
	}
	ctr := x.contractFor(rootFn(x.fn))
	if ctr == nil {
		return
	}
	mu, ok := ctr.GuardedParams[strings.TrimPrefix(m.Org, "param:")]
	if !ok {
		return
	}
	held := false
	for _, h := range st.held {
		if h == "?#"+mu || strings.HasSuffix(h, "#"+mu) {
			held = true
		}
	}
	x.oblige(st, "LOCK", fmt.Sprintf("guarded-param(%s by %s %s at %s)", strings.TrimPrefix(m.Org, "param:"), mu, mode, x.posText(x.curPos)), BoolLit(held), "access to a guarded map without its mutex")
}

func (x *Exec) immutCheck(st *State, l *Loc) {
	if l.Kind != LField {
		return
	}
	named, ok := l.ST.(*types.Named)
	if !ok {
		return
	}
	fname := l.ST.Underlying().(*types.Struct).Field(l.Idx).Name()
	key := named.Obj().Pkg().Path() + "." + named.Obj().Name() + "." + fname
	if !x.cs.Immut[key] {
		return
	}
	if st.ghost["fresh:"+l.Base.S].S == "true" {
		return
	}
	x.oblige(st, "FRAME", fmt.Sprintf("immutable(%s.%s at %s)", named.Obj().Name(), fname, x.posText(x.curPos)), x.isFresh(st, l.Base), "store to a field declared immutable after construction")
}

func (x *Exec) lockEffects(st *State, ctr *Contract, env *Env) {}

// holdsKeys: the lock-set entries named by a contract's `holds r.mu` clauses.
func (x *Exec) holdsKeys(ctr *Contract, env *Env) []string {
	var out []string
	for _, h := range ctr.Holds {
		j := strings.LastIndexByte(h, '.')
		if j < 0 {
			continue
		}
		e, err := ParseSpecExpr(h[:j])
		if err != nil {
			continue
		}
		if id, ok := e.(SIdent); ok {
			if _, isVar := env.vars[id.Name]; !isVar {
				if T := env.resolveType(id.Name); T != nil {
					// `holds Type.mu`: some object's mutex of that type
					out = append(out, "?#"+h)
					continue
				}
			}
		}
		base := env.eval(e)
		key := base.T.S + "." + h[j+1:]
		if base.Typ != nil {
			T := base.Typ
			if p, ok := T.Underlying().(*types.Pointer); ok {
				T = p.Elem()
			}
			if n, ok := T.(*types.Named); ok {
				key += "#" + n.Obj().Name() + "." + h[j+1:]
			}
		}
		out = append(out, key)
	}
	return out
}

// ---------------------------------------------------------------------------
// O-OWN

func (x *Exec) isMustClose(T types.Type) bool {
	if T == nil {
		return false
	}
	name := shortTypeName(T)
	for _, m := range x.cs.MustClose {
		if m == name {
			return true
		}
	}
	return false
}

// ownResults: results of a logged foreign call that are must-close values
// become owned (when the accompanying error is nil).
func (x *Exec) ownResults(st *State, ev *CallEvent, sig *types.Signature, rs []Val) {
	if !x.classes["OWN"] {
		return
	}
	var errT Term
	for i := 0; i < sig.Results().Len(); i++ {
		if types.Identical(sig.Results().At(i).Type(), types.Universe.Lookup("error").Type()) {
			errT = rs[i].T
		}
	}
	for i := 0; i < sig.Results().Len(); i++ {
		if x.isMustClose(sig.Results().At(i).Type()) {
			cond := Not(Eq(rs[i].T, NilIface))
			if !errT.IsZero() {
				cond = Eq(errT, NilIface)
				// a successful call returns a non-nil value (interface contract)
				st.assume(Implies(cond, Not(Eq(rs[i].T, NilIface))))
			}
			st.owned = append(st.owned, ownedRec{t: rs[i].T, desc: ev.Desc, cond: cond})
		}
	}
}

func (x *Exec) disown(st *State, v Val, why string) {
	if v.T.IsZero() {
		return
	}
	for i := range st.owned {
		if st.owned[i].t.S == v.T.S {
			st.owned = append(st.owned[:i:i], st.owned[i+1:]...)
			return
		}
	}
}

func (x *Exec) recvOwn(st *State, v Val) {}

// ---------------------------------------------------------------------------
// Environments for contract evaluation

func (x *Exec) entryEnv(fr *Frame, st *State) *Env {
	env := &Env{x: x, st: st, vars: map[string]Val{}, fr: fr, pkg: x.pkgOf(fr.fn)}
	for i, p := range fr.fn.Params {
		if i < len(fr.params) {
			env.vars[p.Name()] = fr.params[i]
		}
	}
	return env
}

// ---------------------------------------------------------------------------
// Loops

func (x *Exec) loopInvs(fr *Frame, ord int) []*Clause {
	if !fr.isEntry {
		// a function executed in place because its contract says `inline` brings its own
		// loop invariants (names resolve in its own frame: parameters, locals, captured variables)
		if c := x.contractFor(fr.fn); c != nil && c.Inline {
			return c.Invs[ord]
		}
		return nil
	}
	if x.ctr == nil {
		return nil
	}
	return x.ctr.Invs[ord]
}

// modified cells and heap effects of a loop body
func (x *Exec) loopEffects(fr *Frame, h *ssa.BasicBlock) (allocs map[*ssa.Alloc]bool, heap bool, calls bool) {
	allocs = map[*ssa.Alloc]bool{}
	x.loopMaps = nil
	// does the body run code of the verified package with undeclared heap
	// effects (own stores, own callees without a frame, own closures)? If
	// not, the havoc at the loop head stands for foreign code only (plus the
	// declared frames of the own callees, collected in loopMods).
	x.loopOwnCode = false
	x.loopMods = nil
	for b := range fr.loops.body[h] {
		for _, in := range b.Instrs {
			switch in := in.(type) {
			case *ssa.Store:
				r := rootAddr(in.Addr)
				if a, ok := r.(*ssa.Alloc); ok {
					allocs[a] = true
				} else if u, ok := r.(*ssa.UnOp); ok && isSliceElemStore(in.Addr) {
					// element store into a slice held in a local variable
					if a, ok := rootAddr(u.X).(*ssa.Alloc); ok {
						allocs[a] = true
					} else {
						heap = true
					}
				} else {
					heap = true
				}
			case *ssa.MapUpdate:
				// only the contents of maps of this type change
				if mt, ok := in.Map.Type().Underlying().(*types.Map); ok {
					x.loopMaps = append(x.loopMaps, mt)
				} else {
					heap = true
				}
			case *ssa.Call:
				if bi, ok := in.Call.Value.(*ssa.Builtin); ok {
					switch bi.Name() {
					case "delete", "copy", "clear":
						if mt, ok := in.Call.Args[0].Type().Underlying().(*types.Map); ok && bi.Name() == "delete" {
							x.loopMaps = append(x.loopMaps, mt)
						} else {
							heap = true
						}
						if bi.Name() == "copy" {
							if a, ok := rootAddr(loadSource(in.Call.Args[0])).(*ssa.Alloc); ok {
								allocs[a] = true
							}
						}
					}
					continue
				}
				for _, a := range in.Call.Args {
					if al, ok := rootAddr(a).(*ssa.Alloc); ok {
						allocs[al] = true
					}
				}
				if !in.Call.IsInvoke() {
					if callee, ok := in.Call.Value.(*ssa.Function); ok && x.calleeEffectFree(callee) {
						continue
					}
					switch v := in.Call.Value.(type) {
					case *ssa.Function:
						if x.L.isRepoFunc(v) {
							ctr := x.contractFor(v)
							if ctr != nil && ctr.HasMod && !contains(ctr.Modifies, "all") {
								for _, m := range ctr.Modifies {
									if m != "nothing" {
										x.registerMapItem(m, x.pkgOf(v))
										x.loopMods = append(x.loopMods, m)
									}
								}
							} else {
								x.loopOwnCode = true
							}
						}
					case *ssa.MakeClosure:
						x.loopOwnCode = true
					}
					if x.ctr != nil && fr.isEntry {
						if u, ok := in.Call.Value.(*ssa.UnOp); ok {
							if a, ok := u.X.(*ssa.Alloc); ok && contains(x.ctr.PureParams, a.Comment) {
								continue
							}
						}
					}
				}
				if os.Getenv("GOVC_DEBUG_LOOP") != "" {
					fmt.Fprintf(os.Stderr, "loop call with effects: %s\n", in.String())
				}
				calls = true
			case *ssa.Defer, *ssa.Go:
				calls = true
				x.loopOwnCode = true
			case *ssa.MakeClosure:
				// closures created in the loop may write captured cells
				inner := in.Fn.(*ssa.Function)
				st := storedFreeVars(inner)
				for i, bnd := range in.Bindings {
					if a, ok := bnd.(*ssa.Alloc); ok && i < len(inner.FreeVars) && st[inner.FreeVars[i]] {
						allocs[a] = true
					}
				}
			}
		}
	}
	return
}

func loadSource(v ssa.Value) ssa.Value {
	if u, ok := v.(*ssa.UnOp); ok {
		return u.X
	}
	return v
}

func (x *Exec) loopEnv(fr *Frame, st *State, h *ssa.BasicBlock) *Env {
	env := x.entryEnv(fr, st)
	env.atPos = blockPos(h)
	env.loopKey = fmt.Sprintf("%p", h)
	// parameters are spilled to cells in NaiveForm: names resolve to the
	// current cell contents, entry values are available as old(name)
	entry := x.entryEnv(fr, st)
	delete(entry.vars, "")
	env.old = entry
	env.vars = map[string]Val{}
	if !fr.isEntry {
		// invariants of a function executed in place may also name the parameters and captured
		// variables of the function under verification (the enclosing function of a helper
		// closure), unless the helper declares the name itself
		for n, v := range x.entryNames(st) {
			if !fnDeclares(fr.fn, n) {
				env.vars[n] = v
			}
		}
	}
	return env
}

func fnDeclares(fn *ssa.Function, name string) bool {
	for _, p := range fn.Params {
		if p.Name() == name {
			return true
		}
	}
	for _, fv := range fn.FreeVars {
		if fv.Name() == name {
			return true
		}
	}
	for _, b := range fn.Blocks {
		for _, in := range b.Instrs {
			if a, ok := in.(*ssa.Alloc); ok && a.Comment == name {
				return true
			}
		}
	}
	return false
}

// loopEntry: first arrival at a loop header. Returns false if the path ends.
func (x *Exec) loopEntry(fr *Frame, st *State, h *ssa.BasicBlock, ord int) bool {
	invs := x.loopInvs(fr, ord)
	for _, c := range invs {
		if strings.Contains(c.Src, "atEntry(") {
			// the invariants relate the loop's state to the state it was entered in
			if st.loopEntries == nil {
				st.loopEntries = map[string]*State{}
			}
			st.loopEntries[fmt.Sprintf("%p", h)] = st.clone()
			break
		}
	}
	if fr.isEntry && x.ctr != nil {
		if n, ok := x.ctr.Unroll[ord]; ok && n > 0 {
			_ = n
		}
	}
	env := x.loopEnv(fr, st, h)
	for _, c := range invs {
		x.oblige(st, "INV", fmt.Sprintf("loop%d/entry(%s)", ord, c.Src), x.evalBool(env, c.Expr), "loop invariant on entry")
	}
	allocs, heap, calls := x.loopEffects(fr, h)
	// havoc
	var names []string
	for a := range allocs {
		pv, ok := fr.vals[a]
		if !ok || pv.Loc == nil || pv.Loc.Kind != LCell {
			if ok && pv.Loc == nil && !pv.T.IsZero() {
				// heap-allocated struct local: only its own fields change
				T := a.Type().(*types.Pointer).Elem()
				if _, isStruct := T.Underlying().(*types.Struct); isStruct {
					si := x.te.Struct(T)
					for i := range si.Acc {
						key, sort := x.fieldComp(si, i)
						cur := x.heapGet(st, key, sort)
						st.heap[key] = Store(cur, pv.T, x.d.Fresh("loop_fld", si.FSorts[i]))
					}
				} else {
					heap = true
				}
			}
			continue
		}
		cell := pv.Loc.Cell
		if old, ok := st.cells[cell]; ok && old.T.Sort == "Int" {
			st.ghost[fmt.Sprintf("entryval:%d", cell.id)] = old.T
		}
		if old, ok := st.cells[cell]; ok && old.Clo != nil {
			// a func-typed variable that the loop reassigns loses its identity at the loop head:
			// a later call through it may run the closure it held, which writes its captured cells
			x.escapeClosure(st, old.Clo)
		}
		nv := x.freshVal(st, "loop_"+cell.name, cell.typ)
		st.cells[cell] = nv
		names = append(names, cell.name)
	}
	sort.Strings(names)
	// ghost contents of string builders written in the loop
	for k := range st.ghost {
		if strings.HasPrefix(k, "sb:") {
			st.ghost[k] = x.d.Fresh("loop_sb", "String")
		}
	}
	// ghost visited sets of map iterations advanced in the loop
	for b := range fr.loops.body[h] {
		for _, in := range b.Instrs {
			if nx, ok := in.(*ssa.Next); ok {
				id := fmt.Sprintf("%p", nx.Iter)
				if cur := st.ghost["vis:"+id]; !cur.IsZero() {
					st.ghost["vis:"+id] = x.d.Fresh("loop_vis", cur.Sort)
				}
			}
		}
	}
	if !calls && !heap {
		for _, mt := range x.loopMaps {
			hk, hs, vk, vs := x.mapComps(mt)
			x.heapGet(st, hk, hs)
			x.heapGet(st, vk, vs)
			st.heap[hk] = x.d.Fresh("loop_"+hk, hs)
			st.heap[vk] = x.d.Fresh("loop_"+vk, vs)
			x.closedFact(st, hk, st.heap[hk])
			x.closedFact(st, vk, st.heap[vk])
		}
	} else if len(x.loopMaps) > 0 {
		heap = true
	}
	if calls {
		if _, ok := st.ghost["ycnt"]; ok || st.seqOn {
			nc := x.d.Fresh("loop_ycnt", "Int")
			st.assume(Ge(nc, IntLit(0)))
			st.ghost["ycnt"] = nc
			for k, v := range st.ghost {
				if strings.HasPrefix(k, "yseq:") {
					st.ghost[k] = x.d.Fresh("loop_yseq", v.Sort)
				}
			}
			if _, ok := st.ghost["yerr"]; ok {
				st.ghost["yerr"] = x.d.Fresh("loop_yerr", "Iface")
			}
		}
		if !heap && len(x.loopMaps) == 0 && !x.loopOwnCode {
			x.havocHeap(st, "foreign call (in the loop body)")
			for _, m := range x.loopMods {
				x.havocComponent(st, m)
			}
		} else {
			x.havocHeap(st, "loop body calls")
		}
		st.callsUnknown = true
	} else if heap {
		x.havocHeapOnly(st)
	}
	if calls || heap {
		// lock sets are not tracked across iterations with calls
	}
	// auto invariants for integer counters (sound: checked below like any other)
	auto := x.autoInvariants(fr, st, h, allocs)
	env2 := x.loopEnv(fr, st, h)
	for _, c := range invs {
		st.assume(x.evalBool(env2, c.Expr))
	}
	for _, a := range auto {
		st.assume(a.cur(st))
	}
	st.ghost[fmt.Sprintf("autoinv:%p", h)] = True
	fr.autoInv(h, auto)
	// O-TERM: value of the measure at the head of this iteration, and the
	// position in the call log (for `progress` clauses)
	if fr.isEntry && x.ctr != nil {
		for i, c := range x.ctr.Decreases[ord] {
			m := env2.eval(c.Expr)
			st.ghost[fmt.Sprintf("measure:%d:%d", ord, i)] = m.T
		}
		st.ghost[fmt.Sprintf("callmark:%d", ord)] = IntLit(int64(len(st.calls)))
		if len(x.ctr.LoopStep[ord]) > 0 {
			if st.loopHeads == nil {
				st.loopHeads = map[int]*State{}
			}
			st.loopHeads[ord] = st.clone()
		}
	}
	return true
}

type autoInv struct {
	name string
	cur  func(st *State) Term
}

func (fr *Frame) autoInv(h *ssa.BasicBlock, a []autoInv) {
	if fr.auto == nil {
		fr.auto = map[*ssa.BasicBlock][]autoInv{}
	}
	fr.auto[h] = a
}

// autoInvariants: for an int cell v that the loop only ever changes by
// `v = v + c` with a constant c > 0 (resp. c < 0), `v >= v_at_entry`
// (resp. <=) is an inductive invariant. It is established syntactically and
// therefore assumed without a solver query; this covers range-loop indices
// and simple counters.
func (x *Exec) autoInvariants(fr *Frame, st0 *State, h *ssa.BasicBlock, allocs map[*ssa.Alloc]bool) []autoInv {
	var out []autoInv
	for a := range allocs {
		T := a.Type().(*types.Pointer).Elem()
		if !isIntType(T) {
			continue
		}
		pv, ok := fr.vals[a]
		if !ok || pv.Loc == nil || pv.Loc.Kind != LCell {
			continue
		}
		dir := 0
		okAll := true
		for b := range fr.loops.body[h] {
			for _, in := range b.Instrs {
				s, ok := in.(*ssa.Store)
				if !ok || s.Addr != ssa.Value(a) {
					if s != nil && ok && rootAddr(s.Addr) == ssa.Value(a) && s.Addr != ssa.Value(a) {
						okAll = false
					}
					continue
				}
				bo, ok := s.Val.(*ssa.BinOp)
				if !ok {
					okAll = false
					continue
				}
				ld, ok := bo.X.(*ssa.UnOp)
				c, ok2 := bo.Y.(*ssa.Const)
				if !ok || !ok2 || ld.X != ssa.Value(a) || c.Value == nil {
					okAll = false
					continue
				}
				n := c.Int64()
				d := 0
				switch bo.Op.String() {
				case "+":
					if n > 0 {
						d = 1
					} else if n < 0 {
						d = -1
					}
				case "-":
					if n > 0 {
						d = -1
					} else if n < 0 {
						d = 1
					}
				default:
					okAll = false
				}
				if d == 0 || (dir != 0 && dir != d) {
					okAll = false
				}
				dir = d
			}
		}
		// the cell must not be written by closures or through its address
		for b := range fr.loops.body[h] {
			for _, in := range b.Instrs {
				if c, ok := in.(*ssa.Call); ok {
					for _, arg := range c.Call.Args {
						if rootAddr(arg) == ssa.Value(a) {
							okAll = false
						}
					}
				}
				if mc, ok := in.(*ssa.MakeClosure); ok {
					for _, bnd := range mc.Bindings {
						if bnd == ssa.Value(a) {
							okAll = false
						}
					}
				}
			}
		}
		if !okAll || dir == 0 {
			continue
		}
		cell := pv.Loc.Cell
		// value at loop entry (before havoc) was saved by the caller? we need it: read from ghost
		entryVal, ok := st0.ghost[fmt.Sprintf("entryval:%d", cell.id)]
		if !ok {
			continue
		}
		d := dir
		out = append(out, autoInv{name: cell.name, cur: func(st *State) Term {
			cur := st.cells[cell].T
			if d > 0 {
				return Ge(cur, entryVal)
			}
			return Le(cur, entryVal)
		}})
	}
	return out
}

func (x *Exec) loopBackEdge(fr *Frame, st *State, h *ssa.BasicBlock, ord int) {
	invs := x.loopInvs(fr, ord)
	env := x.loopEnv(fr, st, h)
	for _, c := range invs {
		x.oblige(st, "INV", fmt.Sprintf("loop%d/preserved(%s)", ord, c.Src), x.evalBool(env, c.Expr), "loop invariant preserved")
	}
	if fr.isEntry && x.ctr != nil {
		if head := st.loopHeads[ord]; head != nil {
			for _, c := range x.ctr.LoopStep[ord] {
				senv := x.loopEnv(fr, st, h)
				senv.old = x.loopEnv(fr, head, h)
				x.oblige(st, "INV", fmt.Sprintf("loop%d/step(%s)", ord, c.Src), x.evalBool(senv, c.Expr), "two-state clause over one iteration of the loop")
			}
		}
		for i, c := range x.ctr.Decreases[ord] {
			m0, ok := st.ghost[fmt.Sprintf("measure:%d:%d", ord, i)]
			if !ok {
				continue
			}
			m := env.eval(c.Expr)
			x.oblige(st, "TERM", fmt.Sprintf("loop%d/decreases(%s)", ord, c.Src), And(Le(IntLit(0), m.T), Lt(m.T, m0)), "loop measure must be non-negative and strictly decrease")
		}
		for _, want := range x.ctr.Progress[ord] {
			mark := 0
			if t, ok := st.ghost[fmt.Sprintf("callmark:%d", ord)]; ok {
				if n, ok := modelInt(t.S); ok {
					mark = int(n)
				}
			}
			found := false
			for _, ev := range st.calls[mark:] {
				if strings.Contains(ev.Desc, want) || (ev.Static != nil && ev.Static.Name() == want) {
					found = true
				}
			}
			x.oblige(st, "TERM", fmt.Sprintf("loop%d/progress(%s)", ord, want), BoolLit(found), "every iteration must consume one server answer (call "+want+")")
		}
	}
}

var _ = strings.TrimSpace

// closurePre: a closure whose contract has `requires` over its captured
// variables must have them established where the closure is created.
func (x *Exec) closurePre(fr *Frame, st *State, c *Closure) {
	ctr := x.contractFor(c.Fn)
	if ctr == nil || len(ctr.Requires) == 0 {
		return
	}
	env := &Env{x: x, st: st, vars: map[string]Val{}, pkg: x.pkgOf(c.Fn)}
	for i, fv := range c.Fn.FreeVars {
		if i < len(c.Bindings) {
			T := fv.Type().(*types.Pointer).Elem()
			env.vars[fv.Name()] = x.load(st, x.locOfPointer(st, c.Bindings[i], T), T)
		}
	}
	if fr.isEntry && fr.fn.Parent() == nil {
		env.outer = map[string]Val{}
		for i, p := range fr.fn.Params {
			if i < len(fr.params) {
				env.outer[p.Name()] = fr.params[i]
			}
		}
	}
	for _, cl := range ctr.Requires {
		mentionsParam := false
		for _, p := range c.Fn.Params {
			if strings.Contains(cl.Src, p.Name()) {
				mentionsParam = true
			}
		}
		if mentionsParam {
			continue // about the arguments, checked at call sites
		}
		var errs []string
		env.errs = &errs
		g := x.evalBool(env, cl.Expr)
		if len(errs) > 0 {
			x.note("stale closure requires skipped (does not bind to the code): %s", cl.Src)
			continue
		}
		x.oblige(st, "CALL", fmt.Sprintf("closure-pre(%s: %s)", FuncKey(c.Fn), cl.Src), g, "precondition of a closure over its captured variables, at creation")
	}
}

// outerGhost: in the standalone verification of a closure, the entry value
// of a parameter of the outermost enclosing function is an arbitrary ghost
// value (the closure's requires relate the captured variables to it).
func (x *Exec) outerGhost(st *State, name string) (Val, bool) {
	if v, ok := x.outerVals[name]; ok {
		return v, true
	}
	root := rootFn(x.fn)
	if root == x.fn {
		for i, p := range root.Params {
			if p.Name() == name && i < len(x.entryParams) {
				return x.entryParams[i], true
			}
		}
		return Val{}, false
	}
	for _, p := range root.Params {
		if p.Name() == name {
			t := x.fresh("outer_"+name, p.Type())
			v := Val{T: t, Typ: p.Type()}
			if x.outerVals == nil {
				x.outerVals = map[string]Val{}
			}
			x.outerVals[name] = v
			x.inputs["outer("+name+")"] = t
			return v, true
		}
	}
	return Val{}, false
}

func isSliceElemStore(addr ssa.Value) bool {
	ia, ok := addr.(*ssa.IndexAddr)
	if !ok {
		return false
	}
	_, isSlice := ia.X.Type().Underlying().(*types.Slice)
	return isSlice
}

// calleeEffectFree: a static callee that cannot change the heap as seen by
// the verified function (library table / side-effect-free packages, repo
// functions whose contract says `modifies nothing`, or a syntactic check).
func (x *Exec) calleeEffectFree(f *ssa.Function) bool {
	name := f.String()
	if o := f.Origin(); o != nil {
		name = o.String()
	}
	if _, ok := libTable[name]; ok {
		switch name {
		case "slices.SortFunc", "slices.Sort", "errors.As":
			return true // effects are on local variables passed by value/address, handled as cell stores
		}
		return !strings.HasPrefix(name, "(*sync.")
	}
	if x.L.isRepoFunc(f) {
		if ctr := x.contractFor(f); ctr != nil {
			if ctr.Pure || (ctr.HasMod && len(ctr.Modifies) == 1 && ctr.Modifies[0] == "nothing") {
				return true
			}
			if ctr.HasMod {
				return false
			}
		}
		return x.L.noHeapEffects(f, 0)
	}
	return isPurePackage(f) && !nondetPkgs[FuncPkgPath(f)]
}
