package main

// net/http and fmt modelling for the server/client properties:
// the ghost HTTP response (header sets, status, body writes) and
// formatting of integers/strings with constant formats.

import (
	"fmt"
	"go/constant"
	"go/types"
	"strings"

	"golang.org/x/tools/go/ssa"
)

func init() {
	strT := types.Typ[types.String]
	intT := types.Typ[types.Int]
	errT := types.Universe.Lookup("error").Type()

	// resp.Header(): the response's header map, a fixed ghost object
	libTable["iface:http.ResponseWriter.Header"] = func(x *Exec, fr *Frame, st *State, cc *ssa.CallCommon, a []Val) (Val, bool) {
		T := cc.Signature().Results().At(0).Type()
		v := x.uninterp(st, "respHeader", []Val{a[0]}, T)
		st.assume(Not(Eq(v.T, IntLit(0))))
		v.Org = "resp-header"
		x.funcsUsed["lib:http.ResponseWriter (ghost response: header sets, status and body writes are recorded; no other effect)"] = true
		return v, true
	}
	libTable["iface:http.ResponseWriter.WriteHeader"] = func(x *Exec, fr *Frame, st *State, cc *ssa.CallCommon, a []Val) (Val, bool) {
		st.resp = append(st.resp, RespEvent{Kind: "status", Val: a[1].T})
		return Val{}, true
	}
	libTable["iface:http.ResponseWriter.Write"] = func(x *Exec, fr *Frame, st *State, cc *ssa.CallCommon, a []Val) (Val, bool) {
		x.te.SortOf(cc.Args[0].Type())
		st.resp = append(st.resp, RespEvent{Kind: "body", Val: sliceLen(a[1].T)})
		n := x.freshVal(st, "written", intT)
		e := x.freshVal(st, "werr", errT)
		return Val{Tup: []Val{n, e}}, true
	}
	libTable["(net/http.Header).Set"] = func(x *Exec, fr *Frame, st *State, cc *ssa.CallCommon, a []Val) (Val, bool) {
		if a[0].Org != "resp-header" {
			// some other header map (a request being built): opaque
			return Val{}, true
		}
		key := ""
		if c, ok := cc.Args[1].(*ssa.Const); ok && c.Value != nil && c.Value.Kind() == constant.String {
			key = constant.StringVal(c.Value)
		}
		st.resp = append(st.resp, RespEvent{Kind: "header", Key: key, KeyT: a[1].T, Val: a[2].T})
		return Val{}, true
	}
	libTable["(net/http.Header).Add"] = libTable["(net/http.Header).Set"]
	libTable["(net/http.Header).Get"] = func(x *Exec, fr *Frame, st *State, cc *ssa.CallCommon, a []Val) (Val, bool) {
		return x.uninterp(st, "hdrGet", []Val{a[0], a[1]}, strT), true
	}
	libTable["net/http.Redirect"] = func(x *Exec, fr *Frame, st *State, cc *ssa.CallCommon, a []Val) (Val, bool) {
		st.resp = append(st.resp, RespEvent{Kind: "header", Key: "Location", KeyT: StrLit("Location"), Val: a[2].T})
		st.resp = append(st.resp, RespEvent{Kind: "status", Val: a[3].T})
		return Val{}, true
	}
	libTable["io.Copy"] = func(x *Exec, fr *Frame, st *State, cc *ssa.CallCommon, a []Val) (Val, bool) {
		// the bytes the source yields are appended to the destination; the
		// source is foreign code with its own state only
		st.resp = append(st.resp, RespEvent{Kind: "bodycopy", Val: a[1].T})
		n := x.freshVal(st, "copied", types.Typ[types.Int64])
		st.assume(Ge(n.T, IntLit(0)))
		e := x.freshVal(st, "cerr", errT)
		x.funcsUsed["lib:io.Copy (relays the source's bytes; no effect on the verified package's memory)"] = true
		return Val{Tup: []Val{n, e}}, true
	}
	libTable["(*net/http.Request).Context"] = func(x *Exec, fr *Frame, st *State, cc *ssa.CallCommon, a []Val) (Val, bool) {
		v := x.uninterp(st, "reqContext", []Val{a[0]}, cc.Signature().Results().At(0).Type())
		st.assume(Not(Eq(v.T, NilIface)))
		return v, true
	}

	// fmt.Sprint(x) for a single integer or string argument
	libTable["fmt.Sprint"] = func(x *Exec, fr *Frame, st *State, cc *ssa.CallCommon, a []Val) (Val, bool) {
		if len(a[0].Elems) == 1 && a[0].Elems[0].Dyn != nil {
			d := a[0].Elems[0].Dyn
			switch {
			case isIntType(d.Typ) && d.T.Sort == "Int":
				return x.itoa(st, d.T), true
			case isStringType(d.Typ):
				return Val{T: d.T, Typ: strT}, true
			}
		}
		return x.freshVal(st, "sprint", strT), true
	}
	libTable["fmt.Sprintf"] = func(x *Exec, fr *Frame, st *State, cc *ssa.CallCommon, a []Val) (Val, bool) {
		if c, ok := cc.Args[0].(*ssa.Const); ok && c.Value != nil && x.te.StrSort == "String" {
			if t, ok := x.formatConst(st, constant.StringVal(c.Value), a[1]); ok {
				return Val{T: t, Typ: strT}, true
			}
			// unspecified but deterministic in the format and the arguments
			args := []Val{}
			for _, e := range a[1].Elems {
				args = append(args, e)
			}
			if len(args) == len(a[1].Elems) && len(args) > 0 {
				return x.uninterp(st, "sprintf_"+shortHash(constant.StringVal(c.Value)), args, strT), true
			}
		}
		return x.freshVal(st, "sprintf", strT), true
	}
}

// formatConst renders a constant format whose verbs are %d (integers) and
// %s/%v (strings) as a concatenation; anything else is not handled.
func (x *Exec) formatConst(st *State, format string, va Val) (Term, bool) {
	var parts []Term
	lit := ""
	argi := 0
	flush := func() {
		if lit != "" {
			parts = append(parts, StrLit(lit))
			lit = ""
		}
	}
	for i := 0; i < len(format); i++ {
		c := format[i]
		if c != '%' {
			lit += string(c)
			continue
		}
		i++
		if i >= len(format) {
			return Term{}, false
		}
		switch format[i] {
		case '%':
			lit += "%"
		case 'd', 's', 'v':
			if argi >= len(va.Elems) || va.Elems[argi].Dyn == nil {
				return Term{}, false
			}
			d := va.Elems[argi].Dyn
			argi++
			flush()
			switch {
			case isIntType(d.Typ) && d.T.Sort == "Int":
				parts = append(parts, x.itoa(st, d.T).T)
			case isStringType(d.Typ) && format[i] != 'd':
				parts = append(parts, d.T)
			default:
				return Term{}, false
			}
		default:
			return Term{}, false
		}
	}
	flush()
	if argi != len(va.Elems) {
		return Term{}, false
	}
	switch len(parts) {
	case 0:
		return StrLit(""), true
	case 1:
		return parts[0], true
	}
	return mk("String", "str.++", parts...), true
}

// response ghost, as seen by specifications
func (e *Env) respHeader(name string) Term {
	x := e.x
	for i := len(e.st.resp) - 1; i >= 0; i-- {
		ev := e.st.resp[i]
		if ev.Kind == "header" {
			if ev.Key == name {
				return ev.Val
			}
			if ev.Key == "" {
				// set under a computed name: unknown
				return x.d.Fresh("hdr_unknown", x.te.StrSort)
			}
		}
	}
	return x.te.StrConst("")
}

func (e *Env) respStatus() Term {
	for i := len(e.st.resp) - 1; i >= 0; i-- {
		if e.st.resp[i].Kind == "status" {
			// the first WriteHeader wins in net/http; handlers here call it once
			first := e.st.resp[i].Val
			for j := 0; j < i; j++ {
				if e.st.resp[j].Kind == "status" {
					first = e.st.resp[j].Val
					break
				}
			}
			return first
		}
	}
	for _, ev := range e.st.resp {
		if ev.Kind == "body" || ev.Kind == "bodycopy" {
			return IntLit(200)
		}
	}
	return IntLit(0)
}

func (e *Env) respBodyLen() (Term, bool) {
	n := IntLit(0)
	for _, ev := range e.st.resp {
		switch ev.Kind {
		case "body":
			n = Add(n, ev.Val)
		case "bodycopy":
			return Term{}, false
		}
	}
	return n, true
}

var _ = strings.TrimSpace
var _ = fmt.Sprint
