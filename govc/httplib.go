package main

// net/http and fmt modelling for the server/client properties:
// the ghost HTTP response (header sets, status, body writes) and
// formatting of integers/strings with constant formats.

import (
	"net/textproto"
	"fmt"
	"go/constant"
	"go/types"
	"strings"

	"golang.org/x/tools/go/ssa"
)

func init() {
	strT := types.Typ[types.String]
	intT := types.Typ[types.Int]
	errT := types.Universe.Lookup("error").Type()

	// resp.Header(): the response's header map, a fixed ghost object
	libTable["iface:http.ResponseWriter.Header"] = func(x *Exec, fr *Frame, st *State, cc *ssa.CallCommon, a []Val) (Val, bool) {
		T := cc.Signature().Results().At(0).Type()
		v := x.uninterp(st, "respHeader", []Val{a[0]}, T)
		st.assume(Not(Eq(v.T, IntLit(0))))
		v.Org = "resp-header"
		x.funcsUsed["lib:http.ResponseWriter (ghost response: header sets, status and body writes are recorded; no other effect)"] = true
		return v, true
	}
	libTable["iface:http.ResponseWriter.WriteHeader"] = func(x *Exec, fr *Frame, st *State, cc *ssa.CallCommon, a []Val) (Val, bool) {
		st.resp = append(st.resp, RespEvent{Kind: "status", Val: a[1].T})
		return Val{}, true
	}
	libTable["iface:http.ResponseWriter.Write"] = func(x *Exec, fr *Frame, st *State, cc *ssa.CallCommon, a []Val) (Val, bool) {
		x.te.SortOf(cc.Args[0].Type())
		st.resp = append(st.resp, RespEvent{Kind: "body", Val: sliceLen(a[1].T)})
		n := x.freshVal(st, "written", intT)
		e := x.freshVal(st, "werr", errT)
		return Val{Tup: []Val{n, e}}, true
	}
	// A header map that is not the ghost response's is an ordinary Go map
	// (http.Header is map[string][]string): Set stores the one-element list
	// under the canonical key, Get reads the first element, Del removes.
	hdrMap := func(x *Exec, st *State, T types.Type) (hk, hs, vk, vs string, ok bool) {
		mt, isMap := T.Underlying().(*types.Map)
		if !isMap || x.te.StrSort != "String" {
			return "", "", "", "", false
		}
		x.te.SortOf(mt.Elem())
		hk, hs, vk, vs = x.mapComps(mt)
		return hk, hs, vk, vs, true
	}
	canonKey := func(x *Exec, st *State, v ssa.Value, t Term) Term {
		if c, ok := v.(*ssa.Const); ok && c.Value != nil && c.Value.Kind() == constant.String {
			return StrLit(textproto.CanonicalMIMEHeaderKey(constant.StringVal(c.Value)))
		}
		x.d.DeclareFun("hdrCanon", "(declare-fun hdrCanon (String) String)")
		return mk("String", "hdrCanon", t)
	}
	libTable["(net/http.Header).Del"] = func(x *Exec, fr *Frame, st *State, cc *ssa.CallCommon, a []Val) (Val, bool) {
		if a[0].Org == "resp-header" {
			return Val{}, false
		}
		hk, hs, _, _, ok := hdrMap(x, st, cc.Args[0].Type())
		if !ok {
			return Val{}, false
		}
		has := x.heapGet(st, hk, hs)
		k := canonKey(x, st, cc.Args[1], a[1].T)
		st.heap[hk] = Ite(Eq(a[0].T, IntLit(0)), has, Store(has, a[0].T, Store(Select(has, a[0].T), k, False)))
		x.funcsUsed["lib:net/http.Header Set/Get/Del on a request's header map (map[string][]string semantics with canonical keys)"] = true
		return Val{}, true
	}
	libTable["(net/http.Header).Set"] = func(x *Exec, fr *Frame, st *State, cc *ssa.CallCommon, a []Val) (Val, bool) {
		if a[0].Org != "resp-header" {
			hk, hs, vk, vs, ok := hdrMap(x, st, cc.Args[0].Type())
			if !ok {
				return Val{}, true
			}
			x.oblige(st, "SAFE", "nil-map-write("+x.posText(cc.Pos())+")", Not(Eq(a[0].T, IntLit(0))), "assignment to entry in nil map")
			st.assume(Not(Eq(a[0].T, IntLit(0))))
			has := x.heapGet(st, hk, hs)
			val := x.heapGet(st, vk, vs)
			k := canonKey(x, st, cc.Args[1], a[1].T)
			elemT := cc.Args[0].Type().Underlying().(*types.Map).Elem()
			one := x.te.SliceMake(elemT, Store(constArray("Int", StrLit("")), IntLit(0), a[2].T), IntLit(1), IntLit(1), False)
			st.heap[hk] = Store(has, a[0].T, Store(Select(has, a[0].T), k, True))
			st.heap[vk] = Store(val, a[0].T, Store(Select(val, a[0].T), k, one))
			x.funcsUsed["lib:net/http.Header Set/Get/Del on a request's header map (map[string][]string semantics with canonical keys)"] = true
			return Val{}, true
		}
		key := ""
		if c, ok := cc.Args[1].(*ssa.Const); ok && c.Value != nil && c.Value.Kind() == constant.String {
			key = constant.StringVal(c.Value)
		}
		st.resp = append(st.resp, RespEvent{Kind: "header", Key: key, KeyT: a[1].T, Val: a[2].T})
		return Val{}, true
	}
	respSet := libTable["(net/http.Header).Set"]
	libTable["(net/http.Header).Add"] = func(x *Exec, fr *Frame, st *State, cc *ssa.CallCommon, a []Val) (Val, bool) {
		if a[0].Org == "resp-header" {
			return respSet(x, fr, st, cc, a)
		}
		// appending to a request header's list is not modelled: the entry becomes unknown
		hk, hs, vk, vs, ok := hdrMap(x, st, cc.Args[0].Type())
		if !ok {
			return Val{}, true
		}
		st.assume(Not(Eq(a[0].T, IntLit(0))))
		has := x.heapGet(st, hk, hs)
		val := x.heapGet(st, vk, vs)
		k := canonKey(x, st, cc.Args[1], a[1].T)
		elemT := cc.Args[0].Type().Underlying().(*types.Map).Elem()
		nv := x.freshVal(st, "hdr_added", elemT)
		st.assume(Ge(sliceLen(nv.T), IntLit(1)))
		st.heap[hk] = Store(has, a[0].T, Store(Select(has, a[0].T), k, True))
		st.heap[vk] = Store(val, a[0].T, Store(Select(val, a[0].T), k, nv.T))
		return Val{}, true
	}
	libTable["(net/http.Header).Get"] = func(x *Exec, fr *Frame, st *State, cc *ssa.CallCommon, a []Val) (Val, bool) {
		if a[0].Org != "resp-header" {
			if hk, hs, vk, vs, ok := hdrMap(x, st, cc.Args[0].Type()); ok {
				has := x.heapGet(st, hk, hs)
				val := x.heapGet(st, vk, vs)
				k := canonKey(x, st, cc.Args[1], a[1].T)
				present := And(Not(Eq(a[0].T, IntLit(0))), Select(Select(has, a[0].T), k))
				lst := Select(Select(val, a[0].T), k)
				r := Ite(And(present, Gt(sliceLen(lst), IntLit(0))), Select(sliceArr(lst), IntLit(0)), StrLit(""))
				x.funcsUsed["lib:net/http.Header Set/Get/Del on a request's header map (map[string][]string semantics with canonical keys)"] = true
				return Val{T: x.nameTerm(st, "hdrget", r), Typ: strT}, true
			}
		}
		return x.uninterp(st, "hdrGet", []Val{a[0], a[1]}, strT), true
	}
	libTable["net/http.Redirect"] = func(x *Exec, fr *Frame, st *State, cc *ssa.CallCommon, a []Val) (Val, bool) {
		st.resp = append(st.resp, RespEvent{Kind: "header", Key: "Location", KeyT: StrLit("Location"), Val: a[2].T})
		st.resp = append(st.resp, RespEvent{Kind: "status", Val: a[3].T})
		return Val{}, true
	}
	libTable["io.Copy"] = func(x *Exec, fr *Frame, st *State, cc *ssa.CallCommon, a []Val) (Val, bool) {
		// the bytes the source yields are appended to the destination; the
		// source is foreign code with its own state only
		st.resp = append(st.resp, RespEvent{Kind: "bodycopy", KeyT: a[0].T, Val: a[1].T})
		n := x.freshVal(st, "copied", types.Typ[types.Int64])
		st.assume(Ge(n.T, IntLit(0)))
		e := x.freshVal(st, "cerr", errT)
		st.ghost["copyerr"] = e.T
		x.funcsUsed["lib:io.Copy (relays the source's bytes; no effect on the verified package's memory)"] = true
		return Val{Tup: []Val{n, e}}, true
	}
	libTable["(*net/http.Request).Context"] = func(x *Exec, fr *Frame, st *State, cc *ssa.CallCommon, a []Val) (Val, bool) {
		v := x.uninterp(st, "reqContext", []Val{a[0]}, cc.Signature().Results().At(0).Type())
		st.assume(Not(Eq(v.T, NilIface)))
		return v, true
	}

	// Readers/closers handed to us by net/http or by a backend are foreign
	// objects with their own state: Read and Close do not touch the memory of
	// the verified packages. Read returns 0 <= n <= len(buf).
	closeFn := func(x *Exec, fr *Frame, st *State, cc *ssa.CallCommon, a []Val) (Val, bool) {
		x.disown(st, a[0], "closed")
		// ghost: the values Close was called on along this path (spec builtin closed(v))
		st.ghost[fmt.Sprintf("closedv:%d", len(st.ghost))] = a[0].T
		x.funcsUsed["lib:io.Reader/io.Closer (foreign objects: Read returns 0<=n<=len(buf); no effect on the verified packages' memory)"] = true
		return x.freshVal(st, "close_err", errT), true
	}
	readFn := func(x *Exec, fr *Frame, st *State, cc *ssa.CallCommon, a []Val) (Val, bool) {
		n := x.freshVal(st, "read_n", intT)
		x.te.SortOf(cc.Args[0].Type())
		st.assume(And(Le(IntLit(0), n.T), Le(n.T, sliceLen(a[1].T))))
		if a[1].Src != nil && a[1].T.Sort != "" {
			// the reader fills the buffer: its contents are unknown afterwards
			if srt, ok := sliceArrSort[a[1].T.Sort]; ok {
				nb := mk(a[1].T.Sort, "mk_"+a[1].T.Sort, x.d.Fresh("readbuf", srt), sliceLen(a[1].T), sliceCap(a[1].T), sliceNil(a[1].T))
				x.store(st, a[1].Src, Val{T: nb, Typ: a[1].Typ})
			}
		}
		x.funcsUsed["lib:io.Reader/io.Closer (foreign objects: Read returns 0<=n<=len(buf); no effect on the verified packages' memory)"] = true
		return Val{Tup: []Val{n, x.freshVal(st, "read_err", errT)}}, true
	}
	for _, it := range []string{"io.ReadCloser", "io.Closer", "io.WriteCloser", "io.ReadSeekCloser"} {
		libTable["iface:"+it+".Close"] = closeFn
	}
	for _, it := range []string{"io.ReadCloser", "io.Reader", "io.ReadSeekCloser"} {
		libTable["iface:"+it+".Read"] = readFn
	}
	libTable["(github.com/opencontainers/go-digest.Algorithm).Hash"] = func(x *Exec, fr *Frame, st *State, cc *ssa.CallCommon, a []Val) (Val, bool) {
		// panics for an unavailable algorithm (callers establish validity of the digest); otherwise a fresh hash
		h := x.freshVal(st, "hash", cc.Signature().Results().At(0).Type())
		st.assume(Not(Eq(h.T, NilIface)))
		if x.te.StrSort == "String" {
			// a new hash object (fresh identity) that has absorbed nothing yet
			ref := Term{fmt.Sprintf("(ival %s)", h.T.S), "Int"}
			st.assume(Eq(ref, x.freshRef(st)))
			gh := x.heapGet(st, "GH_hashed", "(Array Int String)")
			st.heap["GH_hashed"] = Store(gh, ref, StrLit(""))
			// ... of the algorithm it was created for (spec builtin hashAlg(h))
			if a[0].T.Sort == "String" {
				ga := x.heapGet(st, "GH_hashalg", "(Array Int String)")
				st.heap["GH_hashalg"] = Store(ga, ref, a[0].T)
			}
		}
		x.funcsUsed["lib:go-digest Algorithm.Hash returns a non-nil hash for a registered algorithm (panics otherwise: callers must pass validated digests)"] = true
		return h, true
	}
	// hash.Hash: the ghost string hashed(h) is everything written so far
	libTable["iface:hash.Hash.Write"] = func(x *Exec, fr *Frame, st *State, cc *ssa.CallCommon, a []Val) (Val, bool) {
		if x.te.StrSort != "String" || x.te.ByteBV {
			return Val{}, false
		}
		x.te.SortOf(cc.Args[0].Type())
		ref := Term{fmt.Sprintf("(ival %s)", a[0].T.S), "Int"}
		gh := x.heapGet(st, "GH_hashed", "(Array Int String)")
		st.heap["GH_hashed"] = Store(gh, ref, mk("String", "str.++", Select(gh, ref), x.bytesToString(st, a[1].T)))
		x.funcsUsed["lib:hash.Hash.Write absorbs exactly the bytes given and never fails (documented); hash objects created by the verified package are not written to by foreign code"] = true
		return Val{Tup: []Val{{T: sliceLen(a[1].T), Typ: intT}, {T: NilIface, Typ: errT}}}, true
	}
	libTable["github.com/opencontainers/go-digest.NewDigest"] = func(x *Exec, fr *Frame, st *State, cc *ssa.CallCommon, a []Val) (Val, bool) {
		if x.te.StrSort != "String" {
			return Val{}, false
		}
		ref := Term{fmt.Sprintf("(ival %s)", a[1].T.S), "Int"}
		gh := x.heapGet(st, "GH_hashed", "(Array Int String)")
		x.funcsUsed["lib:go-digest NewDigest(alg, h) is digestOf(alg, bytes written to h) when h is a hash of algorithm alg (else an unspecified string), the same function FromBytes computes for sha256"] = true
		T := cc.Signature().Results().At(0).Type()
		dg := x.digestOf(st, a[0].T, Select(gh, ref), T)
		if a[0].T.Sort == "String" {
			ga := x.heapGet(st, "GH_hashalg", "(Array Int String)")
			dg.T = Ite(Eq(Select(ga, ref), a[0].T), dg.T, x.d.Fresh("dg_wrongalg", "String"))
		}
		return dg, true
	}
	// base64 decoding: an unspecified function of the encoding used and the text
	libTable["(*encoding/base64.Encoding).DecodeString"] = func(x *Exec, fr *Frame, st *State, cc *ssa.CallCommon, a []Val) (Val, bool) {
		if x.te.StrSort != "String" || x.te.ByteBV {
			return Val{}, false
		}
		T := cc.Signature().Results().At(0).Type()
		data := x.freshVal(st, "b64", T)
		e := x.freshVal(st, "b64_err", errT)
		x.d.DeclareFun("b64dec", "(declare-fun b64dec (Int String) String)")
		st.assume(Implies(Eq(e.T, NilIface), Eq(x.bytesToString(st, data.T), mk("String", "b64dec", a[0].T, a[1].T))))
		x.funcsUsed["lib:base64 Encoding.DecodeString (on success the bytes are b64dec(encoding, text), an unspecified deterministic function)"] = true
		return Val{Tup: []Val{data, e}}, true
	}
	libTable["crypto/rand.Read"] = func(x *Exec, fr *Frame, st *State, cc *ssa.CallCommon, a []Val) (Val, bool) {
		x.te.SortOf(cc.Args[0].Type())
		x.funcsUsed["lib:crypto/rand.Read never fails (documented: it never returns an error on supported platforms)"] = true
		return Val{Tup: []Val{{T: sliceLen(a[0].T), Typ: intT}, {T: NilIface, Typ: errT}}}, true
	}
	libTable["io.ReadAll"] = func(x *Exec, fr *Frame, st *State, cc *ssa.CallCommon, a []Val) (Val, bool) {
		T := cc.Signature().Results().At(0).Type()
		data := x.freshVal(st, "readall", T)
		e := x.freshVal(st, "readall_err", errT)
		// io.ReadAll never returns a nil slice; the slice is its caller's own
		st.assume(Not(sliceNil(data.T)))
		data.Fresh = true
		// ghost: on success the result is everything the reader still held (spec builtin unread(rd)),
		// and the reader is then exhausted
		if x.te.StrSort == "String" && !x.te.ByteBV && len(a) == 1 && a[0].T.Sort == "Iface" {
			rb := x.heapGet(st, "GH_rbytes", "(Array Int String)")
			id := Term{fmt.Sprintf("(ival %s)", a[0].T.S), "Int"}
			st.assume(Implies(Eq(e.T, NilIface), Eq(x.bytesToString(st, data.T), Select(rb, id))))
			st.heap["GH_rbytes"] = Store(rb, id, StrLit(""))
			x.funcsUsed["lib:io.ReadAll (on success the result is everything the reader still held: unread(rd); nothing else reads from that reader meanwhile)"] = true
		}
		if x.ctr != nil && x.ctr.LogLib {
			// the read appears in the call log of a function that asks for it (`log-lib`), so that
			// its contract can tell a failed read from a successful one
			st.calls = append(st.calls, &CallEvent{Kind: "static", Static: cc.StaticCallee(), Args: a, Results: []Val{data, e}, Desc: "io.ReadAll"})
		}
		return Val{Tup: []Val{data, e}}, true
	}
	libTable["io.LimitReader"] = func(x *Exec, fr *Frame, st *State, cc *ssa.CallCommon, a []Val) (Val, bool) {
		r := x.freshVal(st, "limitreader", cc.Signature().Results().At(0).Type())
		st.assume(Not(Eq(r.T, NilIface)))
		return r, true
	}
	libTable["io.NopCloser"] = libTable["io.LimitReader"]

	// (*http.Client).Do: on success a well-formed response
	libTable["(*net/http.Client).Do"] = func(x *Exec, fr *Frame, st *State, cc *ssa.CallCommon, a []Val) (Val, bool) {
		respT := cc.Signature().Results().At(0).Type()
		resp := x.freshVal(st, "http_resp", respT)
		err := x.freshVal(st, "http_err", errT)
		x.knownRef(st, resp.T)
		x.httpRespFacts(st, resp, respT, Eq(err.T, NilIface))
		st.assume(Implies(Not(Eq(err.T, NilIface)), Eq(resp.T, IntLit(0))))
		x.funcsUsed["lib:(*net/http.Client).Do (on success: non-nil response with non-nil Body and Request, Request.URL non-nil; the request sent is not otherwise modelled)"] = true
		return Val{Tup: []Val{resp, err}}, true
	}
	libTable["net/http.NewRequestWithContext"] = func(x *Exec, fr *Frame, st *State, cc *ssa.CallCommon, a []Val) (Val, bool) {
		reqT := cc.Signature().Results().At(0).Type()
		req := x.freshVal(st, "http_req", reqT)
		err := x.freshVal(st, "newreq_err", errT)
		x.knownRef(st, req.T)
		ok := Eq(err.T, NilIface)
		st.assume(Eq(ok, Not(Eq(req.T, IntLit(0)))))
		x.httpReqFacts(st, req, reqT, ok)
		// ghost: the bytes the request will send (spec builtin bodyBytes(req)): what its body
		// reader holds, when that is known (bytes.NewReader / io.MultiReader of such), "" for no body
		if x.te.StrSort == "String" && !x.te.ByteBV && len(a) == 4 && a[3].T.Sort == "Iface" {
			rb := x.heapGet(st, "GH_rbytes", "(Array Int String)")
			gb := x.heapGet(st, "GH_reqbody", "(Array Int String)")
			body := Ite(Eq(a[3].T, NilIface), StrLit(""), Select(rb, Term{fmt.Sprintf("(ival %s)", a[3].T.S), "Int"}))
			st.heap["GH_reqbody"] = Store(gb, req.T, body)
		}
		x.funcsUsed["lib:net/http.NewRequestWithContext (on success: non-nil request with non-nil URL and Header; its body is the reader it was given)"] = true
		return Val{Tup: []Val{req, err}}, true
	}
	// bytes.NewReader(b): a fresh reader over exactly those bytes (ghost GH_rbytes)
	libTable["bytes.NewReader"] = func(x *Exec, fr *Frame, st *State, cc *ssa.CallCommon, a []Val) (Val, bool) {
		if x.te.StrSort != "String" || x.te.ByteBV {
			return Val{}, false
		}
		x.te.SortOf(cc.Args[0].Type())
		r := Val{T: x.freshRef(st), Typ: cc.Signature().Results().At(0).Type()}
		// handed out as an io.Reader: identity by the pointer value
		rb := x.heapGet(st, "GH_rbytes", "(Array Int String)")
		st.heap["GH_rbytes"] = Store(rb, r.T, x.bytesToString(st, a[0].T))
		x.funcsUsed["lib:bytes.NewReader (a reader over exactly the given bytes)"] = true
		return r, true
	}
	// io.MultiReader(r1, r2, ...): reads the readers one after the other
	libTable["io.MultiReader"] = func(x *Exec, fr *Frame, st *State, cc *ssa.CallCommon, a []Val) (Val, bool) {
		if x.te.StrSort != "String" || x.te.ByteBV || len(a) != 1 || len(a[0].Elems) == 0 {
			return Val{}, false
		}
		rb := x.heapGet(st, "GH_rbytes", "(Array Int String)")
		all := StrLit("")
		for _, e := range a[0].Elems {
			if e.T.Sort != "Iface" {
				return Val{}, false
			}
			all = mk("String", "str.++", all, Select(rb, Term{fmt.Sprintf("(ival %s)", e.T.S), "Int"}))
		}
		r := x.freshVal(st, "multireader", cc.Signature().Results().At(0).Type())
		st.assume(Not(Eq(r.T, NilIface)))
		id := x.freshRef(st)
		st.assume(Eq(Term{fmt.Sprintf("(ival %s)", r.T.S), "Int"}, id))
		st.heap["GH_rbytes"] = Store(x.heapGet(st, "GH_rbytes", "(Array Int String)"), id, all)
		x.funcsUsed["lib:io.MultiReader (reads its readers one after the other)"] = true
		return r, true
	}
	// req.Clone(ctx): a new request object with its own URL and header map;
	// the header map holds the same entries as the original's
	libTable["(*net/http.Request).Clone"] = func(x *Exec, fr *Frame, st *State, cc *ssa.CallCommon, a []Val) (Val, bool) {
		reqT := cc.Signature().Results().At(0).Type()
		si := x.te.Struct(reqT.Underlying().(*types.Pointer).Elem())
		ref := x.freshRef(st)
		st.ghost["fresh:"+ref.S] = True
		for i, fn := range si.FNames {
			key, sort := x.fieldComp(si, i)
			cur := x.heapGet(st, key, sort)
			ov := Select(cur, a[0].T)
			switch fn {
			case "Header":
				nh := x.freshRef(st)
				if mt, ok := si.FTypes[i].Underlying().(*types.Map); ok && x.te.StrSort == "String" {
					x.te.SortOf(mt.Elem())
					hk, hs, vk, vs := x.mapComps(mt)
					has := x.heapGet(st, hk, hs)
					val := x.heapGet(st, vk, vs)
					st.heap[hk] = Store(has, nh, Select(has, ov))
					st.heap[vk] = Store(val, nh, Select(val, ov))
				}
				st.heap[key] = Store(cur, ref, Ite(Eq(ov, IntLit(0)), IntLit(0), nh))
			case "URL":
				nu := x.freshRef(st)
				ui := x.te.Struct(si.FTypes[i].Underlying().(*types.Pointer).Elem())
				for j := range ui.Acc {
					uk, us := x.fieldComp(ui, j)
					uc := x.heapGet(st, uk, us)
					st.heap[uk] = Store(uc, nu, Select(uc, ov))
				}
				st.heap[key] = Store(cur, ref, Ite(Eq(ov, IntLit(0)), IntLit(0), nu))
			default:
				st.heap[key] = Store(cur, ref, ov)
			}
		}
		x.funcsUsed["lib:(*net/http.Request).Clone (a fresh request with its own URL and header map holding the same values)"] = true
		return Val{T: ref, Typ: reqT}, true
	}
	// req.SetBasicAuth(u, p): Authorization: Basic <credentials>
	libTable["(*net/http.Request).SetBasicAuth"] = func(x *Exec, fr *Frame, st *State, cc *ssa.CallCommon, a []Val) (Val, bool) {
		reqT := cc.Args[0].Type()
		h, hT, found := x.structFieldTerm(st, reqT, a[0].T, "Header")
		mt, isMap := hT.Underlying().(*types.Map)
		if !found || !isMap || x.te.StrSort != "String" {
			return Val{}, false
		}
		x.te.SortOf(mt.Elem())
		hk, hs, vk, vs := x.mapComps(mt)
		has := x.heapGet(st, hk, hs)
		val := x.heapGet(st, vk, vs)
		x.d.DeclareFun("basicAuth", "(declare-fun basicAuth (String String) String)")
		v := mk("String", "str.++", StrLit("Basic "), mk("String", "basicAuth", a[1].T, a[2].T))
		one := x.te.SliceMake(mt.Elem(), Store(constArray("Int", StrLit("")), IntLit(0), v), IntLit(1), IntLit(1), False)
		k := StrLit("Authorization")
		st.heap[hk] = Store(has, h, Store(Select(has, h), k, True))
		st.heap[vk] = Store(val, h, Store(Select(val, h), k, one))
		x.funcsUsed["lib:(*net/http.Request).SetBasicAuth (sets Authorization to \"Basic \" + an injective encoding of user and password)"] = true
		return Val{}, true
	}
	libTable["net/url.Parse"] = func(x *Exec, fr *Frame, st *State, cc *ssa.CallCommon, a []Val) (Val, bool) {
		uT := cc.Signature().Results().At(0).Type()
		u := x.freshVal(st, "url", uT)
		err := x.freshVal(st, "url_err", errT)
		x.knownRef(st, u.T)
		st.assume(Eq(Eq(err.T, NilIface), Not(Eq(u.T, IntLit(0)))))
		return Val{Tup: []Val{u, err}}, true
	}
	libTable["(*net/url.URL).Parse"] = func(x *Exec, fr *Frame, st *State, cc *ssa.CallCommon, a []Val) (Val, bool) {
		return libTable["net/url.Parse"](x, fr, st, cc, a[1:])
	}
	libTable["(*net/url.URL).ResolveReference"] = func(x *Exec, fr *Frame, st *State, cc *ssa.CallCommon, a []Val) (Val, bool) {
		u := x.freshVal(st, "url", cc.Signature().Results().At(0).Type())
		st.assume(Not(Eq(u.T, IntLit(0))))
		return u, true
	}
	libTable["(*net/url.URL).String"] = func(x *Exec, fr *Frame, st *State, cc *ssa.CallCommon, a []Val) (Val, bool) {
		return x.freshVal(st, "urlstr", strT), true
	}
	libTable["(*net/url.URL).Query"] = func(x *Exec, fr *Frame, st *State, cc *ssa.CallCommon, a []Val) (Val, bool) {
		q := x.freshVal(st, "query", cc.Signature().Results().At(0).Type())
		st.assume(Not(Eq(q.T, IntLit(0))))
		return q, true
	}

	// fmt.Sprint(x) for a single integer or string argument
	libTable["fmt.Sprint"] = func(x *Exec, fr *Frame, st *State, cc *ssa.CallCommon, a []Val) (Val, bool) {
		if len(a[0].Elems) == 1 && a[0].Elems[0].Dyn != nil {
			d := a[0].Elems[0].Dyn
			switch {
			case isIntType(d.Typ) && d.T.Sort == "Int":
				return x.itoa(st, d.T), true
			case isStringType(d.Typ):
				return Val{T: d.T, Typ: strT}, true
			}
		}
		return x.freshVal(st, "sprint", strT), true
	}
	libTable["fmt.Sprintf"] = func(x *Exec, fr *Frame, st *State, cc *ssa.CallCommon, a []Val) (Val, bool) {
		if c, ok := cc.Args[0].(*ssa.Const); ok && c.Value != nil && x.te.StrSort == "String" {
			if t, ok := x.formatConst(st, constant.StringVal(c.Value), a[1]); ok {
				return Val{T: t, Typ: strT}, true
			}
			// unspecified but deterministic in the format and the arguments
			args := []Val{}
			for _, e := range a[1].Elems {
				args = append(args, e)
			}
			if len(args) == len(a[1].Elems) && len(args) > 0 {
				return x.uninterp(st, "sprintf_"+shortHash(constant.StringVal(c.Value)), args, strT), true
			}
		}
		return x.freshVal(st, "sprintf", strT), true
	}
}

// formatConst renders a constant format whose verbs are %d (integers) and
// %s/%v (strings) as a concatenation; anything else is not handled.
func (x *Exec) formatConst(st *State, format string, va Val) (Term, bool) {
	var parts []Term
	lit := ""
	argi := 0
	flush := func() {
		if lit != "" {
			parts = append(parts, StrLit(lit))
			lit = ""
		}
	}
	for i := 0; i < len(format); i++ {
		c := format[i]
		if c != '%' {
			lit += string(c)
			continue
		}
		i++
		if i >= len(format) {
			return Term{}, false
		}
		switch format[i] {
		case '%':
			lit += "%"
		case 'd', 's', 'v':
			if argi >= len(va.Elems) || va.Elems[argi].Dyn == nil {
				return Term{}, false
			}
			d := va.Elems[argi].Dyn
			argi++
			flush()
			switch {
			case isIntType(d.Typ) && d.T.Sort == "Int":
				parts = append(parts, x.itoa(st, d.T).T)
			case isStringType(d.Typ) && format[i] != 'd':
				parts = append(parts, d.T)
			default:
				return Term{}, false
			}
		default:
			return Term{}, false
		}
	}
	flush()
	if argi != len(va.Elems) {
		return Term{}, false
	}
	switch len(parts) {
	case 0:
		return StrLit(""), true
	case 1:
		return parts[0], true
	}
	return mk("String", "str.++", parts...), true
}

// response ghost, as seen by specifications
func (e *Env) respHeader(name string) Term {
	x := e.x
	for i := len(e.st.resp) - 1; i >= 0; i-- {
		ev := e.st.resp[i]
		if ev.Kind == "header" {
			if ev.Key == name {
				return ev.Val
			}
			if ev.Key == "" {
				// set under a computed name: unknown
				return x.d.Fresh("hdr_unknown", x.te.StrSort)
			}
		}
	}
	return x.te.StrConst("")
}

func (e *Env) respStatus() Term {
	for i := len(e.st.resp) - 1; i >= 0; i-- {
		if e.st.resp[i].Kind == "status" {
			// the first WriteHeader wins in net/http; handlers here call it once
			first := e.st.resp[i].Val
			for j := 0; j < i; j++ {
				if e.st.resp[j].Kind == "status" {
					first = e.st.resp[j].Val
					break
				}
			}
			return first
		}
	}
	for _, ev := range e.st.resp {
		if ev.Kind == "body" || ev.Kind == "bodycopy" {
			return IntLit(200)
		}
	}
	return IntLit(0)
}

func (e *Env) respBodyLen() (Term, bool) {
	n := IntLit(0)
	for _, ev := range e.st.resp {
		switch ev.Kind {
		case "body":
			n = Add(n, ev.Val)
		case "bodycopy":
			return Term{}, false
		}
	}
	return n, true
}

var _ = strings.TrimSpace
var _ = fmt.Sprint

func (x *Exec) structFieldTerm(st *State, T types.Type, ref Term, field string) (Term, types.Type, bool) {
	pt, ok := T.Underlying().(*types.Pointer)
	if !ok {
		return Term{}, nil, false
	}
	si := x.te.Struct(pt.Elem())
	i := si.FieldIndex(field)
	if i < 0 {
		return Term{}, nil, false
	}
	key, sort := x.fieldComp(si, i)
	return Select(x.heapGet(st, key, sort), ref), si.FTypes[i], true
}

func (x *Exec) httpRespFacts(st *State, resp Val, respT types.Type, ok Term) {
	var fs []Term
	fs = append(fs, Not(Eq(resp.T, IntLit(0))))
	if b, _, found := x.structFieldTerm(st, respT, resp.T, "Body"); found {
		fs = append(fs, Not(Eq(b, NilIface)))
	}
	if rq, rqT, found := x.structFieldTerm(st, respT, resp.T, "Request"); found {
		fs = append(fs, Not(Eq(rq, IntLit(0))))
		if u, _, found := x.structFieldTerm(st, rqT, rq, "URL"); found {
			fs = append(fs, Not(Eq(u, IntLit(0))))
		}
	}
	st.assume(Implies(ok, And(fs...)))
}

func (x *Exec) httpReqFacts(st *State, req Val, reqT types.Type, ok Term) {
	var fs []Term
	if u, _, found := x.structFieldTerm(st, reqT, req.T, "URL"); found {
		fs = append(fs, Not(Eq(u, IntLit(0))))
	}
	if h, _, found := x.structFieldTerm(st, reqT, req.T, "Header"); found {
		fs = append(fs, Not(Eq(h, IntLit(0))))
	}
	st.assume(Implies(ok, And(fs...)))
}

// errAsTerm: the selector behind errors.As for target type T.
func (x *Exec) errAsTerm(st *State, err Val, T types.Type) Val {
	v := x.uninterp(st, "errAs_"+sanitize(shortTypeName(T)), []Val{{T: err.T, Typ: types.Universe.Lookup("error").Type()}}, T)
	// nothing is found in a nil error
	switch T.Underlying().(type) {
	case *types.Pointer:
		st.assume(Implies(Eq(err.T, NilIface), Eq(v.T, IntLit(0))))
	case *types.Interface:
		st.assume(Implies(Eq(err.T, NilIface), Eq(v.T, NilIface)))
	}
	return v
}
