package main

// Semantics of value-producing SSA instructions.

import (
	"fmt"
	"go/token"
	"go/types"
	"sort"
	"strings"

	"golang.org/x/tools/go/ssa"
)

func (x *Exec) evalInstr(fr *Frame, st *State, in ssa.Value) (Val, bool) {
	switch in := in.(type) {
	case *ssa.Alloc:
		T := in.Type().Underlying().(*types.Pointer).Elem()
		if _, isStruct := T.Underlying().(*types.Struct); isStruct && in.Heap {
			ref := x.freshRef(st)
			si := x.te.Struct(T)
			for i := range si.Acc {
				key, sort := x.fieldComp(si, i)
				st.heap[key] = Store(x.heapGet(st, key, sort), ref, x.te.Zero(si.FTypes[i]))
			}
			st.ghost["fresh:"+ref.S] = True
			if x.freshTypes == nil {
				x.freshTypes = map[string]types.Type{}
			}
			x.freshTypes[ref.S] = T
			return Val{T: ref, Typ: in.Type()}, true
		}
		c := x.newCell(in.Comment, T, in.Pos())
		st.cells[c] = Val{T: x.te.Zero(T), Typ: T}
		return Val{Loc: &Loc{Kind: LCell, Cell: c, Elem: T}, Typ: in.Type()}, true

	case *ssa.UnOp:
		return x.unop(fr, st, in)

	case *ssa.BinOp:
		a := x.value(fr, st, in.X)
		b := x.value(fr, st, in.Y)
		return x.binop(st, in.Op, a, b, in.X.Type(), in.Type(), in.Pos()), true

	case *ssa.FieldAddr:
		p := x.value(fr, st, in.X)
		ST := in.X.Type().Underlying().(*types.Pointer).Elem()
		ft := ST.Underlying().(*types.Struct).Field(in.Field).Type()
		if p.Loc != nil {
			return Val{Loc: &Loc{Kind: LSub, Parent: p.Loc, ST: ST, Idx: in.Field, Elem: ft}, Typ: in.Type()}, true
		}
		x.oblige(st, "SAFE", "nil-deref("+x.exprText(in.X, in.Pos())+"."+ST.Underlying().(*types.Struct).Field(in.Field).Name()+")", Not(Eq(p.T, IntLit(0))), "field access through nil pointer")
		st.assume(Not(Eq(p.T, IntLit(0))))
		return Val{Loc: &Loc{Kind: LField, Base: p.T, ST: ST, Idx: in.Field, Elem: ft}, Typ: in.Type()}, true

	case *ssa.Field:
		s := x.value(fr, st, in.X)
		si := x.te.Struct(in.X.Type())
		v := Val{T: si.Get(s.T, in.Field), Typ: in.Type()}
		v.Org = "field:" + x.fieldKey(in.X.Type(), in.Field)
		return v, true

	case *ssa.IndexAddr:
		xs := x.value(fr, st, in.X)
		iv := x.value(fr, st, in.Index)
		switch u := in.X.Type().Underlying().(type) {
		case *types.Slice:
			x.te.SortOf(in.X.Type())
			x.oblige(st, "SAFE", "bounds("+x.posText(in.Pos())+")", And(Le(IntLit(0), iv.T), Lt(iv.T, sliceLen(xs.T))), "slice index out of range")
			st.assume(And(Le(IntLit(0), iv.T), Lt(iv.T, sliceLen(xs.T))))
			l := &Loc{Kind: LSliceElem, Parent: xs.Src, SliceV: xs.T, I: iv.T, Elem: u.Elem(), ST: in.X.Type()}
			if strings.HasPrefix(xs.Org, "table:") {
				l.Table = strings.TrimPrefix(xs.Org, "table:")
			}
			return Val{Loc: l, Typ: in.Type()}, true
		case *types.Pointer:
			at := u.Elem().Underlying().(*types.Array)
			x.oblige(st, "SAFE", "bounds("+x.posText(in.Pos())+")", And(Le(IntLit(0), iv.T), Lt(iv.T, IntLit(at.Len()))), "array index out of range")
			l := x.locOfPointer(st, xs, u.Elem())
			if xs.Loc == nil {
				x.oblige(st, "SAFE", "nil-deref("+x.posText(in.Pos())+")", Not(Eq(xs.T, IntLit(0))), "index through nil array pointer")
			}
			return Val{Loc: &Loc{Kind: LElem, Parent: l, I: iv.T, Elem: at.Elem()}, Typ: in.Type()}, true
		}
		x.note("unmodelled IndexAddr on %s", in.X.Type())
		return x.freshVal(st, "idxaddr", in.Type()), true

	case *ssa.Index:
		xs := x.value(fr, st, in.X)
		iv := x.value(fr, st, in.Index)
		switch u := in.X.Type().Underlying().(type) {
		case *types.Array:
			x.oblige(st, "SAFE", "bounds("+x.posText(in.Pos())+")", And(Le(IntLit(0), iv.T), Lt(iv.T, IntLit(u.Len()))), "array index out of range")
			return Val{T: Select(xs.T, iv.T), Typ: in.Type()}, true
		case *types.Basic:
			return x.stringIndex(st, xs, iv, in.Pos(), in.Type()), true
		}
		x.note("unmodelled Index on %s", in.X.Type())
		return x.freshVal(st, "idx", in.Type()), true

	case *ssa.Lookup:
		xs := x.value(fr, st, in.X)
		iv := x.value(fr, st, in.Index)
		if mt, ok := in.X.Type().Underlying().(*types.Map); ok {
			if strings.HasPrefix(xs.Org, "global:") {
				key := "G_" + sanitize(strings.ReplaceAll(strings.TrimPrefix(xs.Org, "global:"), ".", "_"))
				if cm, ok := x.L.constMaps[key]; ok && x.te.StrSort == "String" && isStringType(mt.Key()) {
					// a constant table built by the package initialiser
					var ks []string
					for k := range cm {
						ks = append(ks, k)
					}
					sort.Strings(ks)
					val := x.te.Zero(mt.Elem())
					present := False
					for _, k := range ks {
						c := Eq(iv.T, StrLit(k))
						val = Ite(c, IntLit(cm[k]), val)
						present = Or(present, c)
					}
					x.funcsUsed["struct:constant table "+strings.TrimPrefix(xs.Org, "global:")+" read off the package initialiser (never updated)"] = true
					v := Val{T: x.nameTerm(st, "tbl", val), Typ: mt.Elem()}
					if in.CommaOk {
						return Val{Typ: in.Type(), Tup: []Val{v, {T: x.nameTerm(st, "tblok", present), Typ: types.Typ[types.Bool]}}}, true
					}
					return v, true
				}
			}
			hk, hs, vk, vs := x.mapComps(mt)
			has := x.heapGet(st, hk, hs)
			val := x.heapGet(st, vk, vs)
			x.mapLockCheck(st, xs, "read")
			kt := x.termOf(st, &iv)
			present := And(Not(Eq(xs.T, IntLit(0))), Select(Select(has, xs.T), kt))
			zero := x.te.Zero(mt.Elem())
			v := Val{T: Ite(present, Select(Select(val, xs.T), kt), zero), Typ: mt.Elem()}
			v.T = x.nameTerm(st, "mv", v.T)
			x.loadFacts(st, v)
			if in.CommaOk {
				return Val{Typ: in.Type(), Tup: []Val{v, {T: present, Typ: types.Typ[types.Bool]}}}, true
			}
			return v, true
		}
		return x.stringIndex(st, xs, iv, in.Pos(), in.Type()), true

	case *ssa.Slice:
		return x.sliceOp(fr, st, in), true

	case *ssa.MakeMap:
		ref := x.freshRef(st)
		mt := in.Type().Underlying().(*types.Map)
		hk, hs, _, _ := x.mapComps(mt)
		has := x.heapGet(st, hk, hs)
		st.heap[hk] = Store(has, ref, constArray(x.te.SortOf(mt.Key()), False))
		st.ghost["fresh:"+ref.S] = True
		return Val{T: ref, Typ: in.Type()}, true

	case *ssa.MakeSlice:
		ln := x.value(fr, st, in.Len)
		cp := x.value(fr, st, in.Cap)
		sl := in.Type().Underlying().(*types.Slice)
		// make panics for a negative length, a capacity below the length, and a
		// capacity beyond what can be allocated at all (maxAlloc, 2^48 bytes on the
		// 64-bit targets; existing slices are assumed within that limit by their
		// type's range fact). The bound checked here, 2^62 elements, is far above
		// any sum of sizes of existing objects and far below an unconstrained
		// 64-bit integer (a size taken from untrusted input).
		x.oblige(st, "SAFE", "makeslice("+x.posText(in.Pos())+")", And(Le(IntLit(0), ln.T), Le(ln.T, cp.T), Le(cp.T, Term{"4611686018427387904", "Int"})), "makeslice: len or cap out of range")
		st.assume(And(Le(IntLit(0), ln.T), Le(ln.T, cp.T)))
		return Val{T: x.te.SliceMake(in.Type(), constArray("Int", x.te.Zero(sl.Elem())), ln.T, cp.T, False), Typ: in.Type(), Fresh: true}, true

	case *ssa.MakeChan:
		return Val{T: x.freshRef(st), Typ: in.Type()}, true

	case *ssa.MakeClosure:
		fn := in.Fn.(*ssa.Function)
		c := &Closure{Fn: fn}
		for _, b := range in.Bindings {
			c.Bindings = append(c.Bindings, x.value(fr, st, b))
		}
		env := x.freshRef(st)
		x.closurePre(fr, st, c)
		return Val{T: mk("Fn", "mk_Fn", IntLit(int64(x.te.FnID(fn.String()))), env), Typ: in.Type(), Clo: c}, true

	case *ssa.MakeInterface:
		v := x.value(fr, st, in.X)
		return x.makeInterface(st, v, in.X.Type(), in.Type()), true

	case *ssa.TypeAssert:
		return x.typeAssert(fr, st, in)

	case *ssa.ChangeInterface:
		v := x.value(fr, st, in.X)
		v.Typ = in.Type()
		return v, true

	case *ssa.ChangeType:
		v := x.value(fr, st, in.X)
		from, to := x.te.SortOf(in.X.Type()), x.te.SortOf(in.Type())
		if from != to && !v.T.IsZero() {
			v = x.convertStructural(st, v, in.X.Type(), in.Type())
		}
		v.Typ = in.Type()
		return v, true

	case *ssa.Convert:
		return x.convert(st, x.value(fr, st, in.X), in.X.Type(), in.Type()), true

	case *ssa.MultiConvert:
		return x.convert(st, x.value(fr, st, in.X), in.X.Type(), in.Type()), true

	case *ssa.Extract:
		t := x.value(fr, st, in.Tuple)
		if in.Index < len(t.Tup) {
			v := t.Tup[in.Index]
			if v.Typ == nil {
				v.Typ = in.Type()
			}
			return v, true
		}
		x.note("internal: extract from non-tuple")
		return x.freshVal(st, "extract", in.Type()), true

	case *ssa.Range:
		v := x.value(fr, st, in.X)
		if mt, ok := in.X.Type().Underlying().(*types.Map); ok {
			// ghost: the set of keys the iteration has produced so far, and
			// the key set of the map when the iteration started
			id := fmt.Sprintf("%p", in)
			hk, hs, _, _ := x.mapComps(mt)
			ks := x.te.SortOf(mt.Key())
			st.ghost["vis:"+id] = constArray(ks, False)
			st.ghost["vismap:"+id] = v.T
			st.ghost["vishas0:"+id] = Select(x.heapGet(st, hk, hs), v.T)
		}
		return Val{T: v.T, Typ: in.X.Type(), Org: "range"}, true

	case *ssa.Next:
		return x.nextInstr(fr, st, in), true

	case *ssa.Select:
		return x.selectInstr(fr, st, in), true

	case *ssa.SliceToArrayPointer:
		x.note("unmodelled SliceToArrayPointer")
		return x.freshVal(st, "s2ap", in.Type()), true
	}
	x.note("unmodelled value instruction %T", in)
	return x.freshVal(st, "unk", in.Type()), true
}

// nameTerm introduces a defined constant for a large term to keep queries small.
func (x *Exec) nameTerm(st *State, prefix string, t Term) Term {
	if len(t.S) < 160 {
		return t
	}
	n := x.d.Fresh(prefix, t.Sort)
	st.assume(Eq(n, t))
	return n
}

func (x *Exec) exprText(v ssa.Value, pos token.Pos) string {
	if t := x.L.debugName(v); t != "" {
		return t
	}
	return x.posText(pos)
}

func (x *Exec) stringIndex(st *State, s, i Val, pos token.Pos, T types.Type) Val {
	ln := x.te.StrLen(s.T)
	x.oblige(st, "SAFE", "bounds("+x.posText(pos)+")", And(Le(IntLit(0), i.T), Lt(i.T, ln)), "string index out of range")
	st.assume(And(Le(IntLit(0), i.T), Lt(i.T, ln)))
	var t Term
	if x.te.StrSort == "String" {
		t = Term{fmt.Sprintf("(str.to_code (str.at %s %s))", s.T.S, i.T.S), "Int"}
	} else {
		x.d.DeclareFun("sat", "(declare-fun sat (Str Int) Int)")
		t = Term{fmt.Sprintf("(sat %s %s)", s.T.S, i.T.S), "Int"}
	}
	st.assume(And(Le(IntLit(0), t), Le(t, IntLit(255))))
	if x.te.ByteBV {
		t = Term{fmt.Sprintf("((_ int2bv 8) %s)", t.S), "(_ BitVec 8)"}
	}
	return Val{T: t, Typ: T}
}

func (x *Exec) makeInterface(st *State, v Val, from, to types.Type) Val {
	if _, isIface := from.Underlying().(*types.Interface); isIface {
		v.Typ = to
		return v
	}
	tag := x.te.TagOf(from)
	var payload Term
	switch from.Underlying().(type) {
	case *types.Pointer, *types.Map, *types.Chan:
		payload = x.termOf(st, &v)
	default:
		s := x.te.SortOf(from)
		bn, un := "box_"+sanitize(s), "unbox_"+sanitize(s)
		x.d.DeclareFun(bn, fmt.Sprintf("(declare-fun %s (%s) Int)", bn, s))
		x.d.DeclareFun(un, fmt.Sprintf("(declare-fun %s (Int) %s)", un, s))
		vt := x.termOf(st, &v)
		payload = Term{fmt.Sprintf("(%s %s)", bn, vt.S), "Int"}
		st.assume(Term{fmt.Sprintf("(= (%s %s) %s)", un, payload.S, vt.S), "Bool"})
	}
	cv := v
	res := Val{T: mk("Iface", "mk_Iface", IntLit(int64(tag)), payload), Typ: to, Dyn: &cv}
	x.ifaceObserverFacts(st, res, v, from)
	return res
}

// ifaceObserverFacts: for the interface observers declared iface-pure, the
// value im_M(iface) of an interface built from a concrete value obeys the
// postconditions of the concrete method's contract (error values are not
// mutated after they have been created).
func (x *Exec) ifaceObserverFacts(st *State, iface Val, v Val, from types.Type) {
	if len(x.cs.IfacePure) == 0 || x.specDepth > 0 {
		return
	}
	ms := x.L.prog.MethodSets.MethodSet(from)
	for i := 0; i < ms.Len(); i++ {
		sel := ms.At(i)
		name := sel.Obj().Name()
		if !x.cs.IfacePure[name] {
			continue
		}
		f := x.L.prog.MethodValue(sel)
		if f == nil || f.Signature.Params().Len() != 0 || f.Signature.Results().Len() != 1 {
			continue
		}
		ctr := x.contractFor(f)
		if ctr == nil || len(ctr.Ensures) == 0 || len(f.Params) != 1 {
			continue
		}
		recv := v
		if _, isPtr := f.Params[0].Type().Underlying().(*types.Pointer); isPtr {
			if _, fromPtr := from.Underlying().(*types.Pointer); !fromPtr {
				continue
			}
		}
		im := x.uninterp(st, "im_"+name, []Val{iface}, f.Signature.Results().At(0).Type())
		env := &Env{x: x, st: st, vars: map[string]Val{f.Params[0].Name(): recv}, pkg: x.pkgOf(f), results: []Val{im}, hasRes: true}
		var errs []string
		env.errs = &errs
		for _, c := range ctr.Ensures {
			if strings.Contains(c.Src, "calls") {
				continue
			}
			t := x.evalBool(env, c.Expr)
			if len(errs) == 0 {
				st.assume(t)
			}
			errs = nil
		}
		x.funcsUsed["assume:error values are immutable: an interface observer of a value built here returns what the concrete method's contract says"] = true
	}
}

func (x *Exec) unboxed(st *State, iv Term, T types.Type) Term {
	switch T.Underlying().(type) {
	case *types.Pointer, *types.Map, *types.Chan:
		return Term{fmt.Sprintf("(ival %s)", iv.S), "Int"}
	}
	s := x.te.SortOf(T)
	bn, un := "box_"+sanitize(s), "unbox_"+sanitize(s)
	x.d.DeclareFun(bn, fmt.Sprintf("(declare-fun %s (%s) Int)", bn, s))
	x.d.DeclareFun(un, fmt.Sprintf("(declare-fun %s (Int) %s)", un, s))
	return Term{fmt.Sprintf("(%s (ival %s))", un, iv.S), s}
}

func (x *Exec) typeAssert(fr *Frame, st *State, in *ssa.TypeAssert) (Val, bool) {
	v := x.value(fr, st, in.X)
	T := in.AssertedType
	var ok Term
	var res Val
	if _, isIface := T.Underlying().(*types.Interface); isIface {
		// interface-to-interface: implements is not decidable from the tag alone
		if v.Dyn != nil {
			impl := types.Implements(v.Dyn.Typ, T.Underlying().(*types.Interface))
			ok = And(BoolLit(impl), Not(Eq(v.T, NilIface)))
		} else {
			x.d.DeclareFun("implements", "(declare-fun implements (Int Int) Bool)")
			ok = And(Not(Eq(v.T, NilIface)), Term{fmt.Sprintf("(implements (itag %s) %d)", v.T.S, x.te.TagOf(T)), "Bool"})
		}
		res = v
		res.Typ = T
	} else {
		tag := x.te.TagOf(T)
		ok = Term{fmt.Sprintf("(= (itag %s) %d)", v.T.S, tag), "Bool"}
		if v.Dyn != nil {
			if types.Identical(v.Dyn.Typ, T) {
				res = *v.Dyn
			} else {
				ok = False
				res = Val{T: x.te.Zero(T), Typ: T}
			}
		} else {
			res = Val{T: x.unboxed(st, v.T, T), Typ: T}
		}
	}
	if in.CommaOk {
		zero := x.te.Zero(T)
		rv := res
		if !rv.T.IsZero() {
			rv.T = Ite(ok, res.T, zero)
		}
		if _, isIface := T.Underlying().(*types.Interface); isIface {
			rv.T = Ite(ok, v.T, NilIface)
		}
		okv := Val{T: ok, Typ: types.Typ[types.Bool]}
		return Val{Typ: in.Type(), Tup: []Val{rv, okv}}, true
	}
	x.oblige(st, "SAFE", "type-assert("+x.posText(in.Pos())+")", ok, "type assertion can fail")
	st.assume(ok)
	x.loadFacts(st, res)
	return res, true
}

func (x *Exec) convertStructural(st *State, v Val, from, to types.Type) Val {
	fs, ok1 := from.Underlying().(*types.Struct)
	ts, ok2 := to.Underlying().(*types.Struct)
	if ok1 && ok2 && fs.NumFields() == ts.NumFields() {
		fsi, tsi := x.te.Struct(from), x.te.Struct(to)
		fields := make([]Term, fs.NumFields())
		for i := range fields {
			fields[i] = fsi.Get(v.T, i)
		}
		return Val{T: tsi.Make(fields), Typ: to}
	}
	if x.te.SortOf(from) == x.te.SortOf(to) {
		return v
	}
	x.note("unmodelled ChangeType %s -> %s", from, to)
	return x.freshVal(st, "chg", to)
}

func intKindRange(b *types.Basic) (lo, hi string, ok bool) {
	switch b.Kind() {
	case types.Int, types.Int64:
		return "(- 9223372036854775808)", "9223372036854775807", true
	case types.Int32:
		return "(- 2147483648)", "2147483647", true
	case types.Int16:
		return "(- 32768)", "32767", true
	case types.Int8:
		return "(- 128)", "127", true
	case types.Uint, types.Uint64, types.Uintptr:
		return "0", "18446744073709551615", true
	case types.Uint32:
		return "0", "4294967295", true
	case types.Uint16:
		return "0", "65535", true
	case types.Uint8:
		return "0", "255", true
	}
	return "", "", false
}

func intBits(b *types.Basic) (bits int, signed bool) {
	switch b.Kind() {
	case types.Int, types.Int64:
		return 64, true
	case types.Int32:
		return 32, true
	case types.Int16:
		return 16, true
	case types.Int8:
		return 8, true
	case types.Uint, types.Uint64, types.Uintptr:
		return 64, false
	case types.Uint32:
		return 32, false
	case types.Uint16:
		return 16, false
	case types.Uint8:
		return 8, false
	}
	return 64, true
}

func (x *Exec) convert(st *State, v Val, from, to types.Type) Val {
	fb, fok := from.Underlying().(*types.Basic)
	tb, tok := to.Underlying().(*types.Basic)
	switch {
	case fok && tok && fb.Info()&types.IsInteger != 0 && tb.Info()&types.IsInteger != 0:
		if v.T.Sort != "Int" {
			// bitvector byte
			if x.te.SortOf(to) == v.T.Sort {
				return Val{T: v.T, Typ: to}
			}
			return Val{T: Term{fmt.Sprintf("(bv2nat %s)", v.T.S), "Int"}, Typ: to}
		}
		if x.te.SortOf(to) != "Int" {
			return Val{T: Term{fmt.Sprintf("((_ int2bv 8) %s)", v.T.S), "(_ BitVec 8)"}, Typ: to}
		}
		fbits, fsigned := intBits(fb)
		tbits, tsigned := intBits(tb)
		if (fsigned == tsigned && tbits >= fbits) || (!fsigned && tsigned && tbits > fbits) {
			return Val{T: v.T, Typ: to}
		}
		// wrapping conversion
		mod := new2pow(tbits)
		var t Term
		if !tsigned {
			t = Term{fmt.Sprintf("(mod %s %s)", v.T.S, mod), "Int"}
		} else {
			half := new2pow(tbits - 1)
			t = Term{fmt.Sprintf("(- (mod (+ %s %s) %s) %s)", v.T.S, half, mod, half), "Int"}
		}
		return Val{T: x.nameTerm(st, "conv", t), Typ: to}
	case fok && tok && fb.Info()&types.IsString != 0 && tb.Info()&types.IsString != 0:
		return Val{T: v.T, Typ: to}
	case tok && tb.Info()&types.IsString != 0:
		// []byte/[]rune/int → string
		if sl, ok := from.Underlying().(*types.Slice); ok && isByteType(sl.Elem()) {
			return Val{T: x.bytesToString(st, v.T), Typ: to}
		}
		r := x.freshVal(st, "str", to)
		return r
	case fok && fb.Info()&types.IsString != 0:
		if sl, ok := to.Underlying().(*types.Slice); ok && isByteType(sl.Elem()) {
			return Val{T: x.stringToBytes(st, v.T, to), Typ: to}
		}
		return x.freshVal(st, "conv", to)
	case fok && tok && fb.Info()&types.IsFloat != 0 && tb.Info()&types.IsInteger != 0:
		return x.freshVal(st, "f2i", to)
	case fok && tok && fb.Info()&types.IsInteger != 0 && tb.Info()&types.IsFloat != 0:
		return Val{T: Term{fmt.Sprintf("(to_real %s)", v.T.S), "Real"}, Typ: to}
	case fok && tok && fb.Info()&types.IsFloat != 0 && tb.Info()&types.IsFloat != 0:
		return Val{T: v.T, Typ: to}
	}
	if x.te.SortOf(from) == x.te.SortOf(to) {
		v.Typ = to
		return v
	}
	if _, ok := from.Underlying().(*types.Struct); ok {
		return x.convertStructural(st, v, from, to)
	}
	// pointer conversions, unsafe etc.
	if x.te.SortOf(to) == v.T.Sort {
		v.Typ = to
		return v
	}
	x.note("unmodelled conversion %s -> %s", from, to)
	return x.freshVal(st, "conv", to)
}

func new2pow(bits int) string {
	switch bits {
	case 7:
		return "128"
	case 8:
		return "256"
	case 15:
		return "32768"
	case 16:
		return "65536"
	case 31:
		return "2147483648"
	case 32:
		return "4294967296"
	case 63:
		return "9223372036854775808"
	case 64:
		return "18446744073709551616"
	}
	return "18446744073709551616"
}

// bytesToString / stringToBytes: uninterpreted conversions that preserve
// length and are mutually inverse on the instances that occur.
func (x *Exec) bytesToString(st *State, b Term) Term {
	ss := x.te.StrSort
	fn := "b2s_" + sanitize(b.Sort)
	x.d.DeclareFun(fn, fmt.Sprintf("(declare-fun %s ((Array Int Int) Int) %s)", fn, ss))
	if x.te.ByteBV {
		// keep it abstract in bv mode
		fn = "b2sbv"
		x.d.DeclareFun(fn, fmt.Sprintf("(declare-fun %s (%s) %s)", fn, b.Sort, ss))
		t := Term{fmt.Sprintf("(%s %s)", fn, b.S), ss}
		st.assume(Eq(x.te.StrLen(t), sliceLen(b)))
		return t
	}
	t := Term{fmt.Sprintf("(%s %s %s)", fn, sliceArr(b).S, sliceLen(b).S), ss}
	st.assume(Eq(x.te.StrLen(t), sliceLen(b)))
	if ss == "String" {
		st.assume(Implies(Eq(sliceLen(b), IntLit(0)), Eq(t, StrLit(""))))
	}
	return t
}

func (x *Exec) stringToBytes(st *State, s Term, to types.Type) Term {
	sort := x.te.SortOf(to)
	fn := "s2b_" + sanitize(sort)
	x.d.DeclareFun(fn, fmt.Sprintf("(declare-fun %s (%s) %s)", fn, s.Sort, sliceArrSort[sort]))
	arr := Term{fmt.Sprintf("(%s %s)", fn, s.S), sliceArrSort[sort]}
	ln := x.te.StrLen(s)
	if !x.te.ByteBV {
		// round trip: b2s(s2b(s), len s) == s
		b2s := "b2s_" + sanitize(sort)
		x.d.DeclareFun(b2s, fmt.Sprintf("(declare-fun %s ((Array Int Int) Int) %s)", b2s, s.Sort))
		st.assume(Term{fmt.Sprintf("(= (%s %s %s) %s)", b2s, arr.S, ln.S, s.S), "Bool"})
	}
	return mk(sort, "mk_"+sort, arr, ln, ln, False)
}

func (x *Exec) unop(fr *Frame, st *State, in *ssa.UnOp) (Val, bool) {
	v := x.value(fr, st, in.X)
	switch in.Op {
	case token.MUL:
		elem := in.X.Type().Underlying().(*types.Pointer).Elem()
		if v.Loc == nil {
			x.oblige(st, "SAFE", "nil-deref(*"+x.exprText(in.X, in.Pos())+")", Not(Eq(v.T, IntLit(0))), "load through nil pointer")
			st.assume(Not(Eq(v.T, IntLit(0))))
		}
		r := x.load(st, x.locOfPointer(st, v, elem), elem)
		if r.Typ == nil {
			r.Typ = elem
		}
		return r, true
	case token.NOT:
		return Val{T: Not(v.T), Typ: in.Type()}, true
	case token.SUB:
		if v.T.Sort == "Real" {
			return Val{T: mk("Real", "-", v.T), Typ: in.Type()}, true
		}
		return x.wrapInt(st, Val{T: mk("Int", "-", v.T), Typ: in.Type()}), true
	case token.XOR:
		if v.T.Sort != "Int" {
			return Val{T: mk(v.T.Sort, "bvnot", v.T), Typ: in.Type()}, true
		}
		if b, ok := in.Type().Underlying().(*types.Basic); ok {
			if _, signed := intBits(b); !signed {
				_, hi, _ := intKindRange(b)
				return Val{T: Term{fmt.Sprintf("(- %s %s)", hi, v.T.S), "Int"}, Typ: in.Type()}, true
			}
		}
		return Val{T: Term{fmt.Sprintf("(- (- %s) 1)", v.T.S), "Int"}, Typ: in.Type()}, true
	case token.ARROW:
		x.note("channel receive: value arbitrary (no blocking semantics)")
		if in.CommaOk {
			rv := x.freshVal(st, "recv", in.Type())
			return rv, true
		}
		rv := x.freshVal(st, "recv", in.Type())
		x.recvOwn(st, rv)
		return rv, true
	}
	x.note("unmodelled unop %s", in.Op)
	return x.freshVal(st, "unop", in.Type()), true
}

// wrapInt: arithmetic is mathematical; results are assumed to stay in the
// type's range unless overflow checking is on (then an obligation is emitted).
func (x *Exec) wrapInt(st *State, v Val) Val {
	if v.T.Sort != "Int" {
		return v
	}
	if x.classes["OVERFLOW"] {
		x.oblige(st, "OVERFLOW", "no-overflow("+x.posText(x.curPos)+")", x.te.RangeFact(v.Typ, v.T), "integer overflow")
	}
	return v
}

func (x *Exec) binop(st *State, op token.Token, a, b Val, opndT, resT types.Type, pos token.Pos) Val {
	at, bt := x.termOf(st, &a), x.termOf(st, &b)
	res := func(t Term) Val { return Val{T: t, Typ: resT} }
	switch u := opndT.Underlying().(type) {
	case *types.Basic:
		switch {
		case u.Info()&types.IsString != 0:
			return res(x.stringBinop(st, op, at, bt))
		case u.Info()&types.IsBoolean != 0:
			switch op {
			case token.EQL:
				return res(Eq(at, bt))
			case token.NEQ:
				return res(Not(Eq(at, bt)))
			case token.AND, token.LAND:
				return res(And(at, bt))
			case token.OR, token.LOR:
				return res(Or(at, bt))
			}
		case u.Info()&types.IsFloat != 0:
			switch op {
			case token.ADD:
				return res(mk("Real", "+", at, bt))
			case token.SUB:
				return res(mk("Real", "-", at, bt))
			case token.MUL:
				return res(mk("Real", "*", at, bt))
			case token.QUO:
				return res(mk("Real", "/", at, bt))
			case token.EQL:
				return res(Eq(at, bt))
			case token.NEQ:
				return res(Not(Eq(at, bt)))
			case token.LSS:
				return res(Lt(at, bt))
			case token.LEQ:
				return res(Le(at, bt))
			case token.GTR:
				return res(Gt(at, bt))
			case token.GEQ:
				return res(Ge(at, bt))
			}
		case u.Info()&types.IsInteger != 0:
			if at.Sort != "Int" {
				return res(x.bvBinop(op, at, bt, resT))
			}
			if bt.Sort != "Int" {
				// shift count of bv type with Int left operand
				bt = Term{fmt.Sprintf("(bv2nat %s)", bt.S), "Int"}
			}
			return x.intBinop(st, op, at, bt, u, resT, pos)
		}
	}
	if _, isSlice := opndT.Underlying().(*types.Slice); isSlice {
		// slices compare only against nil
		t := at
		if strings.Contains(at.S, "true)") && strings.HasPrefix(at.S, "(mk_Sl_") && !strings.HasPrefix(bt.S, "(mk_Sl_") {
			t = bt
		} else if strings.HasPrefix(bt.S, "(mk_Sl_") {
			t = at
		}
		switch op {
		case token.EQL:
			return res(sliceNil(t))
		case token.NEQ:
			return res(Not(sliceNil(t)))
		}
	}
	// pointers, interfaces, funcs, structs, channels: equality only
	switch op {
	case token.EQL:
		return res(Eq(at, bt))
	case token.NEQ:
		return res(Not(Eq(at, bt)))
	}
	x.note("unmodelled binop %s on %s", op, opndT)
	return x.freshVal(st, "binop", resT)
}

func (x *Exec) bvBinop(op token.Token, a, b Term, resT types.Type) Term {
	if b.Sort == "Int" {
		b = Term{fmt.Sprintf("((_ int2bv 8) %s)", b.S), a.Sort}
	}
	switch op {
	case token.ADD:
		return mk(a.Sort, "bvadd", a, b)
	case token.SUB:
		return mk(a.Sort, "bvsub", a, b)
	case token.MUL:
		return mk(a.Sort, "bvmul", a, b)
	case token.AND:
		return mk(a.Sort, "bvand", a, b)
	case token.OR:
		return mk(a.Sort, "bvor", a, b)
	case token.XOR:
		return mk(a.Sort, "bvxor", a, b)
	case token.AND_NOT:
		return mk(a.Sort, "bvand", a, mk(a.Sort, "bvnot", b))
	case token.SHL:
		return mk(a.Sort, "bvshl", a, b)
	case token.SHR:
		return mk(a.Sort, "bvlshr", a, b)
	case token.EQL:
		return Eq(a, b)
	case token.NEQ:
		return Not(Eq(a, b))
	case token.LSS:
		return mk("Bool", "bvult", a, b)
	case token.LEQ:
		return mk("Bool", "bvule", a, b)
	case token.GTR:
		return mk("Bool", "bvugt", a, b)
	case token.GEQ:
		return mk("Bool", "bvuge", a, b)
	case token.QUO:
		return mk(a.Sort, "bvudiv", a, b)
	case token.REM:
		return mk(a.Sort, "bvurem", a, b)
	}
	return a
}

func (x *Exec) intBinop(st *State, op token.Token, a, b Term, u *types.Basic, resT types.Type, pos token.Pos) Val {
	res := func(t Term) Val { return Val{T: t, Typ: resT} }
	switch op {
	case token.ADD:
		return x.wrapInt(st, res(Add(a, b)))
	case token.SUB:
		return x.wrapInt(st, res(Sub(a, b)))
	case token.MUL:
		return x.wrapInt(st, res(mk("Int", "*", a, b)))
	case token.QUO, token.REM:
		x.oblige(st, "SAFE", "div-by-zero("+x.posText(pos)+")", Not(Eq(b, IntLit(0))), "integer divide by zero")
		st.assume(Not(Eq(b, IntLit(0))))
		// Go truncates toward zero; SMT div is Euclidean.
		q := Term{fmt.Sprintf("(ite (>= %s 0) (ite (> %s 0) (div %s %s) (- (div %s (- %s)))) (ite (> %s 0) (- (div (- %s) %s)) (div (- %s) (- %s))))", a.S, b.S, a.S, b.S, a.S, b.S, b.S, a.S, b.S, a.S, b.S), "Int"}
		q = x.nameTerm(st, "quo", q)
		if op == token.QUO {
			return res(q)
		}
		return res(Term{fmt.Sprintf("(- %s (* %s %s))", a.S, b.S, q.S), "Int"})
	case token.EQL:
		return res(Eq(a, b))
	case token.NEQ:
		return res(Not(Eq(a, b)))
	case token.LSS:
		return res(Lt(a, b))
	case token.LEQ:
		return res(Le(a, b))
	case token.GTR:
		return res(Gt(a, b))
	case token.GEQ:
		return res(Ge(a, b))
	case token.SHL:
		if n, ok := modelInt(b.S); ok && n >= 0 && n < 63 {
			return x.wrapInt(st, res(Term{fmt.Sprintf("(* %s %d)", a.S, int64(1)<<uint(n)), "Int"}))
		}
		x.d.DeclareFun("int_shl", "(declare-fun int_shl (Int Int) Int)")
		return res(mk("Int", "int_shl", a, b))
	case token.SHR:
		if n, ok := modelInt(b.S); ok && n >= 0 && n < 63 {
			return res(Term{fmt.Sprintf("(div %s %d)", a.S, int64(1)<<uint(n)), "Int"})
		}
		x.d.DeclareFun("int_shr", "(declare-fun int_shr (Int Int) Int)")
		return res(mk("Int", "int_shr", a, b))
	case token.AND, token.OR, token.XOR, token.AND_NOT:
		if p, q, ok := lit2(a, b); ok && p >= 0 && q >= 0 {
			switch op {
			case token.AND:
				return res(IntLit(p & q))
			case token.OR:
				return res(IntLit(p | q))
			case token.XOR:
				return res(IntLit(p ^ q))
			case token.AND_NOT:
				return res(IntLit(p &^ q))
			}
		}
		name := map[token.Token]string{token.AND: "int_and", token.OR: "int_or", token.XOR: "int_xor", token.AND_NOT: "int_andnot"}[op]
		x.d.DeclareFun(name, fmt.Sprintf("(declare-fun %s (Int Int) Int)", name))
		t := mk("Int", name, a, b)
		if op == token.AND {
			// x & m with m >= 0 lies in [0, m]
			st.assume(Implies(Ge(b, IntLit(0)), And(Le(IntLit(0), t), Le(t, b))))
			st.assume(Implies(Ge(a, IntLit(0)), And(Le(IntLit(0), t), Le(t, a))))
		}
		return res(t)
	}
	x.note("unmodelled int binop %s", op)
	return x.freshVal(st, "binop", resT)
}

func (x *Exec) stringBinop(st *State, op token.Token, a, b Term) Term {
	seq := x.te.StrSort == "String"
	switch op {
	case token.EQL:
		return Eq(a, b)
	case token.NEQ:
		return Not(Eq(a, b))
	case token.ADD:
		if seq {
			return mk("String", "str.++", a, b)
		}
		x.d.DeclareFun("sconcat", "(declare-fun sconcat (Str Str) Str)")
		t := mk("Str", "sconcat", a, b)
		st.assume(Eq(x.te.StrLen(t), Add(x.te.StrLen(a), x.te.StrLen(b))))
		return t
	case token.LSS:
		if seq {
			return mk("Bool", "str.<", a, b)
		}
		return Term{fmt.Sprintf("(< (sord %s) (sord %s))", a.S, b.S), "Bool"}
	case token.LEQ:
		if seq {
			return mk("Bool", "str.<=", a, b)
		}
		return Term{fmt.Sprintf("(<= (sord %s) (sord %s))", a.S, b.S), "Bool"}
	case token.GTR:
		if seq {
			return mk("Bool", "str.<", b, a)
		}
		return Term{fmt.Sprintf("(> (sord %s) (sord %s))", a.S, b.S), "Bool"}
	case token.GEQ:
		if seq {
			return mk("Bool", "str.<=", b, a)
		}
		return Term{fmt.Sprintf("(>= (sord %s) (sord %s))", a.S, b.S), "Bool"}
	}
	return False
}

func (x *Exec) sliceOp(fr *Frame, st *State, in *ssa.Slice) Val {
	xs := x.value(fr, st, in.X)
	var lo, hi Term
	if in.Low != nil {
		lo = x.value(fr, st, in.Low).T
	} else {
		lo = IntLit(0)
	}
	switch u := in.X.Type().Underlying().(type) {
	case *types.Basic: // string
		ln := x.te.StrLen(xs.T)
		if in.High != nil {
			hi = x.value(fr, st, in.High).T
		} else {
			hi = ln
		}
		g := And(Le(IntLit(0), lo), Le(lo, hi), Le(hi, ln))
		x.oblige(st, "SAFE", "slice-bounds("+x.posText(in.Pos())+")", g, "string slice bounds out of range")
		st.assume(g)
		if x.te.StrSort == "String" {
			return Val{T: Term{fmt.Sprintf("(str.substr %s %s (- %s %s))", xs.T.S, lo.S, hi.S, lo.S), "String"}, Typ: in.Type()}
		}
		x.d.DeclareFun("ssub", "(declare-fun ssub (Str Int Int) Str)")
		t := Term{fmt.Sprintf("(ssub %s %s %s)", xs.T.S, lo.S, hi.S), "Str"}
		st.assume(Eq(x.te.StrLen(t), Sub(hi, lo)))
		return Val{T: t, Typ: in.Type()}
	case *types.Slice:
		x.te.SortOf(in.X.Type())
		if in.High != nil {
			hi = x.value(fr, st, in.High).T
		} else {
			hi = sliceLen(xs.T)
		}
		cp := sliceCap(xs.T)
		g := And(Le(IntLit(0), lo), Le(lo, hi), Le(hi, cp))
		if in.Max != nil {
			mx := x.value(fr, st, in.Max).T
			g = And(Le(IntLit(0), lo), Le(lo, hi), Le(hi, mx), Le(mx, cp))
			cp = mx
		}
		x.oblige(st, "SAFE", "slice-bounds("+x.posText(in.Pos())+")", g, "slice bounds out of range")
		st.assume(g)
		r := x.subSlice(st, in.Type(), u, xs.T, lo, hi, cp)
		rv := Val{T: x.nameTerm(st, "sl", r), Typ: in.Type(), Src: nil}
		if strings.HasPrefix(xs.Org, "param:") {
			// a view of a caller's buffer: remember how far the caller's own view reaches, so that an
			// append onto a shorter view is known to write into bytes the caller still sees
			// (spec builtin untouched(p))
			rv.Org = xs.Org
			reach := xs.ShrLen
			if reach.IsZero() {
				reach = sliceLen(xs.T)
			}
			if !(in.Max != nil && in.High != nil && x.value(fr, st, in.Max).T.S == hi.S) {
				rv.ShrLen = Sub(reach, lo)
			}
		}
		return rv
	case *types.Pointer: // *array
		at := u.Elem().Underlying().(*types.Array)
		if in.High != nil {
			hi = x.value(fr, st, in.High).T
		} else {
			hi = IntLit(at.Len())
		}
		g := And(Le(IntLit(0), lo), Le(lo, hi), Le(hi, IntLit(at.Len())))
		x.oblige(st, "SAFE", "slice-bounds("+x.posText(in.Pos())+")", g, "slice bounds out of range")
		st.assume(g)
		l := x.locOfPointer(st, xs, u.Elem())
		av := x.load(st, l, u.Elem())
		arr := x.shiftArray(st, av.T, lo)
		rv := Val{T: x.te.SliceMake(in.Type(), arr, Sub(hi, lo), Sub(IntLit(at.Len()), lo), False), Typ: in.Type()}
		if l.Kind == LCell && lo.S == "0" && in.High == nil && st.arrElems[l.Cell] != nil {
			m := st.arrElems[l.Cell]
			if int64(len(m)) == at.Len() {
				for i := int64(0); i < at.Len(); i++ {
					rv.Elems = append(rv.Elems, m[i])
				}
			}
		}
		return rv
	}
	x.note("unmodelled Slice on %s", in.X.Type())
	return x.freshVal(st, "slice", in.Type())
}

func (x *Exec) shiftArray(st *State, arr Term, lo Term) Term {
	if lo.S == "0" {
		return arr
	}
	n := x.d.Fresh("shift", arr.Sort)
	st.assume(Term{fmt.Sprintf("(forall ((i Int)) (! (= (select %s i) (select %s (+ i %s))) :pattern ((select %s i))))", n.S, arr.S, lo.S, n.S), "Bool"})
	if x.ctr != nil && x.ctr.AppendFrames {
		// the same fact, instantiated from reads of the base array
		st.assume(Term{fmt.Sprintf("(forall ((j Int)) (! (= (select %s (- j %s)) (select %s j)) :pattern ((select %s j))))", n.S, lo.S, arr.S, arr.S), "Bool"})
	}
	return n
}

func (x *Exec) nextInstr(fr *Frame, st *State, in *ssa.Next) Val {
	it := x.value(fr, st, in.Iter)
	okv := x.freshVal(st, "next_ok", types.Typ[types.Bool])
	tup := in.Type().(*types.Tuple)
	kT, vT := tup.At(1).Type(), tup.At(2).Type()
	if in.IsString {
		k := x.freshVal(st, "next_i", types.Typ[types.Int])
		v := x.freshVal(st, "next_r", types.Typ[types.Rune])
		if it.Typ != nil && isStringType(it.Typ) {
			st.assume(Implies(okv.T, And(Le(IntLit(0), k.T), Lt(k.T, x.te.StrLen(it.T)))))
		}
		return Val{Typ: in.Type(), Tup: []Val{okv, k, v}}
	}
	var k, v Val
	if mt, ok := it.Typ.Underlying().(*types.Map); ok {
		hk, hs, vk, vs := x.mapComps(mt)
		has := x.heapGet(st, hk, hs)
		val := x.heapGet(st, vk, vs)
		x.mapLockCheck(st, it, "read")
		if _, invalid := kT.Underlying().(*types.Basic); invalid && kT.Underlying().(*types.Basic).Kind() == types.Invalid {
			kT = mt.Key()
		}
		k = x.freshVal(st, "next_k", mt.Key())
		st.assume(Implies(okv.T, And(Not(Eq(it.T, IntLit(0))), Select(Select(has, it.T), k.T))))
		if id := fmt.Sprintf("%p", in.Iter); !st.ghost["vis:"+id].IsZero() {
			// every key is produced at most once; when the iteration ends,
			// every key that was in the map throughout has been produced
			vis := st.ghost["vis:"+id]
			kt := x.termOf(st, &k)
			st.assume(Implies(okv.T, Not(Select(vis, kt))))
			ksort := x.te.SortOf(mt.Key())
			done := Term{fmt.Sprintf("(forall ((k_v %s)) (=> (and (select %s k_v) (select %s k_v)) (select %s k_v)))", ksort, st.ghost["vishas0:"+id].S, Select(has, it.T).S, vis.S), "Bool"}
			st.assume(Implies(Not(okv.T), done))
			nv := x.d.Fresh("vis", vis.Sort)
			st.assume(Eq(nv, Ite(okv.T, Store(vis, kt, True), vis)))
			st.ghost["vis:"+id] = nv
			// exhausted(m): the iteration has produced its last key (this Next said "no more")
			st.ghost["visdone:"+id] = Not(okv.T)
			x.funcsUsed["assume:a range over a map produces each key at most once and, when it runs to completion, every key that stayed in the map"] = true
		}
		v = Val{T: Select(Select(val, it.T), k.T), Typ: mt.Elem()}
		x.loadFacts(st, v)
	} else {
		k = x.freshVal(st, "next_k", kT)
		v = x.freshVal(st, "next_v", vT)
	}
	return Val{Typ: in.Type(), Tup: []Val{okv, k, v}}
}

func (x *Exec) selectInstr(fr *Frame, st *State, in *ssa.Select) Val {
	x.note("select: any ready case may fire (no blocking semantics)")
	tup := in.Type().(*types.Tuple)
	var vs []Val
	idx := x.freshVal(st, "sel_idx", types.Typ[types.Int])
	lo := 0
	if !in.Blocking {
		lo = -1
	}
	st.assume(And(Le(IntLit(int64(lo)), idx.T), Lt(idx.T, IntLit(int64(len(in.States))))))
	vs = append(vs, idx)
	vs = append(vs, x.freshVal(st, "sel_ok", types.Typ[types.Bool]))
	for i := 2; i < tup.Len(); i++ {
		rv := x.freshVal(st, "sel_recv", tup.At(i).Type())
		vs = append(vs, rv)
	}
	// sends transfer ownership
	for _, s := range in.States {
		if s.Send != nil {
			_ = s
		}
	}
	return Val{Typ: in.Type(), Tup: vs}
}

// subSlice builds the value of s[lo:hi] (capacity cp) of a slice.
func (x *Exec) subSlice(st *State, T types.Type, u *types.Slice, s Term, lo, hi, cp Term) Term {
	arr := x.shiftArray(st, sliceArr(s), lo)
	r := x.te.SliceMake(T, arr, Sub(hi, lo), Sub(cp, lo), sliceNil(s))
	if isByteType(u.Elem()) && x.te.StrSort == "String" && !x.te.ByteBV {
		// the bytes of a sub-slice, seen as a string, are a substring
		whole := x.bytesToString(st, s)
		part := x.bytesToString(st, r)
		st.assume(Implies(And(Le(IntLit(0), lo), Le(lo, hi), Le(hi, sliceLen(s))), Eq(part, Term{fmt.Sprintf("(str.substr %s %s (- %s %s))", whole.S, lo.S, hi.S, lo.S), "String"})))
	}
	return r
}
