package main

// O-LEMMA: formulas over spec functions only (no code), proved for all
// values of their parameters.

import (
	"fmt"
	"go/types"
	"strings"
	"time"
)

func runLemmas(L *Loaded, cs *ContractSet, ps *PropSpec, timeout time.Duration, all bool, known ...KnownFinding) []*Group {
	var out []*Group
	want := map[string]bool{}
	opts := map[string][]string{}
	for _, l := range ps.Lemmas {
		fs := strings.Fields(l)
		want[fs[0]] = true
		opts[fs[0]] = fs[1:]
	}
	for _, lm := range cs.Lemmas {
		if !want[lm.Name] {
			continue
		}
		delete(want, lm.Name)
		out = append(out, proveLemma(L, cs, lm, timeout, all, known, opts[lm.Name]...))
	}
	for n := range want {
		g := &Group{Name: "lemma/" + n, Class: "LEMMA", Status: "failed", Info: "lemma not found in the loaded contract files"}
		g.Instances = []*Oblig{{Name: g.Name, Class: "LEMMA", Info: g.Info, Goal: False, Result: &SolverResult{Answer: "sat", Solver: "govc"}}}
		out = append(out, g)
	}
	return out
}

func proveLemma(L *Loaded, cs *ContractSet, lm *SpecFunc, timeout time.Duration, all bool, known []KnownFinding, opts ...string) *Group {
	d := NewDecls()
	strMode, byteBV := "seq", false
	for _, o := range opts {
		switch o {
		case "strings=atom":
			strMode = "atom"
		case "bytes=bv":
			byteBV = true
		}
	}
	te := NewTypeEnv(d, strMode, byteBV)
	x := &Exec{L: L, d: d, te: te, cs: cs, notes: map[string]int{}, entryHeap: map[string]Term{}, inputs: map[string]Term{},
		classes: allClasses(), funcsUsed: map[string]bool{}, exclusions: map[string]Term{}}
	x.fnKey = "lemma"
	st := &State{cells: map[*Cell]Val{}, esc: map[*Cell]bool{}, heap: map[string]Term{}, ghost: map[string]Term{}, stopped: False}
	var pkg *types.Package
	if sp := L.spkgs[lm.Pkg]; sp != nil {
		pkg = sp.Pkg
	}
	env := &Env{x: x, st: st, vars: map[string]Val{}, pkg: pkg}
	var errs []string
	env.errs = &errs
	for _, p := range lm.Params {
		T := env.resolveType(p.Type)
		if T == nil {
			errs = append(errs, "unknown type "+p.Type)
			continue
		}
		v := x.freshVal(st, "lem_"+p.Name, T)
		env.vars[p.Name] = v
		x.inputs[p.Name] = v.T
	}
	name := "lemma/" + lm.Name
	g := &Group{Name: name, Class: "LEMMA", Info: lm.Src}
	if lm.Body == nil || len(errs) > 0 {
		g.Status = "undecided"
		g.Info = "lemma does not bind: " + strings.Join(errs, "; ")
		return g
	}
	goal := x.evalBool(env, lm.Body)
	if len(errs) > 0 {
		g.Status = "undecided"
		g.Info = "lemma does not bind: " + strings.Join(errs, "; ")
		return g
	}
	o := &Oblig{Name: name, Class: "LEMMA", Fn: "lemma", Goal: goal, PC: st.pc, Info: "lemma " + lm.Src, Inputs: x.inputs, x: x}
	q := buildQuery(d.Snapshot(), o.PC, o.Goal)
	o.Query = q
	r := Solve(q, timeout, all)
	o.Result = &r
	g.Instances = []*Oblig{o}
	g.Seconds = r.Seconds
	g.Solver = strings.TrimSuffix(r.Solver, " (cached)")
	switch r.Answer {
	case "unsat":
		g.Status = "discharged"
	case "sat":
		g.Status = "failed"
	default:
		g.Status = "undecided"
	}
	if r.Answer != "unsat" {
		// a recorded finding: the lemma holds for every input outside the
		// recorded failing set
		for _, kf := range known {
			if kf.Obligation != name || kf.ExcludedInput == "" {
				continue
			}
			e, err := ParseSpecExpr(kf.ExcludedInput)
			if err != nil {
				continue
			}
			ex := x.evalBool(env, e)
			q2 := buildQuery(d.Snapshot(), st.pc, o.Goal, Not(ex))
			if r2 := Solve(q2, timeout, false); r2.Answer == "unsat" {
				o.Known = true
				o.Excl = ex.S
				g.Status = "known"
			}
		}
	}
	_ = fmt.Sprint
	return g
}
