package main

// The trusted table of library contracts. Every entry is an assumption and is
// listed by name in the evidence of each check that used it.

import (
	"fmt"
	"go/constant"
	"go/types"
	"strings"

	"golang.org/x/tools/go/ssa"
)

type LibFn func(x *Exec, fr *Frame, st *State, cc *ssa.CallCommon, args []Val) (Val, bool)

var libTable = map[string]LibFn{}

func init() {
	strT := types.Typ[types.String]
	boolT := types.Typ[types.Bool]
	intT := types.Typ[types.Int]
	seq := func(x *Exec) bool { return x.te.StrSort == "String" }
	used := func(x *Exec, name string) { x.funcsUsed["lib:"+name] = true }

	reg := func(name string, f LibFn) {
		libTable[name] = func(x *Exec, fr *Frame, st *State, cc *ssa.CallCommon, args []Val) (Val, bool) {
			v, ok := f(x, fr, st, cc, args)
			if ok {
				used(x, name)
			}
			return v, ok
		}
	}

	// ---- strings (seq mode: exact SMT string theory definitions)
	reg("strings.HasPrefix", func(x *Exec, fr *Frame, st *State, cc *ssa.CallCommon, a []Val) (Val, bool) {
		if !seq(x) {
			return Val{}, false
		}
		return Val{T: mk("Bool", "str.prefixof", a[1].T, a[0].T), Typ: boolT}, true
	})
	reg("strings.HasSuffix", func(x *Exec, fr *Frame, st *State, cc *ssa.CallCommon, a []Val) (Val, bool) {
		if !seq(x) {
			return Val{}, false
		}
		return Val{T: mk("Bool", "str.suffixof", a[1].T, a[0].T), Typ: boolT}, true
	})
	reg("strings.Contains", func(x *Exec, fr *Frame, st *State, cc *ssa.CallCommon, a []Val) (Val, bool) {
		if !seq(x) {
			return Val{}, false
		}
		return Val{T: mk("Bool", "str.contains", a[0].T, a[1].T), Typ: boolT}, true
	})
	reg("strings.Index", func(x *Exec, fr *Frame, st *State, cc *ssa.CallCommon, a []Val) (Val, bool) {
		if !seq(x) {
			return Val{}, false
		}
		return Val{T: Term{fmt.Sprintf("(str.indexof %s %s 0)", a[0].T.S, a[1].T.S), "Int"}, Typ: intT}, true
	})
	reg("strings.IndexByte", func(x *Exec, fr *Frame, st *State, cc *ssa.CallCommon, a []Val) (Val, bool) {
		if !seq(x) || a[1].T.Sort != "Int" {
			return Val{}, false
		}
		return Val{T: Term{fmt.Sprintf("(str.indexof %s (str.from_code %s) 0)", a[0].T.S, a[1].T.S), "Int"}, Typ: intT}, true
	})
	lastIndex := func(x *Exec, st *State, s, sep Term) Val {
		r := x.d.Fresh("lastidx", "Int")
		ls, lp := x.te.StrLen(s), x.te.StrLen(sep)
		if seq(x) {
			st.assume(Term{fmt.Sprintf("(= (= %s (- 1)) (not (str.contains %s %s)))", r.S, s.S, sep.S), "Bool"})
			st.assume(Term{fmt.Sprintf("(=> (not (= %s (- 1))) (and (<= 0 %s) (<= (+ %s %s) %s) (= (str.substr %s %s %s) %s) (not (str.contains (str.substr %s (+ %s 1) %s) %s))))",
				r.S, r.S, r.S, lp.S, ls.S, s.S, r.S, lp.S, sep.S, s.S, r.S, ls.S, sep.S), "Bool"})
		} else {
			st.assume(Or(Eq(r, IntLit(-1)), And(Le(IntLit(0), r), Le(Add(r, lp), ls))))
		}
		st.assume(Ge(r, IntLit(-1)))
		return Val{T: r, Typ: intT}
	}
	reg("strings.LastIndex", func(x *Exec, fr *Frame, st *State, cc *ssa.CallCommon, a []Val) (Val, bool) {
		return lastIndex(x, st, a[0].T, a[1].T), true
	})
	reg("strings.LastIndexByte", func(x *Exec, fr *Frame, st *State, cc *ssa.CallCommon, a []Val) (Val, bool) {
		if !seq(x) || a[1].T.Sort != "Int" {
			return Val{}, false
		}
		return lastIndex(x, st, a[0].T, Term{fmt.Sprintf("(str.from_code %s)", a[1].T.S), "String"}), true
	})
	reg("strings.TrimPrefix", func(x *Exec, fr *Frame, st *State, cc *ssa.CallCommon, a []Val) (Val, bool) {
		if !seq(x) {
			return Val{}, false
		}
		s, p := a[0].T, a[1].T
		return Val{T: Term{fmt.Sprintf("(ite (str.prefixof %s %s) (str.substr %s (str.len %s) (- (str.len %s) (str.len %s))) %s)", p.S, s.S, s.S, p.S, s.S, p.S, s.S), "String"}, Typ: strT}, true
	})
	reg("strings.TrimSuffix", func(x *Exec, fr *Frame, st *State, cc *ssa.CallCommon, a []Val) (Val, bool) {
		if !seq(x) {
			return Val{}, false
		}
		s, p := a[0].T, a[1].T
		return Val{T: Term{fmt.Sprintf("(ite (str.suffixof %s %s) (str.substr %s 0 (- (str.len %s) (str.len %s))) %s)", p.S, s.S, s.S, s.S, p.S, s.S), "String"}, Typ: strT}, true
	})
	reg("strings.CutPrefix", func(x *Exec, fr *Frame, st *State, cc *ssa.CallCommon, a []Val) (Val, bool) {
		if !seq(x) {
			return Val{}, false
		}
		s, p := a[0].T, a[1].T
		found := mk("Bool", "str.prefixof", p, s)
		after := Term{fmt.Sprintf("(ite %s (str.substr %s (str.len %s) (- (str.len %s) (str.len %s))) %s)", found.S, s.S, p.S, s.S, p.S, s.S), "String"}
		return Val{Tup: []Val{{T: after, Typ: strT}, {T: found, Typ: boolT}}}, true
	})
	reg("strings.CutSuffix", func(x *Exec, fr *Frame, st *State, cc *ssa.CallCommon, a []Val) (Val, bool) {
		if !seq(x) {
			return Val{}, false
		}
		s, p := a[0].T, a[1].T
		found := mk("Bool", "str.suffixof", p, s)
		before := Term{fmt.Sprintf("(ite %s (str.substr %s 0 (- (str.len %s) (str.len %s))) %s)", found.S, s.S, s.S, p.S, s.S), "String"}
		return Val{Tup: []Val{{T: before, Typ: strT}, {T: found, Typ: boolT}}}, true
	})
	reg("strings.Cut", func(x *Exec, fr *Frame, st *State, cc *ssa.CallCommon, a []Val) (Val, bool) {
		if !seq(x) {
			return Val{}, false
		}
		s, sep := a[0].T, a[1].T
		i := x.d.Fresh("cut_i", "Int")
		st.assume(Eq(i, Term{fmt.Sprintf("(str.indexof %s %s 0)", s.S, sep.S), "Int"}))
		found := Ge(i, IntLit(0))
		before := Term{fmt.Sprintf("(ite %s (str.substr %s 0 %s) %s)", found.S, s.S, i.S, s.S), "String"}
		after := Term{fmt.Sprintf("(ite %s (str.substr %s (+ %s (str.len %s)) (str.len %s)) \"\")", found.S, s.S, i.S, sep.S, s.S), "String"}
		return Val{Tup: []Val{{T: before, Typ: strT}, {T: after, Typ: strT}, {T: found, Typ: boolT}}}, true
	})
	reg("strings.Compare", func(x *Exec, fr *Frame, st *State, cc *ssa.CallCommon, a []Val) (Val, bool) {
		var lt Term
		if seq(x) {
			lt = mk("Bool", "str.<", a[0].T, a[1].T)
		} else {
			lt = Term{fmt.Sprintf("(< (sord %s) (sord %s))", a[0].T.S, a[1].T.S), "Bool"}
		}
		return Val{T: Ite(Eq(a[0].T, a[1].T), IntLit(0), Ite(lt, IntLit(-1), IntLit(1))), Typ: intT}, true
	})
	// strings.Builder on a local variable: ghost content keyed by the cell
	sbKey := func(recv Val) string {
		if recv.Loc != nil && recv.Loc.Kind == LCell {
			return fmt.Sprintf("sb:%d", recv.Loc.Cell.id)
		}
		if recv.Loc == nil && strings.HasPrefix(recv.T.S, "(+ top") {
			// a builder allocated in this function (fresh reference)
			return "sb:" + recv.T.S
		}
		return ""
	}
	sbWrite := func(x *Exec, st *State, recv Val, s Term) bool {
		k := sbKey(recv)
		if k == "" || !seq(x) {
			return false
		}
		cur, ok := st.ghost[k]
		if !ok {
			cur = StrLit("")
		}
		st.ghost[k] = mk("String", "str.++", cur, s)
		return true
	}
	reg("(*strings.Builder).WriteString", func(x *Exec, fr *Frame, st *State, cc *ssa.CallCommon, a []Val) (Val, bool) {
		if !sbWrite(x, st, a[0], a[1].T) {
			return Val{}, false
		}
		return Val{Tup: []Val{{T: x.te.StrLen(a[1].T), Typ: intT}, {T: NilIface, Typ: types.Universe.Lookup("error").Type()}}}, true
	})
	reg("(*strings.Builder).WriteByte", func(x *Exec, fr *Frame, st *State, cc *ssa.CallCommon, a []Val) (Val, bool) {
		if a[1].T.Sort != "Int" || !sbWrite(x, st, a[0], Term{fmt.Sprintf("(str.from_code %s)", a[1].T.S), "String"}) {
			return Val{}, false
		}
		return Val{T: NilIface, Typ: types.Universe.Lookup("error").Type()}, true
	})
	reg("(*strings.Builder).String", func(x *Exec, fr *Frame, st *State, cc *ssa.CallCommon, a []Val) (Val, bool) {
		k := sbKey(a[0])
		if k == "" || !seq(x) {
			return Val{}, false
		}
		cur, ok := st.ghost[k]
		if !ok {
			cur = StrLit("")
		}
		return Val{T: cur, Typ: strT}, true
	})
	reg("(*strings.Builder).Grow", func(x *Exec, fr *Frame, st *State, cc *ssa.CallCommon, a []Val) (Val, bool) {
		if sbKey(a[0]) == "" {
			return Val{}, false
		}
		x.oblige(st, "SAFE", "builder-grow-nonneg("+x.posText(cc.Pos())+")", Ge(a[1].T, IntLit(0)), "strings.Builder.Grow: negative count")
		return Val{}, true
	})
	reg("(*strings.Builder).Len", func(x *Exec, fr *Frame, st *State, cc *ssa.CallCommon, a []Val) (Val, bool) {
		k := sbKey(a[0])
		if k == "" || !seq(x) {
			return Val{}, false
		}
		cur, ok := st.ghost[k]
		if !ok {
			cur = StrLit("")
		}
		return Val{T: x.te.StrLen(cur), Typ: intT}, true
	})

	// ---- errors / fmt
	errT := types.Universe.Lookup("error").Type()
	reg("errors.Is", func(x *Exec, fr *Frame, st *State, cc *ssa.CallCommon, a []Val) (Val, bool) {
		x.errAxioms()
		return Val{T: x.errIs(a[0].T, a[1].T), Typ: boolT}, true
	})
	reg("errors.As", func(x *Exec, fr *Frame, st *State, cc *ssa.CallCommon, a []Val) (Val, bool) {
		// errors.As(err, &target): target := errAs_T(err) when that is
		// non-zero (errAs_T is a deterministic selector of err's chain);
		// object invariants of T hold for the value found.
		if a[1].Dyn == nil || a[1].Dyn.Loc == nil {
			return x.freshVal(st, "as_ok", boolT), true
		}
		l := a[1].Dyn.Loc
		T := l.Elem
		if T == nil && l.Kind == LCell {
			T = l.Cell.typ
		}
		if T == nil {
			return x.freshVal(st, "as_ok", boolT), true
		}
		found := x.errAsTerm(st, a[0], T)
		old := x.load(st, l, T)
		var ok Term
		switch T.Underlying().(type) {
		case *types.Pointer:
			ok = Not(Eq(found.T, IntLit(0)))
			x.knownRef(st, found.T)
			if pt, isPtr := T.(*types.Pointer); isPtr {
				if n, isNamed := pt.Elem().(*types.Named); isNamed && n.Obj().Pkg() != nil {
					env := &Env{x: x, st: st, vars: map[string]Val{"self": found}, pkg: n.Obj().Pkg()}
					for _, c := range x.cs.ObjInvs[n.Obj().Pkg().Path()+"."+n.Obj().Name()] {
						st.assume(Implies(ok, x.evalBool(env, c.Expr)))
					}
				}
			}
		case *types.Interface:
			ok = Not(Eq(found.T, NilIface))
		default:
			return x.freshVal(st, "as_ok", boolT), true
		}
		x.store(st, l, Val{T: Ite(ok, found.T, old.T), Typ: T})
		x.funcsUsed["lib:errors.As (target := errAs_T(err), a deterministic selector of the error chain; nil error selects nothing)"] = true
		return Val{T: ok, Typ: boolT}, true
	})
	reg("errors.New", func(x *Exec, fr *Frame, st *State, cc *ssa.CallCommon, a []Val) (Val, bool) {
		r := x.freshVal(st, "err", errT)
		st.assume(Not(Eq(r.T, NilIface)))
		return r, true
	})
	reg("fmt.Errorf", func(x *Exec, fr *Frame, st *State, cc *ssa.CallCommon, a []Val) (Val, bool) {
		x.errAxioms()
		r := x.freshVal(st, "err", errT)
		st.assume(Not(Eq(r.T, NilIface)))
		// a newly allocated error value: different from every existing one
		st.assume(Eq(Term{fmt.Sprintf("(ival %s)", r.T.S), "Int"}, x.freshRef(st)))
		// %w: the result wraps the corresponding operand
		format := ""
		if c, ok := cc.Args[0].(*ssa.Const); ok && c.Value != nil && c.Value.Kind() == constant.String {
			format = constant.StringVal(c.Value)
		}
		wrapped := x.wrappedOperands(st, format, a)
		if format == "" {
			return r, true
		}
		t := Term{"t_w", "Iface"}
		var alts []Term
		alts = append(alts, Eq(r.T, t))
		for _, w := range wrapped {
			alts = append(alts, x.errIs(w, t))
		}
		st.assume(Term{fmt.Sprintf("(forall ((t_w Iface)) (! (= %s %s) :pattern (%s)))", x.errIs(r.T, t).S, Or(alts...).S, x.errIs(r.T, t).S), "Bool"})
		return r, true
	})
	// ---- sync
	reg("(*sync.Mutex).Lock", func(x *Exec, fr *Frame, st *State, cc *ssa.CallCommon, a []Val) (Val, bool) {
		x.lockOp(st, a[0], true)
		return Val{}, true
	})
	reg("(*sync.Mutex).Unlock", func(x *Exec, fr *Frame, st *State, cc *ssa.CallCommon, a []Val) (Val, bool) {
		x.lockOp(st, a[0], false)
		return Val{}, true
	})
	reg("(*sync.RWMutex).Lock", libTable["(*sync.Mutex).Lock"])
	reg("(*sync.RWMutex).Unlock", libTable["(*sync.Mutex).Unlock"])
	reg("(*sync.RWMutex).RLock", libTable["(*sync.Mutex).Lock"])
	reg("(*sync.RWMutex).RUnlock", libTable["(*sync.Mutex).Unlock"])

	// ---- strconv
	reg("strconv.Itoa", func(x *Exec, fr *Frame, st *State, cc *ssa.CallCommon, a []Val) (Val, bool) {
		return x.itoa(st, a[0].T), true
	})
	reg("strconv.FormatInt", func(x *Exec, fr *Frame, st *State, cc *ssa.CallCommon, a []Val) (Val, bool) {
		if a[1].T.S != "10" {
			return Val{}, false
		}
		return x.itoa(st, a[0].T), true
	})
	reg("strconv.Atoi", func(x *Exec, fr *Frame, st *State, cc *ssa.CallCommon, a []Val) (Val, bool) {
		return x.atoi(st, a[0].T, intT), true
	})
	reg("strconv.ParseInt", func(x *Exec, fr *Frame, st *State, cc *ssa.CallCommon, a []Val) (Val, bool) {
		if a[1].T.S != "10" || a[2].T.S != "64" {
			return Val{}, false
		}
		return x.atoi(st, a[0].T, types.Typ[types.Int64]), true
	})

	// ---- path
	reg("path.Join", func(x *Exec, fr *Frame, st *State, cc *ssa.CallCommon, a []Val) (Val, bool) {
		// path.Join(elems...) — the only thing assumed for all inputs: the
		// result is Clean(strings.Join(non-empty elems, "/")). For two
		// arguments that are clean relative paths it is a + "/" + b.
		if k, ok := x.constLen(st, sliceLen(a[0].T)); ok && k == 2 {
			e0, e1 := Select(sliceArr(a[0].T), IntLit(0)), Select(sliceArr(a[0].T), IntLit(1))
			return x.uninterp(st, "pathJoin2", []Val{{T: e0, Typ: strT}, {T: e1, Typ: strT}}, strT), true
		}
		return x.freshVal(st, "pathjoin", strT), true
	})
}

// wrappedOperands returns the operands of %w verbs of a constant format.
func (x *Exec) wrappedOperands(st *State, format string, a []Val) []Term {
	var out []Term
	if len(a) < 2 {
		return nil
	}
	va := a[1].T // []any
	argi := 0
	for i := 0; i < len(format); i++ {
		if format[i] != '%' {
			continue
		}
		i++
		for i < len(format) && strings.ContainsRune("+-# 0123456789.[]*", rune(format[i])) {
			i++
		}
		if i >= len(format) {
			break
		}
		if format[i] == '%' {
			continue
		}
		if format[i] == 'w' {
			out = append(out, Select(sliceArr(va), IntLit(int64(argi))))
		}
		argi++
	}
	return out
}

func (x *Exec) errAxioms() {
	if x.d.HasFun("errIs_axioms") {
		return
	}
	x.d.DeclareFun("errIs", "(declare-fun errIs (Iface Iface) Bool)")
	x.d.DeclareFun("errIs_axioms", "")
	// errors.Is(e, e) for non-nil e (comparable error values)
	x.d.Axiom("(forall ((e Iface)) (! (=> (not (= e (mk_Iface 0 0))) (errIs e e)) :pattern ((errIs e e))))")
	// errors.Is(nil, t) is false for non-nil t
	x.d.Axiom("(forall ((t Iface)) (! (=> (not (= t (mk_Iface 0 0))) (not (errIs (mk_Iface 0 0) t))) :pattern ((errIs (mk_Iface 0 0) t))))")
}

func (x *Exec) itoa(st *State, n Term) Val {
	ss := x.te.StrSort
	x.d.DeclareFun("itoa", fmt.Sprintf("(declare-fun itoa (Int) %s)", ss))
	x.d.DeclareFun("atoi", fmt.Sprintf("(declare-fun atoi (%s) Int)", ss))
	x.d.DeclareFun("isnum", fmt.Sprintf("(declare-fun isnum (%s) Bool)", ss))
	r := Term{fmt.Sprintf("(itoa %s)", n.S), ss}
	st.assume(Term{fmt.Sprintf("(and (isnum %s) (= (atoi %s) %s) (>= %s 1))", r.S, r.S, n.S, x.te.StrLen(r).S), "Bool"})
	if ss == "String" {
		st.assume(Term{fmt.Sprintf("(=> (>= %s 0) (not (str.contains %s \"-\")))", n.S, r.S), "Bool"})
	}
	return Val{T: r, Typ: types.Typ[types.String]}
}

func (x *Exec) atoi(st *State, s Term, T types.Type) Val {
	ss := x.te.StrSort
	x.d.DeclareFun("itoa", fmt.Sprintf("(declare-fun itoa (Int) %s)", ss))
	x.d.DeclareFun("atoi", fmt.Sprintf("(declare-fun atoi (%s) Int)", ss))
	x.d.DeclareFun("isnum", fmt.Sprintf("(declare-fun isnum (%s) Bool)", ss))
	errT := types.Universe.Lookup("error").Type()
	err := x.freshVal(st, "atoi_err", errT)
	ok := Term{fmt.Sprintf("(isnum %s)", s.S), "Bool"}
	st.assume(Eq(Eq(err.T, NilIface), ok))
	v := Term{fmt.Sprintf("(atoi %s)", s.S), "Int"}
	n := x.freshVal(st, "atoi", T)
	st.assume(Implies(ok, Eq(n.T, v)))
	return Val{Tup: []Val{n, err}}
}
