package main

// Loading /repo's working tree, building SSA, finding functions by contract key.

import (
	"fmt"
	"go/ast"
	"go/token"
	"go/types"
	"os"
	"path/filepath"
	"sort"
	"strings"

	"golang.org/x/tools/go/packages"
	"golang.org/x/tools/go/ssa"
	"golang.org/x/tools/go/ssa/ssautil"
)

type Loaded struct {
	fset   *token.FileSet
	pkgs   []*packages.Package
	prog   *ssa.Program
	spkgs  map[string]*ssa.Package // by import path
	files  map[string][]byte
	immutableGlobal map[string]bool
	immutableComp   map[string]bool
	allFuncs map[*ssa.Function]bool
	repoDir string
	modRoot string
	debugNames map[ssa.Value]string
	regexGlobals map[string]string
	pureMemo map[*ssa.Function]bool
	funcTables map[string][]*ssa.Function
	globalStructs map[*ssa.Global][]globalField
	errGlobals map[*ssa.Global]errGlobal
	newErrGlobals map[*ssa.Global]*ssa.Global // package-level error built in init by errors.New / fmt.Errorf → the global it wraps with %w (or nil)
	constMaps  map[string]map[string]int64
}

const modulePath = "cuelabs.dev/go/oci/ociregistry"

func repoRoot() string {
	if r := os.Getenv("GOVC_REPO"); r != "" {
		return r
	}
	return "/repo"
}

// LoadPackages loads the named package directories (relative to the
// ociregistry module, e.g. "./ocifilter") from the working tree.
func LoadPackages(patterns []string) (*Loaded, error) {
	root := repoRoot()
	dir := filepath.Join(root, "ociregistry")
	env := []string{}
	for _, e := range os.Environ() {
		if strings.HasPrefix(e, "GOFLAGS=") {
			continue
		}
		env = append(env, e)
	}
	env = append(env, "GOPROXY=off", "GOSUMDB=off", "GOTOOLCHAIN=local", "GOFLAGS=-mod=readonly")
	cfg := &packages.Config{
		Mode:       packages.LoadAllSyntax,
		Dir:        dir,
		Env:        env,
		BuildFlags: []string{"-tags=verif"},
	}
	pkgs, err := packages.Load(cfg, patterns...)
	if err != nil {
		return nil, err
	}
	var errs []string
	packages.Visit(pkgs, nil, func(p *packages.Package) {
		for _, e := range p.Errors {
			errs = append(errs, e.Error())
		}
	})
	if len(errs) > 0 {
		return nil, fmt.Errorf("package errors: %s", strings.Join(errs, "; "))
	}
	prog, _ := ssautil.AllPackages(pkgs, ssa.NaiveForm|ssa.GlobalDebug|ssa.InstantiateGenerics)
	prog.Build()
	L := &Loaded{fset: prog.Fset, pkgs: pkgs, prog: prog, spkgs: map[string]*ssa.Package{}, files: map[string][]byte{},
		immutableGlobal: map[string]bool{}, immutableComp: map[string]bool{}, repoDir: dir, modRoot: root, debugNames: map[ssa.Value]string{}}
	for _, p := range prog.AllPackages() {
		L.spkgs[p.Pkg.Path()] = p
	}
	L.allFuncs = ssautil.AllFunctions(prog)
	L.scanGlobals()
	L.scanRegexGlobals()
	L.scanFuncTables()
	L.scanGlobalStructs()
	L.scanErrorGlobals()
	return L, nil
}

func (L *Loaded) isRepoPkg(p *types.Package) bool {
	return p != nil && strings.HasPrefix(p.Path(), "cuelabs.dev/go/oci")
}

func (L *Loaded) isRepoFunc(f *ssa.Function) bool {
	if f == nil {
		return false
	}
	if f.Pkg != nil {
		return L.isRepoPkg(f.Pkg.Pkg)
	}
	if o := f.Origin(); o != nil && o.Pkg != nil {
		return L.isRepoPkg(o.Pkg.Pkg)
	}
	if f.Parent() != nil {
		return L.isRepoFunc(f.Parent())
	}
	if f.Object() != nil && f.Object().Pkg() != nil {
		return L.isRepoPkg(f.Object().Pkg())
	}
	return false
}

// scanGlobals finds package-level variables that are never stored to outside
// package initialisation: their value is a fixed (unknown) constant.
func (L *Loaded) scanGlobals() {
	stored := map[*ssa.Global]bool{}
	for f := range L.allFuncs {
		isInit := f.Name() == "init" || strings.HasPrefix(f.Name(), "init#")
		for _, b := range f.Blocks {
			for _, in := range b.Instrs {
				if s, ok := in.(*ssa.Store); ok {
					if g, ok := s.Addr.(*ssa.Global); ok && !isInit {
						stored[g] = true
					}
				}
			}
		}
	}
	for _, p := range L.prog.AllPackages() {
		for _, m := range p.Members {
			if g, ok := m.(*ssa.Global); ok && !stored[g] {
				L.immutableGlobal["G_"+sanitize(g.Pkg.Pkg.Name()+"_"+g.Name())] = true
			}
		}
	}
}

func (L *Loaded) sourceText(pos token.Pos) string {
	p := L.fset.Position(pos)
	if !p.IsValid() {
		return ""
	}
	b, ok := L.files[p.Filename]
	if !ok {
		b, _ = os.ReadFile(p.Filename)
		L.files[p.Filename] = b
	}
	// find the smallest AST expression starting at pos
	for _, pk := range L.allPkgs() {
		for i, f := range pk.Syntax {
			if pk.CompiledGoFiles[i] != p.Filename {
				continue
			}
			var best ast.Node
			ast.Inspect(f, func(n ast.Node) bool {
				if n == nil {
					return false
				}
				if n.Pos() <= pos && pos < n.End() {
					if n.Pos() == pos {
						if _, ok := n.(ast.Expr); ok {
							if best == nil || (n.End()-n.Pos()) > (best.End()-best.Pos()) {
								// prefer the largest expression that starts here
								// (an index or call expression rather than its
								// first identifier)
								best = n
							}
						}
					}
					return true
				}
				return false
			})
			// also: expressions that contain pos as the position of their operator (IndexExpr Lbrack, CallExpr Lparen)
			ast.Inspect(f, func(n ast.Node) bool {
				if n == nil {
					return false
				}
				if !(n.Pos() <= pos && pos < n.End()) {
					return false
				}
				switch e := n.(type) {
				case *ast.IndexExpr:
					if e.Lbrack == pos {
						best = e
					}
				case *ast.SliceExpr:
					if e.Lbrack == pos {
						best = e
					}
				case *ast.CallExpr:
					if e.Lparen == pos {
						best = e
					}
				case *ast.BinaryExpr:
					if e.OpPos == pos {
						best = e
					}
				case *ast.UnaryExpr:
					if e.OpPos == pos {
						best = e
					}
				case *ast.StarExpr:
					if e.Star == pos {
						best = e
					}
				case *ast.TypeAssertExpr:
					if e.Lparen == pos {
						best = e
					}
				}
				return true
			})
			if best != nil {
				o1, o2 := L.fset.Position(best.Pos()).Offset, L.fset.Position(best.End()).Offset
				if o1 >= 0 && o2 <= len(b) && o1 < o2 {
					t := strings.Join(strings.Fields(string(b[o1:o2])), " ")
					if len(t) > 80 {
						t = t[:80] + "…"
					}
					return t
				}
			}
		}
	}
	// fall back: the rest of the source line from pos
	if p.Offset < len(b) {
		end := p.Offset
		for end < len(b) && b[end] != '\n' {
			end++
		}
		t := strings.TrimSpace(string(b[p.Offset:end]))
		if len(t) > 60 {
			t = t[:60]
		}
		return t
	}
	return ""
}

func (L *Loaded) allPkgs() []*packages.Package {
	var out []*packages.Package
	packages.Visit(L.pkgs, nil, func(p *packages.Package) {
		if L.isRepoPkg(p.Types) {
			out = append(out, p)
		}
	})
	return out
}

func (L *Loaded) debugName(v ssa.Value) string {
	if n, ok := L.debugNames[v]; ok {
		return n
	}
	return ""
}

// indexDebugRefs records, for each SSA value, the source expression text it
// denotes (from DebugRef instructions).
func (L *Loaded) indexDebugRefs(fn *ssa.Function) {
	for _, b := range fn.Blocks {
		for _, in := range b.Instrs {
			if d, ok := in.(*ssa.DebugRef); ok && !d.IsAddr {
				if e, ok := d.Expr.(ast.Expr); ok {
					if _, seen := L.debugNames[d.X]; !seen {
						L.debugNames[d.X] = L.exprSrc(e)
					}
				}
			}
		}
	}
	for _, a := range fn.AnonFuncs {
		L.indexDebugRefs(a)
	}
}

func (L *Loaded) exprSrc(e ast.Expr) string {
	p1, p2 := L.fset.Position(e.Pos()), L.fset.Position(e.End())
	b, ok := L.files[p1.Filename]
	if !ok {
		b, _ = os.ReadFile(p1.Filename)
		L.files[p1.Filename] = b
	}
	if p1.Offset >= 0 && p2.Offset <= len(b) && p1.Offset < p2.Offset {
		t := strings.Join(strings.Fields(string(b[p1.Offset:p2.Offset])), " ")
		if len(t) > 60 {
			t = t[:60] + "…"
		}
		return t
	}
	return ""
}

// FuncKey returns the contract key of a function: "Name", "(T).Name",
// "(*T).Name", closures "<parent>$1", generic instances by their origin.
func FuncKey(f *ssa.Function) string {
	if f.Parent() != nil {
		// closure: parent key + suffix after parent's name
		pk := FuncKey(f.Parent())
		name := f.Name() // e.g. Repositories$1
		if i := strings.IndexByte(name, '$'); i >= 0 {
			// name is relative to outermost: "Repositories$1$1"
			root := f
			for root.Parent() != nil {
				root = root.Parent()
			}
			return FuncKey(root) + name[i:]
		}
		return pk + "$" + name
	}
	if o := f.Origin(); o != nil {
		f = o
	}
	if recv := f.Signature.Recv(); recv != nil {
		t := recv.Type()
		ptr := ""
		if p, ok := t.(*types.Pointer); ok {
			ptr = "*"
			t = p.Elem()
		}
		name := ""
		if n, ok := t.(*types.Named); ok {
			name = n.Obj().Name()
		} else {
			name = t.String()
		}
		return "(" + ptr + name + ")." + f.Name()
	}
	return f.Name()
}

func FuncPkgPath(f *ssa.Function) string {
	for f.Parent() != nil {
		f = f.Parent()
	}
	if o := f.Origin(); o != nil {
		f = o
	}
	if f.Pkg != nil {
		return f.Pkg.Pkg.Path()
	}
	if f.Object() != nil && f.Object().Pkg() != nil {
		return f.Object().Pkg().Path()
	}
	return ""
}

// FindFunctions returns every function (including closures and generic
// instances) of a package, keyed.
func (L *Loaded) FindFunctions(pkgPath string) map[string][]*ssa.Function {
	out := map[string][]*ssa.Function{}
	for f := range L.allFuncs {
		if FuncPkgPath(f) != pkgPath {
			continue
		}
		if f.Synthetic != "" && !strings.Contains(f.Synthetic, "instance") {
			continue
		}
		if len(f.Blocks) == 0 {
			continue
		}
		if f.TypeParams().Len() > 0 && len(f.TypeArgs()) == 0 {
			continue // uninstantiated generic: verified per instance
		}
		root := f
		for root.Parent() != nil {
			root = root.Parent()
		}
		if root.TypeParams().Len() > 0 && len(root.TypeArgs()) == 0 {
			continue
		}
		k := FuncKey(f)
		out[k] = append(out[k], f)
	}
	for _, fs := range out {
		sort.Slice(fs, func(i, j int) bool { return fs[i].String() < fs[j].String() })
	}
	return out
}
