package main

import (
	"encoding/json"
	"flag"
	"fmt"
	"os"
	"path/filepath"
	"regexp"
	"sort"
	"strconv"
	"strings"
	"time"

	"golang.org/x/tools/go/ssa"
)

const verifDir = "/verif"

type KnownFinding struct {
	Property      string `json:"property"`
	Obligation    string `json:"obligation"`
	ExcludedInput string `json:"excluded_input,omitempty"`
	What          string `json:"what"`
	Status        string `json:"status,omitempty"` // "open" or "fixed"
	Commit        string `json:"commit,omitempty"`
}

type KnownFile struct {
	Findings []KnownFinding `json:"findings"`
	Fixed    []string       `json:"fixed"`
}

func loadKnown() []KnownFinding {
	b, err := os.ReadFile(filepath.Join(verifDir, "known_findings.json"))
	if err != nil {
		return nil
	}
	var kf KnownFile
	if err := json.Unmarshal(b, &kf); err != nil {
		fmt.Fprintln(os.Stderr, "known_findings.json:", err)
		return nil
	}
	var out []KnownFinding
	for _, f := range kf.Findings {
		if f.Status != "fixed" {
			out = append(out, f)
		}
	}
	return out
}

type VerifyRule struct {
	Pkg     string
	Pattern string
	Classes map[string]bool
	Exclude bool
}

type PropSpec struct {
	ID       string
	Load     []string
	Rules    []VerifyRule
	Lemmas   []string
	Struct   []string
	Bounded  []string
	NotDecided []string
	Assume   []string
	DeadOK   map[string]string // "file.go:line" suffix → reason: return statements reviewed as genuinely unreachable
	Budget   int
}

func loadPropSpec(id string) (*PropSpec, error) {
	b, err := os.ReadFile(filepath.Join(verifDir, "specs", id+".spec"))
	if err != nil {
		return nil, err
	}
	ps := &PropSpec{ID: id}
	for ln, line := range strings.Split(string(b), "\n") {
		line = strings.TrimSpace(line)
		if line == "" || strings.HasPrefix(line, "#") {
			continue
		}
		fs := strings.Fields(line)
		switch fs[0] {
		case "load":
			ps.Load = append(ps.Load, fs[1:]...)
		case "verify", "exclude":
			if len(fs) < 3 {
				return nil, fmt.Errorf("%s.spec:%d: bad rule", id, ln+1)
			}
			r := VerifyRule{Pkg: fs[1], Pattern: fs[2], Exclude: fs[0] == "exclude"}
			for _, f := range fs[3:] {
				if strings.HasPrefix(f, "classes=") {
					r.Classes = map[string]bool{}
					for _, c := range strings.Split(strings.TrimPrefix(f, "classes="), ",") {
						r.Classes[c] = true
					}
				}
			}
			ps.Rules = append(ps.Rules, r)
		case "lemma":
			ps.Lemmas = append(ps.Lemmas, strings.TrimSpace(strings.TrimPrefix(line, "lemma")))
		case "structural":
			ps.Struct = append(ps.Struct, strings.TrimSpace(strings.TrimPrefix(line, "structural")))
		case "bounded":
			ps.Bounded = append(ps.Bounded, strings.TrimSpace(strings.TrimPrefix(line, "bounded")))
		case "not-decided":
			ps.NotDecided = append(ps.NotDecided, strings.TrimSpace(strings.TrimPrefix(line, "not-decided")))
		case "assume":
			ps.Assume = append(ps.Assume, strings.TrimSpace(strings.TrimPrefix(line, "assume")))
		case "unreachable-ok":
			if len(fs) >= 2 {
				if ps.DeadOK == nil {
					ps.DeadOK = map[string]string{}
				}
				ps.DeadOK[fs[1]] = strings.Join(fs[2:], " ")
			}
		case "budget":
			ps.Budget, _ = strconv.Atoi(fs[1])
		default:
			return nil, fmt.Errorf("%s.spec:%d: unknown directive %q", id, ln+1, fs[0])
		}
	}
	return ps, nil
}

func globMatch(pat, s string) bool {
	re := "^" + strings.ReplaceAll(regexp.QuoteMeta(pat), `\*`, `.*`) + "$"
	ok, _ := regexp.MatchString(re, s)
	return ok
}

// loadContracts reads contracts_verif.go of every repo package that is
// loaded: the copy in /repo wins, the mirror under /verif/contracts is used
// when /repo has none (or when GOVC_CONTRACTS=mirror).
func loadContracts(L *Loaded) (*ContractSet, []string, error) {
	cs := NewContractSet()
	var warns []string
	for path := range L.spkgs {
		if !strings.HasPrefix(path, modulePath) {
			continue
		}
		rel := strings.TrimPrefix(strings.TrimPrefix(path, modulePath), "/")
		repoFile := filepath.Join(L.repoDir, rel, "contracts_verif.go")
		name := pkgShort(rel)
		if name == "" {
			name = "ociregistry"
		}
		mirror := filepath.Join(verifDir, "contracts", name, "contracts_verif.go")
		if d := os.Getenv("GOVC_MIRROR"); d != "" {
			// experiments: an alternative mirror directory (falls back to the regular one per package)
			if _, err := os.Stat(filepath.Join(d, name, "contracts_verif.go")); err == nil {
				mirror = filepath.Join(d, name, "contracts_verif.go")
			}
		}
		rb, rerr := os.ReadFile(repoFile)
		mb, merr := os.ReadFile(mirror)
		use := ""
		switch {
		case os.Getenv("GOVC_CONTRACTS") == "mirror" && merr == nil:
			use = mirror
		case rerr == nil:
			use = repoFile
			if merr == nil && string(rb) != string(mb) {
				warns = append(warns, fmt.Sprintf("contract file %s differs from mirror %s (repo copy used)", repoFile, mirror))
			}
		case merr == nil:
			use = mirror
		}
		if use == "" {
			continue
		}
		if err := cs.LoadContractFile(use, path); err != nil {
			return nil, warns, err
		}
	}
	return cs, warns, nil
}

func main() {
	if len(os.Args) < 2 {
		fmt.Fprintln(os.Stderr, "usage: govc check|dump|baseline|replay ...")
		os.Exit(2)
	}
	switch os.Args[1] {
	case "check":
		os.Exit(cmdCheck(os.Args[2:]))
	case "dump":
		os.Exit(cmdDump(os.Args[2:]))
	case "replay":
		os.Exit(cmdReplay(os.Args[2:]))
	default:
		fmt.Fprintln(os.Stderr, "unknown subcommand", os.Args[1])
		os.Exit(2)
	}
}

// outDir: where evidence and replay files go. Runs against a scratch copy of
// the repository (GOVC_REPO set: seeded changes, mutants) must not overwrite
// the evidence of the real tree, so they write under /verif/.cache/scratch-out.
func outDir() string {
	if r := os.Getenv("GOVC_REPO"); r != "" && filepath.Clean(r) != "/repo" {
		d := filepath.Join(verifDir, ".cache", "scratch-out")
		os.MkdirAll(d, 0o755)
		return d
	}
	return verifDir
}

func envInt(name string, def int) int {
	if v := os.Getenv(name); v != "" {
		if n, err := strconv.Atoi(v); err == nil {
			return n
		}
	}
	return def
}

type selected struct {
	fn      *ssa.Function
	classes map[string]bool
}

func selectFunctions(L *Loaded, ps *PropSpec) []selected {
	var out []selected
	seen := map[*ssa.Function]bool{}
	for path := range L.spkgs {
		if !strings.HasPrefix(path, "cuelabs.dev/go/oci") {
			continue
		}
		short := pkgShort(path)
		fns := L.FindFunctions(path)
		var keys []string
		for k := range fns {
			keys = append(keys, k)
		}
		sort.Strings(keys)
		for _, k := range keys {
			var classes map[string]bool
			matched := false
			for _, r := range ps.Rules {
				if r.Pkg != short || !globMatch(r.Pattern, k) {
					continue
				}
				if r.Exclude {
					matched = false
					continue
				}
				matched = true
				classes = r.Classes
			}
			if !matched {
				continue
			}
			for _, f := range fns[k] {
				if !seen[f] {
					seen[f] = true
					out = append(out, selected{f, classes})
				}
			}
		}
	}
	sort.Slice(out, func(i, j int) bool { return out[i].fn.String() < out[j].fn.String() })
	return out
}

func cmdDump(args []string) int {
	fs := flag.NewFlagSet("dump", flag.ExitOnError)
	pkg := fs.String("pkg", "./", "package pattern")
	fnPat := fs.String("func", "*", "function key glob")
	showQ := fs.String("query", "", "print the SMT query of obligations whose name contains this")
	solve := fs.Bool("solve", true, "discharge")
	timeout := fs.Int("timeout", 10, "seconds")
	fs.Parse(args)
	L, err := LoadPackages(strings.Fields(*pkg))
	if err != nil {
		fmt.Fprintln(os.Stderr, err)
		return 2
	}
	cs, warns, err := loadContracts(L)
	if err != nil {
		fmt.Fprintln(os.Stderr, err)
		return 2
	}
	for _, w := range warns {
		fmt.Println("WARNING:", w)
	}
	var results []*FuncResult
	for path := range L.spkgs {
		if !strings.HasPrefix(path, "cuelabs.dev/go/oci") {
			continue
		}
		for k, fns := range L.FindFunctions(path) {
			if !globMatch(*fnPat, k) {
				continue
			}
			for _, f := range fns {
				if !inLoadedPatterns(L, f) {
					continue
				}
				results = append(results, VerifyFunction(L, cs, f, VerifyOpts{Classes: allClasses()}, loadKnown()))
			}
		}
	}
	sort.Slice(results, func(i, j int) bool { return results[i].Key < results[j].Key })
	if *solve {
		(&Discharger{Timeout: time.Duration(*timeout) * time.Second}).Run(results)
	}
	for _, r := range results {
		fmt.Printf("== %s  paths=%d obligations=%d contract=%v\n", r.Key, r.Paths, len(r.Obls), r.HasContract)
		for _, e := range r.SpecErrors {
			fmt.Println("   SPEC-ERROR:", e)
		}
		var notes []string
		for n, c := range r.Notes {
			notes = append(notes, fmt.Sprintf("%s (x%d)", n, c))
		}
		sort.Strings(notes)
		for _, n := range notes {
			fmt.Println("   note:", n)
		}
		if r.Vacuity != nil && r.Vacuity.Result != nil {
			fmt.Printf("   vacuity: requires satisfiable: %s\n", r.Vacuity.Result.Answer)
		}
	}
	for _, g := range groupObligations(results) {
		fmt.Printf("%-10s %-6s %s  [%d inst, %s, %s]\n", g.Status, g.Class, g.Name, len(g.Instances), g.Solver, fmtSecs(g.Seconds))
		if g.Status != "discharged" {
			var as []string
			for _, o := range g.Instances {
				if o.Result != nil {
					as = append(as, fmt.Sprintf("%s@%s", o.Result.Answer, filepath.Base(o.Pos)))
				}
			}
			fmt.Printf("           instances: %s\n", strings.Join(as, " "))
			if o := g.firstFailing(); o != nil && o.Result != nil {
				fmt.Printf("           %s: %s at %s\n", o.Result.Answer, o.Info, o.Pos)
				if o.Result.Answer == "sat" {
					m := ParseModel(o.Result.Model)
					var ks []string
					for n, t := range o.Inputs {
						if v, ok := m[t.S]; ok {
							ks = append(ks, fmt.Sprintf("%s=%s", n, v))
						}
					}
					sort.Strings(ks)
					fmt.Printf("           model: %s\n", strings.Join(ks, " "))
				} else {
					fmt.Printf("           tried: %v %s\n", o.Result.Tried, firstLine(o.Result.Output))
				}
			}
		}
		if *showQ != "" && strings.Contains(g.Name, *showQ) {
			for _, o := range g.Instances {
				fmt.Println(";;;; ---- query for", o.Name)
				fmt.Println(o.Query)
				if o.Result != nil {
					fmt.Println(";;;; answer:", o.Result.Answer, o.Result.Tried)
					if o.Result.Answer == "sat" {
						fmt.Println(o.Result.Model)
					}
				}
			}
		}
	}
	for _, w := range sortedWarnings() {
		fmt.Println("WARNING:", w)
	}
	return 0
}

func inLoadedPatterns(L *Loaded, f *ssa.Function) bool {
	p := FuncPkgPath(f)
	for _, pk := range L.pkgs {
		if pk.PkgPath == p {
			return true
		}
	}
	return false
}
