package main

import (
	"fmt"
	"go/types"
	"regexp"
	"sort"
	"strings"
)

// Replay of a failed postcondition (class POST) on the real code.
//
// The solver's model gives values for the function's parameters (built into
// Go values by replayBuilder.plan, as for SAFE replays). The failing ensures
// clause, and the function's requires clauses, are compiled from the spec
// language into Go expressions that are evaluated in an in-package test after
// the real call:
//
//	REPLAY-PRE-FALSE    the built inputs do not satisfy the precondition
//	                    (the model relied on an abstraction that has no
//	                    concrete counterpart): nothing is concluded
//	REPLAY-POST-FALSE   the real function, on the model's inputs, falsifies
//	                    the clause: the violation is reproduced
//	REPLAY-POST-TRUE    the clause holds on these inputs: not reproduced
//
// Only an executable fragment is compiled: parameters, result.N, fields,
// indexing, len, arithmetic, comparisons, boolean connectives, old(E) over
// parameters, calls of package functions/methods and of spec functions with a
// body, bounded quantifiers over integer ranges, map keys and slice members.
// Anything else (call log, ghost state, heap snapshots, uninterpreted spec
// functions) makes the clause "not executable" and the replay is not attempted.

type goCompiler struct {
	x       *Exec
	rb      *replayBuilder
	env     map[string]string // spec identifier → Go expression
	olds    []string          // declarations evaluated before the call
	helpers map[string]string // spec function name → Go func literal declaration
	order   []string
	failMsg string
	nTmp    int
	inOld   bool
	results int
}

func (c *goCompiler) fail(f string, a ...interface{}) string {
	if c.failMsg == "" {
		c.failMsg = fmt.Sprintf(f, a...)
	}
	return "false"
}

var goIdentRe = regexp.MustCompile(`^[A-Za-z_][A-Za-z0-9_]*$`)

// typeExpr renders a spec type name ("int", "Scope", "*authHeader",
// "ociregistry.Descriptor", "[]string") as Go source valid in the package of
// the function under replay.
func (c *goCompiler) typeExpr(s string) string {
	s = strings.TrimSpace(s)
	pre := ""
	for {
		switch {
		case strings.HasPrefix(s, "*"):
			pre += "*"
			s = s[1:]
			continue
		case strings.HasPrefix(s, "[]"):
			pre += "[]"
			s = s[2:]
			continue
		}
		break
	}
	if i := strings.Index(s, "."); i > 0 {
		pn := s[:i]
		for path, sp := range c.x.L.spkgs {
			if sp.Pkg.Name() == pn || pkgShort(path) == pn {
				if sp.Pkg == c.rb.pkg {
					return pre + s[i+1:]
				}
				c.rb.imports[path] = sp.Pkg.Name()
				return pre + sp.Pkg.Name() + "." + s[i+1:]
			}
		}
		c.fail("unknown package in type %q", s)
	}
	return pre + s
}

func (c *goCompiler) tmp(p string) string {
	c.nTmp++
	return fmt.Sprintf("%s%d", p, c.nTmp)
}

func conjuncts(e SExpr) []SExpr {
	if b, ok := e.(SBin); ok && b.Op == "&&" {
		return append(conjuncts(b.L), conjuncts(b.R)...)
	}
	return []SExpr{e}
}

func mentions(e SExpr, name string) bool {
	found := false
	var walk func(e SExpr)
	walk = func(e SExpr) {
		switch n := e.(type) {
		case SIdent:
			if n.Name == name {
				found = true
			}
		case SBin:
			walk(n.L)
			walk(n.R)
		case SUn:
			walk(n.X)
		case SCall:
			walk(n.Fun)
			for _, a := range n.Args {
				walk(a)
			}
		case SSel:
			walk(n.X)
		case SIndex:
			walk(n.X)
			walk(n.I)
		case SSlice:
			walk(n.X)
			if n.Lo != nil {
				walk(n.Lo)
			}
			if n.Hi != nil {
				walk(n.Hi)
			}
		case SQuant:
			walk(n.Body)
		case SCond:
			walk(n.C)
			walk(n.A)
			walk(n.B)
		case SOld:
			walk(n.X)
		case SList:
			for _, a := range n.Elems {
				walk(a)
			}
		}
	}
	walk(e)
	return found
}

// quant compiles a quantifier. Variables of map-key or slice-member kind are
// enumerated from their guard (in(m, k), memberOf(s, v)). Integer variables
// are enumerated over the fixed universe [replayLo, replayHi) with the whole
// guard kept as a filter; this is exact when every bound of the guard lies
// inside the universe, which is checked at run time for the bounds that do
// not mention quantified variables (an index-style guard: 0 <= i && i < j &&
// j < len(s)). A variable without both a lower and an upper bound in its
// guard is not executable.
func (c *goCompiler) quant(q SQuant) string {
	var guard, body SExpr
	if q.Forall {
		b, ok := q.Body.(SBin)
		if !ok || b.Op != "==>" {
			return c.fail("forall without a guard: %s", exprString(q))
		}
		guard, body = b.L, b.R
	} else {
		guard, body = q.Body, SBool{V: true}
	}
	gs := conjuncts(guard)
	used := make([]bool, len(gs))
	saved := map[string]string{}
	names := map[string]bool{}
	for _, v := range q.Vars {
		if old, ok := c.env[v.Name]; ok {
			saved[v.Name] = old
		}
		c.env[v.Name] = "q_" + v.Name
		names[v.Name] = true
	}
	closed := func(e SExpr) bool {
		for n := range names {
			if mentions(e, n) {
				return false
			}
		}
		return true
	}
	var heads, checks []string
	for _, v := range q.Vars {
		gv := "q_" + v.Name
		isInt := v.Type == "int" || v.Type == "int64"
		head := ""
		hasLo, hasHi := false, false
		for i, g := range gs {
			if call, ok := g.(SCall); ok && head == "" {
				if id, ok := call.Fun.(SIdent); ok && len(call.Args) == 2 && closed(call.Args[0]) {
					if a1, ok := call.Args[1].(SIdent); ok && a1.Name == v.Name {
						switch id.Name {
						case "in":
							head = fmt.Sprintf("for %s := range %s {", gv, c.expr(call.Args[0]))
							used[i] = true
						case "memberOf":
							head = fmt.Sprintf("for _, %s := range %s {", gv, c.expr(call.Args[0]))
							used[i] = true
						}
					}
				}
			}
			b, ok := g.(SBin)
			if !ok || !isInt {
				continue
			}
			lid, lIs := b.L.(SIdent)
			rid, rIs := b.R.(SIdent)
			var other SExpr
			switch {
			case rIs && rid.Name == v.Name && (b.Op == "<=" || b.Op == "<"):
				hasLo, other = true, b.L
			case lIs && lid.Name == v.Name && (b.Op == ">=" || b.Op == ">"):
				hasLo, other = true, b.R
			case lIs && lid.Name == v.Name && (b.Op == "<=" || b.Op == "<"):
				hasHi, other = true, b.R
			case rIs && rid.Name == v.Name && (b.Op == ">=" || b.Op == ">"):
				hasHi, other = true, b.L
			case (lIs && lid.Name == v.Name || rIs && rid.Name == v.Name) && b.Op == "==":
				hasLo, hasHi = true, true
				if lIs && lid.Name == v.Name {
					other = b.R
				} else {
					other = b.L
				}
			}
			if other != nil && closed(other) {
				checks = append(checks, "replayInU(int64("+c.expr(other)+"))")
			}
		}
		if head == "" {
			if !isInt {
				return c.fail("quantified variable %s %s has no enumerable guard in %s", v.Name, v.Type, exprString(q))
			}
			if !hasLo || !hasHi {
				return c.fail("quantified variable %s is not bounded on both sides by its guard in %s", v.Name, exprString(q))
			}
			head = fmt.Sprintf("for %s := %s(replayLo); %s < %s(replayHi); %s++ {", gv, c.typeExpr(v.Type), gv, c.typeExpr(v.Type), gv)
		}
		heads = append(heads, head)
	}
	var rest []string
	for i, g := range gs {
		if !used[i] {
			rest = append(rest, "("+c.expr(g)+")")
		}
	}
	filter := "true"
	if len(rest) > 0 {
		filter = strings.Join(rest, " && ")
	}
	b := c.expr(body)
	for _, v := range q.Vars {
		if old, ok := saved[v.Name]; ok {
			c.env[v.Name] = old
		} else {
			delete(c.env, v.Name)
		}
	}
	var sb strings.Builder
	sb.WriteString("func() bool {\n")
	for _, ch := range checks {
		sb.WriteString(ch + "\n")
	}
	for _, h := range heads {
		sb.WriteString(h + "\n")
	}
	if q.Forall {
		fmt.Fprintf(&sb, "if (%s) && !(%s) {\nreturn false\n}\n", filter, b)
	} else {
		fmt.Fprintf(&sb, "if (%s) && (%s) {\nreturn true\n}\n", filter, b)
	}
	for range heads {
		sb.WriteString("}\n")
	}
	if q.Forall {
		sb.WriteString("return true\n}()")
	} else {
		sb.WriteString("return false\n}()")
	}
	return sb.String()
}

func (c *goCompiler) specFunc(sf *SpecFunc) string {
	name := "spec_" + sf.Name
	if _, ok := c.helpers[sf.Name]; ok {
		return name
	}
	if sf.Body == nil {
		c.fail("spec function %s is uninterpreted", sf.Name)
		return name
	}
	c.helpers[sf.Name] = "" // reserve (recursion)
	saved := c.env
	c.env = map[string]string{}
	var ps []string
	for _, p := range sf.Params {
		c.env[p.Name] = "p_" + p.Name
		ps = append(ps, "p_"+p.Name+" "+c.typeExpr(p.Type))
	}
	wasOld := c.inOld
	c.inOld = false
	body := c.expr(sf.Body)
	c.inOld = wasOld
	c.env = saved
	rt := "bool"
	if sf.Result != "" {
		rt = c.typeExpr(sf.Result)
	}
	c.helpers[sf.Name] = fmt.Sprintf("\tvar %s func(%s) %s\n\t%s = func(%s) %s { return %s }\n", name, strings.Join(typesOnly(ps), ", "), rt, name, strings.Join(ps, ", "), rt, body)
	c.order = append(c.order, sf.Name)
	return name
}

func typesOnly(ps []string) []string {
	var out []string
	for _, p := range ps {
		if i := strings.Index(p, " "); i >= 0 {
			out = append(out, p[i+1:])
		}
	}
	return out
}

func (c *goCompiler) expr(e SExpr) string {
	if c.failMsg != "" {
		return "false"
	}
	switch n := e.(type) {
	case SIdent:
		if g, ok := c.env[n.Name]; ok {
			return g
		}
		switch n.Name {
		case "result":
			if c.inOld {
				return c.fail("result inside old()")
			}
			if c.results == 1 {
				return "r0"
			}
			return c.fail("bare result of a multi-result function")
		case "true", "false":
			return n.Name
		case "calls", "self":
			return c.fail("%s is not executable", n.Name)
		}
		if c.rb.pkg.Scope().Lookup(n.Name) != nil || types.Universe.Lookup(n.Name) != nil {
			return n.Name
		}
		return c.fail("identifier %s (a local of the verified function?) is not available to a replay", n.Name)
	case SInt:
		return fmt.Sprintf("%d", n.V)
	case SStr:
		return fmt.Sprintf("%q", n.V)
	case SBool:
		return fmt.Sprintf("%v", n.V)
	case SNil:
		return "nil"
	case SUn:
		switch n.Op {
		case "!", "-":
			return n.Op + "(" + c.expr(n.X) + ")"
		}
		return c.fail("operator %s", n.Op)
	case SBin:
		l, r := c.expr(n.L), c.expr(n.R)
		switch n.Op {
		case "==>":
			return "(!(" + l + ") || (" + r + "))"
		case "<==>":
			return "((" + l + ") == (" + r + "))"
		case "&&", "||", "==", "!=", "<", "<=", ">", ">=", "+", "-", "*", "/", "%", "&", "|", "^", "<<", ">>":
			return "(" + l + " " + n.Op + " " + r + ")"
		}
		return c.fail("operator %s", n.Op)
	case SSel:
		if id, ok := n.X.(SIdent); ok {
			if id.Name == "result" {
				if c.inOld {
					return c.fail("result inside old()")
				}
				if goIdentRe.MatchString(n.Name) {
					// field of a single result
					if c.results == 1 {
						return "r0." + n.Name
					}
					return c.fail("result.%s", n.Name)
				}
				return "r" + n.Name
			}
			if _, bound := c.env[id.Name]; !bound {
				// package-qualified object
				for path, sp := range c.x.L.spkgs {
					if (sp.Pkg.Name() == id.Name || pkgShort(path) == id.Name) && sp.Pkg.Scope().Lookup(n.Name) != nil {
						if sp.Pkg == c.rb.pkg {
							return n.Name
						}
						c.rb.imports[path] = sp.Pkg.Name()
						return sp.Pkg.Name() + "." + n.Name
					}
				}
			}
		}
		if !goIdentRe.MatchString(n.Name) {
			// tuple component of a call result: f(x).0
			return c.fail("tuple selection %s", exprString(n))
		}
		return c.expr(n.X) + "." + n.Name
	case SIndex:
		return c.expr(n.X) + "[" + c.expr(n.I) + "]"
	case SSlice:
		lo, hi := "", ""
		if n.Lo != nil {
			lo = c.expr(n.Lo)
		}
		if n.Hi != nil {
			hi = c.expr(n.Hi)
		}
		return c.expr(n.X) + "[" + lo + ":" + hi + "]"
	case SCond:
		return "replayIte(" + c.expr(n.C) + ", func() any { return " + c.expr(n.A) + " }, func() any { return " + c.expr(n.B) + " })"
	case SOld:
		if c.inOld {
			return c.expr(n.X)
		}
		c.inOld = true
		g := c.expr(n.X)
		c.inOld = false
		name := c.tmp("old")
		c.olds = append(c.olds, fmt.Sprintf("\t%s := %s\n\t_ = %s\n", name, g, name))
		return name
	case SQuant:
		return c.quant(n)
	case SList:
		return c.fail("list expression")
	case SCall:
		var as []string
		for _, a := range n.Args {
			as = append(as, c.expr(a))
		}
		args := strings.Join(as, ", ")
		if id, ok := n.Fun.(SIdent); ok {
			if _, bound := c.env[id.Name]; bound {
				return c.env[id.Name] + "(" + args + ")"
			}
			switch id.Name {
			case "len", "cap", "string", "int", "int64", "int32", "uint8", "byte", "uint", "uint64", "uint32", "int8", "int16", "uint16", "min", "max":
				return id.Name + "(" + args + ")"
			case "hasPrefix":
				c.rb.imports["strings"] = "strings"
				return "strings.HasPrefix(" + args + ")"
			case "hasSuffix":
				c.rb.imports["strings"] = "strings"
				return "strings.HasSuffix(" + args + ")"
			case "contains":
				c.rb.imports["strings"] = "strings"
				return "strings.Contains(" + args + ")"
			case "in":
				if len(as) == 2 {
					return "func() bool {\n_, ok := " + as[0] + "[" + as[1] + "]\nreturn ok\n}()"
				}
			case "memberOf":
				if len(as) == 2 {
					c.rb.imports["slices"] = "slices"
					return "slices.Contains(" + args + ")"
				}
			case "errorsIs":
				c.rb.imports["errors"] = "errors"
				return "errors.Is(" + args + ")"
			}
			if sf, ok := c.x.cs.Specs[id.Name]; ok {
				return c.specFunc(sf) + "(" + args + ")"
			}
			if o := c.rb.pkg.Scope().Lookup(id.Name); o != nil {
				return id.Name + "(" + args + ")"
			}
			return c.fail("%s(...) is not executable", id.Name)
		}
		if sel, ok := n.Fun.(SSel); ok {
			if id, ok := sel.X.(SIdent); ok {
				if _, bound := c.env[id.Name]; !bound && id.Name != "result" {
					for path, sp := range c.x.L.spkgs {
						if sp.Pkg.Name() != id.Name && pkgShort(path) != id.Name {
							continue
						}
						if sf, ok := c.x.cs.Specs[sel.Name]; ok && sf.Pkg == path {
							return c.specFunc(sf) + "(" + args + ")"
						}
						if sp.Pkg.Scope().Lookup(sel.Name) != nil {
							if sp.Pkg == c.rb.pkg {
								return sel.Name + "(" + args + ")"
							}
							c.rb.imports[path] = sp.Pkg.Name()
							return sp.Pkg.Name() + "." + sel.Name + "(" + args + ")"
						}
					}
					switch id.Name {
					case "strings", "errors", "slices", "bytes":
						c.rb.imports[id.Name] = id.Name
						return id.Name + "." + sel.Name + "(" + args + ")"
					}
				}
			}
			// method call on a value
			return c.expr(sel.X) + "." + sel.Name + "(" + args + ")"
		}
		return c.fail("call %s", exprString(n))
	}
	return c.fail("expression %s", exprString(e))
}

var postNameRe = regexp.MustCompile(`/post\((.*)\)$`)

func compilePostReplay(x *Exec, o *Oblig, rb *replayBuilder, decls []string, call string) (string, bool) {
	return compileReplay(x, o, rb, decls, call, false)
}

// compileReplay builds the body of the replay test for a POST obligation
// (precondition check, call, clause check) or, with strictPre, for a SAFE
// obligation whose inputs come from a relaxed query (precondition and
// receiver-invariant check, call under recover). With strictPre every
// requires clause and every invariant of the receiver's type must be
// executable: a failure on inputs whose precondition was not checked on the
// real code proves nothing.
func compileReplay(x *Exec, o *Oblig, rb *replayBuilder, decls []string, call string, strictPre bool) (string, bool) {
	if (o.Class != "POST" && o.Class != "SAFE") || (x.ctr == nil && o.Class == "POST") {
		return "", false
	}
	var clause *Clause
	if o.Class == "POST" {
		m := postNameRe.FindStringSubmatch(o.Name)
		if m == nil {
			return "", false
		}
		for _, c := range x.ctr.Ensures {
			if c.Label == m[1] || c.Src == m[1] {
				clause = c
			}
		}
		if clause == nil {
			return "", false
		}
	}
	fn := x.fn
	c := &goCompiler{x: x, rb: rb, env: map[string]string{}, helpers: map[string]string{}, results: fn.Signature.Results().Len()}
	for i, p := range fn.Params {
		c.env[p.Name()] = fmt.Sprintf("in%d", i)
	}
	var pres []string
	var preSrc []*Clause
	if x.ctr != nil {
		preSrc = append(preSrc, x.ctr.Requires...)
	}
	for _, r := range preSrc {
		c.inOld = true // a precondition is evaluated before the call: no results
		g := c.expr(r.Expr)
		c.inOld = false
		if c.failMsg != "" {
			rb.notes = append(rb.notes, "precondition not executable ("+c.failMsg+"): "+r.Src)
			c.failMsg = ""
			if strictPre {
				return "", false
			}
			continue
		}
		pres = append(pres, g)
	}
	// invariants of the receiver's type are assumed at entry like preconditions
	if recv := fn.Signature.Recv(); recv != nil && len(fn.Params) > 0 {
		T := recv.Type()
		if pt, ok := T.(*types.Pointer); ok {
			T = pt.Elem()
		}
		if n, ok := T.(*types.Named); ok && n.Obj().Pkg() != nil {
			for _, iv := range x.cs.ObjInvs[n.Obj().Pkg().Path()+"."+n.Obj().Name()] {
				c.env["self"] = "in0"
				c.inOld = true
				g := c.expr(iv.Expr)
				c.inOld = false
				delete(c.env, "self")
				if c.failMsg != "" {
					rb.notes = append(rb.notes, "receiver invariant not executable ("+c.failMsg+"): "+iv.Src)
					c.failMsg = ""
					if strictPre {
						return "", false
					}
					continue
				}
				pres = append(pres, g)
			}
		}
	}
	post := ""
	if clause != nil {
		post = c.expr(clause.Expr)
		if c.failMsg != "" {
			rb.notes = append(rb.notes, "clause not executable: "+c.failMsg)
			return "", false
		}
	}
	var sb strings.Builder
	sb.WriteString("\treplayIte := func(c bool, a, b func() any) any {\n\t\tif c {\n\t\t\treturn a()\n\t\t}\n\t\treturn b()\n\t}\n\t_ = replayIte\n")
	sb.WriteString("\tconst replayLo, replayHi = -2, 260\n\treplayInU := func(v int64) {\n\t\tif v < replayLo+1 || v > replayHi-2 {\n\t\t\tpanic(fmt.Sprintf(\"a quantifier bound (%d) lies outside the universe the replay enumerates\", v))\n\t\t}\n\t}\n\t_ = replayInU\n")
	sb.WriteString("\tphase := \"building the inputs\"\n")
	sb.WriteString("\tdefer func() {\n\t\tif r := recover(); r != nil {\n\t\t\tif phase == \"call\" {\n\t\t\t\tfmt.Printf(\"REPLAY-PANIC: %v\\n\", r)\n\t\t\t} else {\n\t\t\t\tfmt.Printf(\"REPLAY-CHECK-PANIC: (%s) %v\\n\", phase, r)\n\t\t\t}\n\t\t}\n\t}()\n")
	for _, d := range decls {
		sb.WriteString(d + "\n")
	}
	for i := range fn.Params {
		fmt.Fprintf(&sb, "\t_ = in%d\n", i)
	}
	sort.Strings(c.order)
	// declarations first (the spec functions may refer to each other), then the bodies
	for _, h := range c.order {
		parts := strings.SplitN(c.helpers[h], "\n", 2)
		sb.WriteString(parts[0] + "\n")
		fmt.Fprintf(&sb, "\t_ = spec_%s\n", h)
	}
	for _, h := range c.order {
		parts := strings.SplitN(c.helpers[h], "\n", 2)
		if len(parts) == 2 {
			sb.WriteString(parts[1])
		}
	}
	sb.WriteString("\tphase = \"checking the precondition\"\n")
	for i, p := range pres {
		fmt.Fprintf(&sb, "\tif !(%s) {\n\t\tfmt.Println(\"REPLAY-PRE-FALSE: precondition clause %d does not hold on the inputs built from the model\")\n\t\treturn\n\t}\n", p, i)
	}
	fmt.Fprintf(&sb, "\tfmt.Println(\"REPLAY-PRE-OK: %d precondition clause(s) hold on these inputs\")\n", len(pres))
	for _, o := range c.olds {
		sb.WriteString(o)
	}
	sb.WriteString("\tphase = \"call\"\n")
	if c.results > 0 {
		var rs []string
		for i := 0; i < c.results; i++ {
			rs = append(rs, fmt.Sprintf("r%d", i))
		}
		fmt.Fprintf(&sb, "\t%s := %s\n", strings.Join(rs, ", "), call)
		sb.WriteString("\tphase = \"checking the clause\"\n")
		for _, r := range rs {
			fmt.Fprintf(&sb, "\t_ = %s\n", r)
		}
		fmt.Fprintf(&sb, "\tfmt.Printf(\"REPLAY-RESULT: %%#v\\n\", []any{%s})\n", strings.Join(rs, ", "))
	} else {
		sb.WriteString("\t" + call + "\n")
		sb.WriteString("\tphase = \"checking the clause\"\n")
	}
	if clause != nil {
		fmt.Fprintf(&sb, "\tif %s {\n\t\tfmt.Println(\"REPLAY-POST-TRUE\")\n\t} else {\n\t\tfmt.Println(\"REPLAY-POST-FALSE: ensures[%s] is false for the real function on these inputs\")\n\t}\n", post, strings.ReplaceAll(clause.Label, "\"", "'"))
	} else {
		sb.WriteString("\tfmt.Println(\"REPLAY-NO-FAILURE\")\n")
	}
	return sb.String(), true
}

// relaxQuery makes a query quantifier-free so that the solver can produce a
// model: every quantifier over integer variables (at most three) is replaced
// by the conjunction (forall) or disjunction (exists) of its instances over a
// small index domain (-1..5; with the slices of the inputs limited to 4
// elements these are the instances that matter for index-style quantifiers),
// whatever its polarity; a quantifier over anything else becomes true. The
// result is neither weaker nor stronger than the query in general: a model of
// it is only a candidate input, which counts for nothing unless the replay on
// the real code, which re-checks the precondition there, fails.
func relaxQuery(q string) string {
	var out []string
	for _, l := range strings.Split(q, "\n") {
		if !strings.HasPrefix(l, "(assert") || !(strings.Contains(l, "(forall ") || strings.Contains(l, "(exists ")) {
			out = append(out, l)
			continue
		}
		toks := tokenizeSexp(l)
		pos := 0
		var parse func() interface{}
		parse = func() interface{} {
			if pos >= len(toks) {
				return ""
			}
			t := toks[pos]
			pos++
			if t == "(" {
				l := []interface{}{}
				for pos < len(toks) && toks[pos] != ")" {
					l = append(l, parse())
				}
				pos++
				return l
			}
			return t
		}
		tree := parse()
		out = append(out, sexpString(relaxTerm(tree)))
	}
	return strings.Join(out, "\n")
}

var relaxDom = []string{"(- 1)", "0", "1", "2", "3", "4", "5"}

func relaxTerm(e interface{}) interface{} {
	l, ok := e.([]interface{})
	if !ok || len(l) == 0 {
		return e
	}
	head, _ := l[0].(string)
	if (head == "forall" || head == "exists") && len(l) == 3 {
		binders, _ := l[1].([]interface{})
		var names []string
		allInt := true
		for _, b := range binders {
			bl, ok := b.([]interface{})
			if !ok || len(bl) != 2 {
				allInt = false
				break
			}
			n, _ := bl[0].(string)
			srt, _ := bl[1].(string)
			if srt != "Int" {
				allInt = false
				break
			}
			names = append(names, n)
		}
		if !allInt || len(names) == 0 || len(names) > 3 {
			return "true"
		}
		body := l[2]
		if bl, ok := body.([]interface{}); ok && len(bl) >= 2 {
			if h, _ := bl[0].(string); h == "!" {
				body = bl[1]
			}
		}
		body = relaxTerm(body)
		comb := []interface{}{"and"}
		if head == "exists" {
			comb = []interface{}{"or"}
		}
		idx := make([]int, len(names))
		for {
			var bs []interface{}
			for k, n := range names {
				bs = append(bs, []interface{}{n, relaxDom[idx[k]]})
			}
			comb = append(comb, []interface{}{"let", bs, body})
			k := 0
			for k < len(idx) {
				idx[k]++
				if idx[k] < len(relaxDom) {
					break
				}
				idx[k] = 0
				k++
			}
			if k == len(idx) {
				break
			}
		}
		return comb
	}
	out := make([]interface{}, len(l))
	for i, x := range l {
		out[i] = relaxTerm(x)
	}
	return out
}

// ---------------------------------------------------------------------------
// Bounded stand-in for a contract that no longer binds to the code.
//
// When a loop is rewritten, the loop invariants of its contract name locals
// that no longer exist: the function's postconditions are then neither proved
// nor refuted ("STALE"). For functions over plain data (strings, byte slices,
// integers, booleans) whose precondition and postcondition are executable, the
// clause is then checked on the real code over an enumerated input space:
//   strings / []byte: every string of length <= 2 over all 256 bytes, every
//     string of length 3 over 24 chosen bytes and of length 4 over 12 of them,
//     and strings of lengths 127, 128, 129, 255, 256 (second and later string
//     parameters: length <= 1 over all bytes, length 2 over the 24 bytes);
//   integers: -2, -1, 0, 1, 2, 3, 127, 128, 255, 256, 65535, 65536, min, max of
//     the type; booleans: both.
// A failing input is a violation reproduced on the real code. Passing is
// reported as a bounded check with this bound, never as a proof.

func boundedKind(T types.Type) string {
	switch u := T.Underlying().(type) {
	case *types.Basic:
		switch {
		case u.Info()&types.IsString != 0:
			return "string"
		case u.Info()&types.IsBoolean != 0:
			return "bool"
		case u.Info()&types.IsInteger != 0:
			return "int"
		}
	case *types.Slice:
		if b, ok := u.Elem().Underlying().(*types.Basic); ok && b.Kind() == types.Uint8 {
			return "bytes"
		}
	}
	return ""
}

func tryBoundedCheck(L *Loaded, id string, g *Group) *ReplayResult {
	if g.Class != "POST" || len(g.Instances) == 0 {
		return nil
	}
	o := g.Instances[0]
	x := o.x
	if x == nil || x.fn == nil || x.ctr == nil {
		return nil
	}
	fn := x.fn
	if fn.Parent() != nil || len(fn.TypeArgs()) > 0 || len(fn.Params) == 0 || len(fn.Params) > 3 {
		return nil
	}
	sp := L.spkgs[FuncPkgPath(fn)]
	if sp == nil {
		return nil
	}
	var kinds []string
	for _, p := range fn.Params {
		k := boundedKind(p.Type())
		if k == "" {
			return nil
		}
		kinds = append(kinds, k)
	}
	m := postNameRe.FindStringSubmatch(o.Name)
	if m == nil {
		return nil
	}
	var clause *Clause
	for _, c := range x.ctr.Ensures {
		if c.Label == m[1] || c.Src == m[1] {
			clause = c
		}
	}
	if clause == nil {
		return nil
	}
	rb := &replayBuilder{x: x, vals: map[string]string{}, imports: map[string]string{"testing": "testing", "fmt": "fmt", "strings": "strings", "math": "math"}, pkg: sp.Pkg}
	c := &goCompiler{x: x, rb: rb, env: map[string]string{}, helpers: map[string]string{}, results: fn.Signature.Results().Len()}
	for i, p := range fn.Params {
		c.env[p.Name()] = fmt.Sprintf("in%d", i)
	}
	var pres []string
	for _, r := range x.ctr.Requires {
		c.inOld = true
		gsrc := c.expr(r.Expr)
		c.inOld = false
		if c.failMsg != "" {
			return nil // the precondition cannot be evaluated: an enumerated input proves nothing
		}
		pres = append(pres, gsrc)
	}
	post := c.expr(clause.Expr)
	if c.failMsg != "" {
		return nil
	}
	var sb strings.Builder
	sb.WriteString("\treplayIte := func(c bool, a, b func() any) any {\n\t\tif c {\n\t\t\treturn a()\n\t\t}\n\t\treturn b()\n\t}\n\t_ = replayIte\n")
	sb.WriteString("\tconst replayLo, replayHi = -2, 260\n\treplayInU := func(v int64) {\n\t\tif v < replayLo+1 || v > replayHi-2 {\n\t\t\tpanic(\"quantifier bound outside the enumerated universe\")\n\t\t}\n\t}\n\t_ = replayInU\n\t_ = math.MaxInt64\n")
	sort.Strings(c.order)
	for _, h := range c.order {
		parts := strings.SplitN(c.helpers[h], "\n", 2)
		sb.WriteString(parts[0] + "\n")
		fmt.Fprintf(&sb, "\t_ = spec_%s\n", h)
	}
	for _, h := range c.order {
		parts := strings.SplitN(c.helpers[h], "\n", 2)
		if len(parts) == 2 {
			sb.WriteString(parts[1])
		}
	}
	sb.WriteString(`	all := make([]byte, 256)
	for i := range all {
		all[i] = byte(i)
	}
	alpha := []byte{'a', 'Z', '0', '_', '.', '-', '/', ':', '@', ' ', '!', '[', 0x60, '{', 0x00, 0x7f, 0x80, 0xa1, 0xbf, 0xc2, 0xc5, 0xdf, 0xe0, 0xff}
	var big, small []string
	big = append(big, "")
	small = append(small, "")
	for _, a := range all {
		big = append(big, string([]byte{a}))
		small = append(small, string([]byte{a}))
		for _, b := range all {
			big = append(big, string([]byte{a, b}))
		}
	}
	for _, a := range alpha {
		for _, b := range alpha {
			small = append(small, string([]byte{a, b}))
			for _, c := range alpha {
				big = append(big, string([]byte{a, b, c}))
			}
		}
	}
	for _, a := range alpha[:12] {
		for _, b := range alpha[:12] {
			for _, c := range alpha[12:] {
				for _, d := range alpha[12:] {
					big = append(big, string([]byte{a, b, c, d}))
				}
			}
		}
	}
	for _, n := range []int{127, 128, 129, 255, 256} {
		big = append(big, strings.Repeat("a", n))
	}
	ints := []int64{-2, -1, 0, 1, 2, 3, 127, 128, 255, 256, 65535, 65536, math.MinInt64, math.MaxInt64}
	_, _, _ = big, small, ints
	tried, checked := 0, 0
	failed := false
`)
	// nested loops
	firstStr := true
	var closers int
	var fmts, args []string
	for i, p := range fn.Params {
		T := rb.typeStr(p.Type())
		switch kinds[i] {
		case "string", "bytes":
			set := "small"
			if firstStr {
				set, firstStr = "big", false
			}
			fmt.Fprintf(&sb, "\tfor _, s%d := range %s {\n\tin%d := %s(s%d)\n", i, set, i, T, i)
			fmts = append(fmts, fmt.Sprintf("%s=%%q", p.Name()))
			args = append(args, fmt.Sprintf("string(in%d)", i))
		case "int":
			fmt.Fprintf(&sb, "\tfor _, n%d := range ints {\n\tin%d := %s(n%d)\n\tif int64(in%d) != n%d {\n\t\tcontinue\n\t}\n", i, i, T, i, i, i)
			fmts = append(fmts, fmt.Sprintf("%s=%%d", p.Name()))
			args = append(args, fmt.Sprintf("int64(in%d)", i))
		case "bool":
			fmt.Fprintf(&sb, "\tfor _, in%d := range []bool{false, true} {\n", i)
			fmts = append(fmts, fmt.Sprintf("%s=%%v", p.Name()))
			args = append(args, fmt.Sprintf("in%d", i))
		}
		closers++
	}
	call := ""
	var an []string
	for i := range fn.Params {
		an = append(an, fmt.Sprintf("in%d", i))
	}
	if fn.Signature.Recv() != nil {
		call = fmt.Sprintf("%s.%s(%s)", an[0], fn.Name(), strings.Join(an[1:], ", "))
	} else {
		call = fmt.Sprintf("%s(%s)", fn.Name(), strings.Join(an, ", "))
	}
	sb.WriteString("\tif failed {\n\t\tbreak\n\t}\n\ttried++\n\tfunc() {\n\t\tphase := \"pre\"\n")
	fmt.Fprintf(&sb, "\t\tdefer func() {\n\t\t\tif r := recover(); r != nil && phase == \"call\" {\n\t\t\t\tfailed = true\n\t\t\t\tfmt.Printf(\"REPLAY-PANIC: %%v on %s\\n\", r, %s)\n\t\t\t}\n\t\t}()\n", strings.Join(fmts, " "), strings.Join(args, ", "))
	for _, p := range pres {
		fmt.Fprintf(&sb, "\t\tif !(%s) {\n\t\t\treturn\n\t\t}\n", p)
	}
	for _, o := range c.olds {
		sb.WriteString("\t" + o)
	}
	sb.WriteString("\t\tchecked++\n\t\tphase = \"call\"\n")
	if c.results > 0 {
		var rs []string
		for i := 0; i < c.results; i++ {
			rs = append(rs, fmt.Sprintf("r%d", i))
		}
		fmt.Fprintf(&sb, "\t\t%s := %s\n\t\tphase = \"post\"\n", strings.Join(rs, ", "), call)
		for _, r := range rs {
			fmt.Fprintf(&sb, "\t\t_ = %s\n", r)
		}
	} else {
		sb.WriteString("\t\t" + call + "\n\t\tphase = \"post\"\n")
	}
	fmt.Fprintf(&sb, "\t\tif !(%s) {\n\t\t\tfailed = true\n\t\t\tfmt.Printf(\"REPLAY-POST-FALSE: ensures[%s] is false for the real function on %s\\n\", %s)\n\t\t}\n\t}()\n", post, strings.ReplaceAll(clause.Label, "\"", "'"), strings.Join(fmts, " "), strings.Join(args, ", "))
	for i := 0; i < closers; i++ {
		sb.WriteString("\t}\n")
	}
	sb.WriteString("\tif !failed {\n\t\tfmt.Printf(\"REPLAY-BOUNDED-PASS: %d inputs enumerated, %d satisfied the precondition\\n\", tried, checked)\n\t}\n")
	var imps []string
	for p, n := range rb.imports {
		if pkgShort(p) == n {
			imps = append(imps, fmt.Sprintf("\t%q", p))
		} else {
			imps = append(imps, fmt.Sprintf("\t%s %q", n, p))
		}
	}
	sort.Strings(imps)
	src := fmt.Sprintf("package %s\n\nimport (\n%s\n)\n\nfunc TestVerifReplay(t *testing.T) {\n%s}\n", sp.Pkg.Name(), strings.Join(imps, "\n"), sb.String())
	out, err := runOverlayTest(L, FuncPkgPath(fn), src)
	res := &ReplayResult{TestSource: src, Output: out, Pkg: FuncPkgPath(fn), Mode: "bounded enumeration (contract stale)"}
	switch {
	case strings.Contains(out, "REPLAY-POST-FALSE"):
		res.Reproduced = true
		res.Summary = "bounded enumeration on the real code: " + firstLineContaining(out, "REPLAY-POST-FALSE")
	case strings.Contains(out, "REPLAY-PANIC"):
		res.Reproduced = true
		res.Summary = "bounded enumeration on the real code: " + firstLineContaining(out, "REPLAY-PANIC")
	case strings.Contains(out, "REPLAY-BOUNDED-PASS"):
		res.Summary = "bounded stand-in (not a proof): " + firstLineContaining(out, "REPLAY-BOUNDED-PASS")
	default:
		_ = err
		res.Summary = "bounded stand-in did not build or run: " + firstLine(out)
	}
	return res
}
