package main

// Regular expressions: patterns are compile-time constants; the facts assumed
// about FindStringSubmatch / MatchString are derived from the syntax tree of
// the constant pattern (O-STRUCT), not hand-written.

import (
	"fmt"
	"go/constant"
	"go/types"
	"regexp/syntax"
	"strings"

	"golang.org/x/tools/go/ssa"
)

// scanRegexGlobals finds package-level variables initialised as
// sync.OnceValue(func() *regexp.Regexp { return regexp.MustCompile(<const>) })
// or directly as regexp.MustCompile(<const>).
func (L *Loaded) scanRegexGlobals() {
	L.regexGlobals = map[string]string{}
	patternOf := func(f *ssa.Function) (string, bool) {
		for _, b := range f.Blocks {
			for _, in := range b.Instrs {
				c, ok := in.(*ssa.Call)
				if !ok {
					continue
				}
				callee := c.Call.StaticCallee()
				if callee == nil || callee.String() != "regexp.MustCompile" {
					continue
				}
				if k, ok := c.Call.Args[0].(*ssa.Const); ok && k.Value != nil && k.Value.Kind() == constant.String {
					return constant.StringVal(k.Value), true
				}
			}
		}
		return "", false
	}
	for _, p := range L.prog.AllPackages() {
		if !L.isRepoPkg(p.Pkg) {
			continue
		}
		init := p.Func("init")
		if init == nil {
			continue
		}
		for _, b := range init.Blocks {
			for _, in := range b.Instrs {
				s, ok := in.(*ssa.Store)
				if !ok {
					continue
				}
				g, ok := s.Addr.(*ssa.Global)
				if !ok {
					continue
				}
				c, ok := s.Val.(*ssa.Call)
				if !ok {
					continue
				}
				callee := c.Call.StaticCallee()
				if callee == nil {
					continue
				}
				name := callee.String()
				if o := callee.Origin(); o != nil {
					name = o.String()
				}
				switch name {
				case "sync.OnceValue":
					var fn *ssa.Function
					switch a := c.Call.Args[0].(type) {
					case *ssa.MakeClosure:
						fn = a.Fn.(*ssa.Function)
					case *ssa.Function:
						fn = a
					}
					if fn != nil {
						if pat, ok := patternOf(fn); ok {
							L.regexGlobals["G_"+sanitize(g.Pkg.Pkg.Name()+"_"+g.Name())] = pat
						}
					}
				case "regexp.MustCompile":
					if k, ok := c.Call.Args[0].(*ssa.Const); ok && k.Value != nil {
						L.regexGlobals["G_"+sanitize(g.Pkg.Pkg.Name()+"_"+g.Name())] = constant.StringVal(k.Value)
					}
				}
			}
		}
	}
}

// reShape is the derived structure of an anchored pattern
// ^(?: item item ... )$ where each item is a capture group, a literal, or an
// optional group made of literals and exactly one capture.
type reItem struct {
	optional bool
	parts    []rePart
}
type rePart struct {
	lit     string
	capture int // 0 = literal
	sub     *syntax.Regexp
}
type reShape struct {
	items   []reItem
	ncap    int
	capSub  map[int]*syntax.Regexp
	whole   *syntax.Regexp // body between the anchors (for MatchString on ^(?:R)$)
}

func stripAnchors(re *syntax.Regexp) (*syntax.Regexp, bool) {
	if re.Op != syntax.OpConcat || len(re.Sub) < 3 {
		return nil, false
	}
	if re.Sub[0].Op != syntax.OpBeginText || re.Sub[len(re.Sub)-1].Op != syntax.OpEndText {
		return nil, false
	}
	body := re.Sub[1 : len(re.Sub)-1]
	if len(body) == 1 {
		return body[0], true
	}
	return &syntax.Regexp{Op: syntax.OpConcat, Sub: body}, true
}

func minLen(re *syntax.Regexp) int {
	switch re.Op {
	case syntax.OpLiteral:
		return len(string(re.Rune))
	case syntax.OpCharClass, syntax.OpAnyChar, syntax.OpAnyCharNotNL:
		return 1
	case syntax.OpCapture:
		return minLen(re.Sub[0])
	case syntax.OpConcat:
		n := 0
		for _, s := range re.Sub {
			n += minLen(s)
		}
		return n
	case syntax.OpAlternate:
		n := -1
		for _, s := range re.Sub {
			if m := minLen(s); n < 0 || m < n {
				n = m
			}
		}
		if n < 0 {
			n = 0
		}
		return n
	case syntax.OpPlus:
		return minLen(re.Sub[0])
	case syntax.OpRepeat:
		return re.Min * minLen(re.Sub[0])
	}
	return 0
}

func deriveShape(pattern string) (*reShape, error) {
	re, err := syntax.Parse(pattern, syntax.Perl)
	if err != nil {
		return nil, err
	}
	body, ok := stripAnchors(re)
	if !ok {
		return nil, fmt.Errorf("pattern is not anchored ^...$")
	}
	sh := &reShape{capSub: map[int]*syntax.Regexp{}, whole: body, ncap: re.MaxCap()}
	var items []*syntax.Regexp
	if body.Op == syntax.OpConcat {
		items = body.Sub
	} else {
		items = []*syntax.Regexp{body}
	}
	partsOf := func(r *syntax.Regexp) ([]rePart, bool) {
		var seq []*syntax.Regexp
		if r.Op == syntax.OpConcat {
			seq = r.Sub
		} else {
			seq = []*syntax.Regexp{r}
		}
		var parts []rePart
		ncap := 0
		for _, s := range seq {
			switch s.Op {
			case syntax.OpLiteral:
				parts = append(parts, rePart{lit: string(s.Rune)})
			case syntax.OpCapture:
				if minLen(s) == 0 {
					return nil, false
				}
				parts = append(parts, rePart{capture: s.Cap, sub: s.Sub[0]})
				sh.capSub[s.Cap] = s.Sub[0]
				ncap++
			default:
				return nil, false
			}
		}
		return parts, true
	}
	for _, it := range items {
		switch it.Op {
		case syntax.OpQuest:
			parts, ok := partsOf(it.Sub[0])
			if !ok {
				return nil, fmt.Errorf("optional group is not literal+capture")
			}
			nc := 0
			for _, p := range parts {
				if p.capture != 0 {
					nc++
				}
			}
			if nc != 1 {
				return nil, fmt.Errorf("optional group must contain exactly one capture")
			}
			sh.items = append(sh.items, reItem{optional: true, parts: parts})
		default:
			parts, ok := partsOf(it)
			if !ok {
				return nil, fmt.Errorf("top-level item is not a literal or capture")
			}
			sh.items = append(sh.items, reItem{parts: parts})
		}
	}
	return sh, nil
}

func reKey(r *syntax.Regexp) string {
	return "rematch_" + shortHash(r.String())
}

// regexFacts assumes, for m = re.FindStringSubmatch(s), the facts derived
// from the pattern's shape.
func (x *Exec) regexFindFacts(st *State, pattern string, s Term, m Term) bool {
	sh, err := deriveShape(pattern)
	if err != nil {
		x.note("regex shape not derivable (%v): FindStringSubmatch result arbitrary", err)
		return false
	}
	ss := x.te.StrSort
	if ss != "String" {
		return false
	}
	n := sh.ncap + 1
	isnil := sliceNil(m)
	at := func(i int) Term { return Select(sliceArr(m), IntLit(int64(i))) }
	var facts []Term
	facts = append(facts, Eq(sliceLen(m), IntLit(int64(n))))
	facts = append(facts, Eq(at(0), s))
	var pieces []Term
	for _, it := range sh.items {
		var capT Term
		var seq []Term
		for _, p := range it.parts {
			if p.capture != 0 {
				capT = at(p.capture)
				seq = append(seq, capT)
				fn := reKey(p.sub)
				x.d.DeclareFun(fn, fmt.Sprintf("(declare-fun %s (String) Bool)", fn))
				facts = append(facts, Implies(Not(Eq(capT, StrLit(""))), mk("Bool", fn, capT)))
				if cc := simpleNegClass(p.sub); cc != "" {
					facts = append(facts, Not(mk("Bool", "str.contains", capT, StrLit(cc))))
				}
			} else {
				seq = append(seq, StrLit(p.lit))
			}
		}
		var piece Term
		if len(seq) == 1 {
			piece = seq[0]
		} else {
			piece = mk("String", "str.++", seq...)
		}
		if it.optional {
			piece = Ite(Eq(capT, StrLit("")), StrLit(""), piece)
		} else if !capT.IsZero() {
			facts = append(facts, Not(Eq(capT, StrLit(""))))
		}
		pieces = append(pieces, piece)
	}
	if len(pieces) == 1 {
		facts = append(facts, Eq(s, pieces[0]))
	} else {
		facts = append(facts, Eq(s, mk("String", "str.++", pieces...)))
	}
	st.assume(Implies(Not(isnil), And(facts...)))
	st.assume(Implies(isnil, Eq(sliceLen(m), IntLit(0))))
	x.funcsUsed["assume:regexp engine implements its syntax tree: facts about FindStringSubmatch derived from the constant pattern's shape (anchored concatenation of optional literal+capture groups)"] = true
	return true
}

// simpleNegClass recognises [^c]+ and returns c.
func simpleNegClass(r *syntax.Regexp) string {
	if r.Op == syntax.OpPlus && r.Sub[0].Op == syntax.OpCharClass {
		cc := r.Sub[0].Rune
		// complement of a single rune c: [0,c-1],[c+1,max]
		if len(cc) == 4 && cc[0] == 0 && cc[1]+2 == cc[2] && cc[3] == 0x10ffff {
			return string(rune(cc[1] + 1))
		}
	}
	return ""
}

// regexMatchTerm: re.MatchString(s) for a pattern ^(?:R)$ is rematch_h(R)(s).
func (x *Exec) regexMatchTerm(pattern string, s Term) (Term, bool) {
	re, err := syntax.Parse(pattern, syntax.Perl)
	if err != nil {
		return Term{}, false
	}
	body, ok := stripAnchors(re)
	if !ok || x.te.StrSort != "String" {
		return Term{}, false
	}
	fn := reKey(body)
	x.d.DeclareFun(fn, fmt.Sprintf("(declare-fun %s (String) Bool)", fn))
	x.funcsUsed["assume:regexp engine implements its syntax tree: MatchString on ^(?:R)$ is full match of R"] = true
	return mk("Bool", fn, s), true
}

func init() {
	libTable["(*regexp.Regexp).FindStringSubmatch"] = func(x *Exec, fr *Frame, st *State, cc *ssa.CallCommon, a []Val) (Val, bool) {
		pat := strings.TrimPrefix(a[0].Org, "regex:")
		if !strings.HasPrefix(a[0].Org, "regex:") {
			return Val{}, false
		}
		T := cc.Signature().Results().At(0).Type()
		m := x.freshVal(st, "submatch", T)
		if !x.regexFindFacts(st, pat, a[1].T, m.T) {
			return Val{}, false
		}
		x.funcsUsed["lib:(*regexp.Regexp).FindStringSubmatch"] = true
		return m, true
	}
	libTable["(*regexp.Regexp).MatchString"] = func(x *Exec, fr *Frame, st *State, cc *ssa.CallCommon, a []Val) (Val, bool) {
		if !strings.HasPrefix(a[0].Org, "regex:") {
			return Val{}, false
		}
		t, ok := x.regexMatchTerm(strings.TrimPrefix(a[0].Org, "regex:"), a[1].T)
		if !ok {
			return Val{}, false
		}
		x.funcsUsed["lib:(*regexp.Regexp).MatchString"] = true
		return Val{T: t, Typ: types.Typ[types.Bool]}, true
	}
}

// scanFuncTables finds package-level slices of functions initialised by a
// composite literal and never reassigned (e.g. ociserver.handlers): the
// table's content is read off the init function.
func (L *Loaded) scanFuncTables() {
	L.funcTables = map[string][]*ssa.Function{}
	for _, p := range L.prog.AllPackages() {
		if !L.isRepoPkg(p.Pkg) {
			continue
		}
		init := p.Func("init")
		if init == nil {
			continue
		}
		elems := map[*ssa.Alloc]map[int64]*ssa.Function{}
		for _, b := range init.Blocks {
			for _, in := range b.Instrs {
				s, ok := in.(*ssa.Store)
				if !ok {
					continue
				}
				if ia, ok := s.Addr.(*ssa.IndexAddr); ok {
					a, ok1 := ia.X.(*ssa.Alloc)
					k, ok2 := ia.Index.(*ssa.Const)
					if !ok1 || !ok2 {
						continue
					}
					var fn *ssa.Function
					switch v := s.Val.(type) {
					case *ssa.Function:
						fn = v
					case *ssa.MakeClosure:
						fn, _ = v.Fn.(*ssa.Function)
					case *ssa.ChangeType:
						fn, _ = v.X.(*ssa.Function)
					}
					if fn == nil {
						continue
					}
					if elems[a] == nil {
						elems[a] = map[int64]*ssa.Function{}
					}
					elems[a][k.Int64()] = fn
					continue
				}
				g, ok := s.Addr.(*ssa.Global)
				if !ok {
					continue
				}
				sl, ok := s.Val.(*ssa.Slice)
				if !ok {
					continue
				}
				a, ok := sl.X.(*ssa.Alloc)
				if !ok || elems[a] == nil {
					continue
				}
				at, ok := a.Type().(*types.Pointer).Elem().Underlying().(*types.Array)
				if !ok {
					continue
				}
				tbl := make([]*ssa.Function, at.Len())
				complete := true
				for i := range tbl {
					tbl[i] = elems[a][int64(i)]
					if tbl[i] == nil {
						complete = false
					}
				}
				key := "G_" + sanitize(g.Pkg.Pkg.Name()+"_"+g.Name())
				if complete && L.immutableGlobal[key] {
					L.funcTables[key] = tbl
				}
			}
		}
	}
}

// scanGlobalStructs: package-level struct variables whose fields are set to
// constants by the package initialiser and never stored to afterwards
// (e.g. ociauth.CatalogScope).
type globalField struct {
	Field int
	Const *ssa.Const
}

func (L *Loaded) scanGlobalStructs() {
	L.globalStructs = map[*ssa.Global][]globalField{}
	for _, p := range L.prog.AllPackages() {
		if !L.isRepoPkg(p.Pkg) {
			continue
		}
		init := p.Func("init")
		if init == nil {
			continue
		}
		for _, b := range init.Blocks {
			for _, in := range b.Instrs {
				s, ok := in.(*ssa.Store)
				if !ok {
					continue
				}
				fa, ok := s.Addr.(*ssa.FieldAddr)
				if !ok {
					continue
				}
				g, ok := fa.X.(*ssa.Global)
				if !ok {
					continue
				}
				c, ok := s.Val.(*ssa.Const)
				if !ok {
					continue
				}
				L.globalStructs[g] = append(L.globalStructs[g], globalField{fa.Field, c})
			}
		}
	}
	// stores through FieldAddr of a global outside init make it mutable
	for f := range L.allFuncs {
		if f.Name() == "init" {
			continue
		}
		for _, b := range f.Blocks {
			for _, in := range b.Instrs {
				if s, ok := in.(*ssa.Store); ok {
					if g, ok := rootAddr(s.Addr).(*ssa.Global); ok {
						delete(L.globalStructs, g)
					}
				}
			}
		}
	}
}

// scanErrorGlobals: package-level `var ErrX = NewError(msg, code, nil)` and
// constant maps keyed by ErrX.Code() (ociregistry.errorStatuses), read off
// the package initialiser.
type errGlobal struct {
	G    *ssa.Global
	Msg  string
	Code string
}

// sameVarargs: is arr the backing array whose slice is passed as the variadic argument va?
func sameVarargs(arr ssa.Value, va ssa.Value) bool {
	if sl, ok := va.(*ssa.Slice); ok {
		return sl.X == arr
	}
	return false
}

func (L *Loaded) scanErrorGlobals() {
	L.errGlobals = map[*ssa.Global]errGlobal{}
	L.constMaps = map[string]map[string]int64{}
	for _, p := range L.prog.AllPackages() {
		if !L.isRepoPkg(p.Pkg) {
			continue
		}
		init := p.Func("init")
		if init == nil {
			continue
		}
		callOf := map[ssa.Value]*ssa.Global{} // result of ErrX.Code() → ErrX
		loadOf := map[ssa.Value]*ssa.Global{}
		mapOf := map[ssa.Value]map[string]int64{}
		for _, b := range init.Blocks {
			for _, in := range b.Instrs {
				switch in := in.(type) {
				case *ssa.UnOp:
					if g, ok := in.X.(*ssa.Global); ok {
						loadOf[in] = g
					}
				case *ssa.Call:
					if in.Call.IsInvoke() && in.Call.Method.Name() == "Code" {
						if g, ok := loadOf[in.Call.Value]; ok {
							callOf[in] = g
						}
					}
				case *ssa.MakeMap:
					mapOf[in] = map[string]int64{}
				case *ssa.MapUpdate:
					m, ok := mapOf[in.Map]
					if !ok {
						continue
					}
					v, ok := in.Value.(*ssa.Const)
					if !ok || v.Value == nil {
						delete(mapOf, in.Map)
						continue
					}
					key := ""
					switch k := in.Key.(type) {
					case *ssa.Const:
						if k.Value != nil && k.Value.Kind() == constant.String {
							key = constant.StringVal(k.Value)
						}
					default:
						if g, ok := callOf[k]; ok {
							key = "$code:" + g.Name()
						}
					}
					if key == "" {
						delete(mapOf, in.Map)
						continue
					}
					m[key] = v.Int64()
				case *ssa.Store:
					g, ok := in.Addr.(*ssa.Global)
					if !ok {
						continue
					}
					if m, ok := mapOf[in.Val]; ok {
						L.constMaps["G_"+sanitize(g.Pkg.Pkg.Name()+"_"+g.Name())] = m
					}
					if c, ok := in.Val.(*ssa.Call); ok {
						if callee := c.Call.StaticCallee(); callee != nil && (callee.String() == "errors.New" || callee.String() == "fmt.Errorf") {
							var wrapped *ssa.Global
							if callee.String() == "fmt.Errorf" {
								if fc, ok := c.Call.Args[0].(*ssa.Const); ok && fc.Value != nil && strings.Count(constant.StringVal(fc.Value), "%w") == 1 {
									// the single %w operand: find the error-typed global among the variadic operands
									for _, in2 := range b.Instrs {
										if mi, ok := in2.(*ssa.MakeInterface); ok {
											_ = mi
										}
										if st2, ok := in2.(*ssa.Store); ok {
											if ia, ok := st2.Addr.(*ssa.IndexAddr); ok && sameVarargs(ia.X, c.Call.Args[1]) {
												v := st2.Val
												if ci, ok := v.(*ssa.ChangeInterface); ok {
													v = ci.X
												}
												if mi, ok := v.(*ssa.MakeInterface); ok {
													v = mi.X
												}
												if g2, ok := loadOf[v]; ok && wrapped == nil {
													wrapped = g2
												}
											}
										}
									}
								}
							}
							if L.newErrGlobals == nil {
								L.newErrGlobals = map[*ssa.Global]*ssa.Global{}
							}
							L.newErrGlobals[g] = wrapped
						}
						if callee := c.Call.StaticCallee(); callee != nil && callee.Name() == "NewError" && len(c.Call.Args) == 3 {
							m0, ok0 := c.Call.Args[0].(*ssa.Const)
							c0, ok1 := c.Call.Args[1].(*ssa.Const)
							if ok0 && ok1 && m0.Value != nil && c0.Value != nil {
								L.errGlobals[g] = errGlobal{g, constant.StringVal(m0.Value), constant.StringVal(c0.Value)}
							}
						}
					}
				}
			}
		}
	}
	// resolve $code: keys
	byName := map[string]string{}
	for g, e := range L.errGlobals {
		byName[g.Name()] = e.Code
	}
	for k, m := range L.constMaps {
		m2 := map[string]int64{}
		ok := true
		for key, v := range m {
			if strings.HasPrefix(key, "$code:") {
				c, found := byName[strings.TrimPrefix(key, "$code:")]
				if !found {
					ok = false
				}
				key = c
			}
			m2[key] = v
		}
		if ok && L.immutableGlobal[k] {
			L.constMaps[k] = m2
		} else {
			delete(L.constMaps, k)
		}
	}
	// a MapUpdate/delete on such a map outside init makes it mutable
	for f := range L.allFuncs {
		if f.Name() == "init" || !L.isRepoFunc(f) {
			continue
		}
		for _, b := range f.Blocks {
			for _, in := range b.Instrs {
				var mv ssa.Value
				switch in := in.(type) {
				case *ssa.MapUpdate:
					mv = in.Map
				case *ssa.Call:
					if bi, ok := in.Call.Value.(*ssa.Builtin); ok && (bi.Name() == "delete" || bi.Name() == "clear") {
						mv = in.Call.Args[0]
					}
				}
				if u, ok := mv.(*ssa.UnOp); ok {
					if g, ok := u.X.(*ssa.Global); ok {
						delete(L.constMaps, "G_"+sanitize(g.Pkg.Pkg.Name()+"_"+g.Name()))
					}
				}
			}
		}
	}
}
