package main

// Counterexample replay: model → in-package Go test → `go test -overlay`.

import (
	"math/big"
	"bytes"
	"context"
	"encoding/json"
	"fmt"
	"go/types"
	"os"
	"os/exec"
	"path/filepath"
	"sort"
	"strconv"
	"strings"
	"time"

	"golang.org/x/tools/go/ssa"
)

type ReplayResult struct {
	Reproduced bool   `json:"reproduced"`
	Summary    string `json:"summary"`
	TestSource string `json:"test_source,omitempty"`
	Output     string `json:"output,omitempty"`
	Inputs     map[string]string `json:"inputs,omitempty"`
	Pkg        string `json:"package,omitempty"`
	Mode       string `json:"mode,omitempty"`
}

type replayFile struct {
	Property   string            `json:"property"`
	Obligation string            `json:"obligation"`
	Class      string            `json:"class"`
	Function   string            `json:"function"`
	Where      string            `json:"where"`
	Info       string            `json:"info"`
	Answer     string            `json:"solver_answer"`
	Tried      []string          `json:"solvers_tried"`
	Model      map[string]string `json:"model_inputs,omitempty"`
	RawModel   string            `json:"raw_model,omitempty"`
	SolverOut  string            `json:"solver_output,omitempty"`
	Note       string            `json:"note,omitempty"`
	Replay     *ReplayResult     `json:"replay,omitempty"`
	Query      string            `json:"smt_query,omitempty"`
}

func writeReplayFile(id string, o *Oblig, rep *ReplayResult, note string) string {
	dir := filepath.Join(outDir(), "replays")
	os.MkdirAll(dir, 0o755)
	name := "unknown"
	rf := replayFile{Property: id, Note: note, Replay: rep}
	if o != nil {
		name = o.Name
		rf.Obligation, rf.Class, rf.Function, rf.Where, rf.Info = o.Name, o.Class, o.Fn, o.Pos, o.Info
		if o.Result != nil {
			rf.Answer, rf.Tried, rf.SolverOut = o.Result.Answer, o.Result.Tried, o.Result.Output
			if o.Result.Answer == "sat" {
				m := ParseModel(o.Result.Model)
				rf.Model = map[string]string{}
				for n, t := range o.Inputs {
					if v, ok := m[t.S]; ok {
						rf.Model[n] = v
					}
				}
				raw := o.Result.Model
				if len(raw) > 20000 {
					raw = raw[:20000] + "…"
				}
				rf.RawModel = raw
			}
		}
		q := o.Query
		if len(q) > 200000 {
			q = q[:200000] + "…"
		}
		rf.Query = q
	}
	path := filepath.Join(dir, id+"_"+sanitize(name)+".json")
	if len(path) > 200 {
		path = filepath.Join(dir, id+"_"+sanitize(name)[:120]+"_"+shortHash(name)+".json")
	}
	b, _ := json.MarshalIndent(rf, "", " ")
	os.WriteFile(path, b, 0o644)
	return path
}

// getValues asks the solver that answered sat for the values of terms.
func getValues(query string, solver string, terms []string, timeout time.Duration) map[string]string {
	out := map[string]string{}
	if len(terms) == 0 {
		return out
	}
	var sp *solverSpec
	for i := range solvers {
		if solvers[i].name == strings.TrimSuffix(solver, " (cached)") {
			sp = &solvers[i]
		}
	}
	if sp == nil {
		sp = &solvers[0]
	}
	dir, err := os.MkdirTemp("", "govc-gv")
	if err != nil {
		return out
	}
	defer os.RemoveAll(dir)
	file := filepath.Join(dir, "q.smt2")
	text := query + "\n(check-sat)\n(get-value (" + strings.Join(terms, " ") + "))\n"
	if sp.name == "cvc5" {
		text = "(set-option :produce-models true)\n(set-logic ALL)\n" + text
	} else {
		text = "(set-option :produce-models true)\n" + text
	}
	os.WriteFile(file, []byte(text), 0o644)
	args := sp.args(int(timeout/time.Millisecond), solverSeed, file)
	ctx, cancel := context.WithTimeout(context.Background(), timeout+2*time.Second)
	defer cancel()
	cmd := exec.CommandContext(ctx, args[0], args[1:]...)
	var buf bytes.Buffer
	cmd.Stdout = &buf
	cmd.Run()
	o := buf.String()
	if firstLine(o) != "sat" {
		return out
	}
	rest := o[strings.IndexByte(o, '\n')+1:]
	toks := tokenizeSexp(rest)
	pos := 0
	var parse func() interface{}
	parse = func() interface{} {
		if pos >= len(toks) {
			return nil
		}
		t := toks[pos]
		pos++
		if t == "(" {
			var l []interface{}
			for pos < len(toks) && toks[pos] != ")" {
				l = append(l, parse())
			}
			pos++
			return l
		}
		return t
	}
	top, _ := parse().([]interface{})
	for i, pr := range top {
		p, ok := pr.([]interface{})
		if !ok || len(p) != 2 || i >= len(terms) {
			continue
		}
		out[terms[i]] = sexpString(p[1])
	}
	return out
}

type replayBuilder struct {
	x       *Exec
	terms   []string
	vals    map[string]string
	imports map[string]string // path → name
	pkg     *types.Package
	notes   []string
	stubN   int
	atomAsked bool
	lenTerms  []string // length terms of the planned slices (to ask for small candidate inputs)
}

// wantAtomLiterals asks for the order values of the string literals of an
// atom-mode query (once).
func (r *replayBuilder) wantAtomLiterals() {
	if r.atomAsked {
		return
	}
	r.atomAsked = true
	r.want(Term{"(sord sempty)", "Int"})
	for _, name := range r.x.te.atomConsts {
		r.want(Term{"(sord " + name + ")", "Int"})
	}
}

// atomString turns the model's order value of an atom-mode string into a
// concrete string that compares with the query's literals (and with the
// other concretised strings) the way the order values do: a literal's value
// gives that literal; any other value gives <greatest smaller literal> +
// "\x01" + its value in fixed-width decimal.
func (r *replayBuilder) atomString(v string) string {
	n, ok := modelRat(v)
	if !ok {
		return ""
	}
	e, _ := modelRat(r.vals["(sord sempty)"])
	if e == nil {
		e = new(big.Rat)
	}
	if n.Cmp(e) <= 0 {
		return ""
	}
	// rank of the value among all order values of the model that were asked for
	var all []*big.Rat
	for k, val := range r.vals {
		if strings.HasPrefix(k, "(sord ") {
			if q, ok := modelRat(val); ok {
				all = append(all, q)
			}
		}
	}
	sort.Slice(all, func(i, j int) bool { return all[i].Cmp(all[j]) < 0 })
	rank := 0
	for i, q := range all {
		if i > 0 && q.Cmp(all[i-1]) == 0 {
			continue
		}
		if q.Cmp(n) < 0 {
			rank++
		}
	}
	type lit struct {
		s string
		n *big.Rat
	}
	var lits []lit
	for s, name := range r.x.te.atomConsts {
		if ln, ok := modelRat(r.vals["(sord "+name+")"]); ok {
			lits = append(lits, lit{s, ln})
		}
	}
	sort.Slice(lits, func(i, j int) bool { return lits[i].n.Cmp(lits[j].n) < 0 })
	below := ""
	above, hasAbove := "", false
	for _, l := range lits {
		switch c := l.n.Cmp(n); {
		case c == 0:
			return l.s
		case c < 0:
			below = l.s
		case !hasAbove:
			above, hasAbove = l.s, true
		}
	}
	out := below + "\x01" + fmt.Sprintf("%06d", rank)
	if hasAbove && !(out < above) {
		r.notes = append(r.notes, "an abstract string could not be concretised between two literals")
	}
	return out
}

// modelRat parses an SMT-LIB numeral, decimal or (/ a b), possibly negated.
func modelRat(v string) (*big.Rat, bool) {
	v = strings.TrimSpace(v)
	if v == "" {
		return nil, false
	}
	if strings.HasPrefix(v, "(- ") && strings.HasSuffix(v, ")") {
		q, ok := modelRat(v[3 : len(v)-1])
		if !ok {
			return nil, false
		}
		return q.Neg(q), true
	}
	if strings.HasPrefix(v, "(/ ") && strings.HasSuffix(v, ")") {
		fs := strings.Fields(v[3 : len(v)-1])
		if len(fs) != 2 {
			return nil, false
		}
		a, ok1 := modelRat(fs[0])
		b, ok2 := modelRat(fs[1])
		if !ok1 || !ok2 || b.Sign() == 0 {
			return nil, false
		}
		return a.Quo(a, b), true
	}
	q, ok := new(big.Rat).SetString(v)
	return q, ok
}

func (r *replayBuilder) want(t Term) string {
	r.terms = append(r.terms, t.S)
	return t.S
}

func (r *replayBuilder) qual(p *types.Package) string {
	if p == r.pkg {
		return ""
	}
	r.imports[p.Path()] = p.Name()
	return p.Name()
}

func (r *replayBuilder) typeStr(T types.Type) string {
	return types.TypeString(T, r.qual)
}

// plan returns a generator for a Go expression of type T whose value is the
// model's value of term t.
func (r *replayBuilder) plan(T types.Type, t Term, depth int) func() string {
	x := r.x
	if depth > 4 {
		return func() string { return r.zero(T) }
	}
	switch u := T.Underlying().(type) {
	case *types.Basic:
		k := r.want(t)
		switch {
		case u.Info()&types.IsString != 0:
			if t.Sort == "Str" {
				// atom-mode strings have no concrete value in the model, only
				// an order embedding (sord): concretise by rank among the
				// literals of the query (atomString)
				ks := r.want(Term{"(sord " + t.S + ")", "Int"})
				r.wantAtomLiterals()
				return func() string {
					lit := strconv.Quote(r.atomString(r.vals[ks]))
					if _, named := T.(*types.Named); named {
						return r.typeStr(T) + "(" + lit + ")"
					}
					return lit
				}
			}
			return func() string {
				s, _ := modelString(r.vals[k])
				lit := strconv.Quote(s)
				if _, named := T.(*types.Named); named {
					return r.typeStr(T) + "(" + lit + ")"
				}
				return lit
			}
		case u.Info()&types.IsBoolean != 0:
			return func() string {
				if r.vals[k] == "true" {
					return "true"
				}
				return "false"
			}
		case u.Info()&types.IsInteger != 0:
			return func() string {
				v := r.vals[k]
				n, ok := modelInt(v)
				if !ok {
					if strings.HasPrefix(v, "#x") {
						u, _ := strconv.ParseUint(v[2:], 16, 64)
						n = int64(u)
					} else if strings.HasPrefix(v, "#b") {
						u, _ := strconv.ParseUint(v[2:], 2, 64)
						n = int64(u)
					}
				}
				// unconstrained elements of sized integer types come back as
				// arbitrary mathematical integers: reduce into the type's range
				switch u.Kind() {
				case types.Uint8:
					n = int64(uint8(n))
				case types.Int8:
					n = int64(int8(n))
				case types.Uint16:
					n = int64(uint16(n))
				case types.Int16:
					n = int64(int16(n))
				case types.Uint32:
					n = int64(uint32(n))
				case types.Int32:
					n = int64(int32(n))
				}
				return fmt.Sprintf("%s(%d)", r.typeStr(T), n)
			}
		}
		return func() string { return r.zero(T) }
	case *types.Pointer:
		k := r.want(t)
		if st, ok := u.Elem().Underlying().(*types.Struct); ok {
			si := x.te.Struct(u.Elem())
			var gens []func() string
			for i := 0; i < st.NumFields(); i++ {
				key, sort := x.fieldComp(si, i)
				arr, ok := x.entryHeap[key]
				if !ok {
					gens = append(gens, nil)
					continue
				}
				_ = sort
				gens = append(gens, r.plan(si.FTypes[i], Select(arr, t), depth+1))
			}
			return func() string {
				if n, _ := modelInt(r.vals[k]); n == 0 {
					return "nil"
				}
				var fs []string
				for i, g := range gens {
					if g == nil || st.Field(i).Name() == "_" {
						continue
					}
					if !st.Field(i).Exported() && st.Field(i).Pkg() != r.pkg {
						continue
					}
					fs = append(fs, fmt.Sprintf("%s: %s", st.Field(i).Name(), g()))
				}
				return "&" + r.typeStr(u.Elem()) + "{" + strings.Join(fs, ", ") + "}"
			}
		}
		return func() string {
			if n, _ := modelInt(r.vals[k]); n == 0 {
				return "nil"
			}
			return "new(" + r.typeStr(u.Elem()) + ")"
		}
	case *types.Struct:
		si := x.te.Struct(T)
		var gens []func() string
		for i := range si.Acc {
			gens = append(gens, r.plan(si.FTypes[i], si.Get(t, i), depth+1))
		}
		return func() string {
			var fs []string
			for i, g := range gens {
				f := u.Field(i)
				if f.Name() == "_" || (!f.Exported() && f.Pkg() != r.pkg) {
					continue
				}
				fs = append(fs, fmt.Sprintf("%s: %s", f.Name(), g()))
			}
			return r.typeStr(T) + "{" + strings.Join(fs, ", ") + "}"
		}
	case *types.Signature:
		k := r.want(Term{fmt.Sprintf("(fid %s)", t.S), "Int"})
		return func() string {
			if n, _ := modelInt(r.vals[k]); n == 0 {
				return "nil"
			}
			return r.stubFunc(T, u)
		}
	case *types.Interface:
		k := r.want(Term{fmt.Sprintf("(itag %s)", t.S), "Int"})
		return func() string {
			if n, _ := modelInt(r.vals[k]); n == 0 {
				return "nil"
			}
			return r.stubIface(T)
		}
	case *types.Slice:
		x.te.SortOf(T)
		kl := r.want(sliceLen(t))
		r.lenTerms = append(r.lenTerms, sliceLen(t).S)
		kn := r.want(sliceNil(t))
		var gens []func() string
		for i := 0; i < 6; i++ {
			gens = append(gens, r.plan(u.Elem(), Select(sliceArr(t), IntLit(int64(i))), depth+1))
		}
		return func() string {
			n, _ := modelInt(r.vals[kl])
			if r.vals[kn] == "true" {
				return "nil"
			}
			if n > int64(len(gens)) {
				r.notes = append(r.notes, fmt.Sprintf("slice of length %d truncated to %d elements", n, len(gens)))
				n = int64(len(gens))
			}
			var es []string
			for i := int64(0); i < n; i++ {
				es = append(es, gens[i]())
			}
			return r.typeStr(T) + "{" + strings.Join(es, ", ") + "}"
		}
	}
	return func() string { return r.zero(T) }
}

func (r *replayBuilder) zero(T types.Type) string {
	switch u := T.Underlying().(type) {
	case *types.Basic:
		switch {
		case u.Info()&types.IsString != 0:
			return r.typeStr(T) + `("")`
		case u.Info()&types.IsBoolean != 0:
			return "false"
		case u.Info()&types.IsNumeric != 0:
			return r.typeStr(T) + "(0)"
		}
	case *types.Struct:
		return r.typeStr(T) + "{}"
	}
	return "nil"
}

func (r *replayBuilder) stubFunc(T types.Type, sig *types.Signature) string {
	var ps, rs []string
	for i := 0; i < sig.Params().Len(); i++ {
		pt := r.typeStr(sig.Params().At(i).Type())
		if sig.Variadic() && i == sig.Params().Len()-1 {
			pt = "..." + strings.TrimPrefix(pt, "[]")
		}
		ps = append(ps, fmt.Sprintf("a%d %s", i, pt))
	}
	var rets []string
	for i := 0; i < sig.Results().Len(); i++ {
		rt := sig.Results().At(i).Type()
		rs = append(rs, r.typeStr(rt))
		rets = append(rets, r.zero(rt))
	}
	r.stubN++
	body := fmt.Sprintf("fmt.Println(\"REPLAY-STUB-CALL %d\"); ", r.stubN)
	r.imports["fmt"] = "fmt"
	if len(rets) > 0 {
		body += "return " + strings.Join(rets, ", ")
	}
	res := ""
	if len(rs) == 1 {
		res = " " + rs[0]
	} else if len(rs) > 1 {
		res = " (" + strings.Join(rs, ", ") + ")"
	}
	return fmt.Sprintf("func(%s)%s { %s }", strings.Join(ps, ", "), res, body)
}

func (r *replayBuilder) stubIface(T types.Type) string {
	name := types.TypeString(T, func(p *types.Package) string { return p.Path() })
	switch name {
	case "context.Context":
		r.imports["context"] = "context"
		return "context.Background()"
	case "error":
		r.imports["errors"] = "errors"
		return `errors.New("replay error")`
	case "io.Reader":
		r.imports["strings"] = "strings"
		return `strings.NewReader("")`
	case "cuelabs.dev/go/oci/ociregistry.Interface":
		if r.pkg.Path() == "cuelabs.dev/go/oci/ociregistry" {
			return "&Funcs{}"
		}
		r.imports["cuelabs.dev/go/oci/ociregistry"] = "ociregistry"
		return "&ociregistry.Funcs{}"
	case "net/http.RoundTripper":
		r.imports["net/http"] = "http"
		return "http.DefaultTransport"
	}
	r.notes = append(r.notes, "no stub for interface "+name+": nil used")
	return "nil"
}

// witness pools: adversarial concrete inputs tried when the model is not
// replayable (or as an extra attempt).
var stringPool = []string{"", ".", "..", "../x", "a/../..", "/", "a//b", "0-0", "-", "a", "A", "x:y", "\x00", "*"}

// witness pool: hand-written concrete adversarial inputs attached to an
// obligation (an in-package test that prints REPLAY-PANIC / REPLAY-POST-FALSE
// when the failure manifests on the real code). Used when the solver's model
// is not executable (uninterpreted sorts, foreign interfaces, closures).
func tryWitness(L *Loaded, o *Oblig) *ReplayResult {
	if o == nil {
		return nil
	}
	name := sanitize(o.Name)
	all, _ := filepath.Glob(filepath.Join(verifDir, "witness", "*.go.txt"))
	var matches []string
	for _, m := range all {
		if strings.HasPrefix(name, strings.TrimSuffix(filepath.Base(m), ".go.txt")) {
			matches = append(matches, m)
		}
	}
	for _, m := range matches {
		b, err := os.ReadFile(m)
		if err != nil {
			continue
		}
		src := string(b)
		pkg := ""
		for _, ln := range strings.Split(src, "\n") {
			if strings.HasPrefix(ln, "// package-path: ") {
				pkg = strings.TrimSpace(strings.TrimPrefix(ln, "// package-path: "))
			}
		}
		if pkg == "" {
			continue
		}
		out, _ := runOverlayTest(L, pkg, src)
		res := &ReplayResult{TestSource: src, Output: out, Pkg: pkg, Mode: "witness-pool (" + filepath.Base(m) + ")"}
		if strings.Contains(out, "REPLAY-PANIC:") || strings.Contains(out, "REPLAY-POST-FALSE") || strings.Contains(out, "WARNING: DATA RACE") {
			res.Reproduced = true
			l := firstLineContaining(out, "REPLAY-PANIC:")
			if l == "" {
				l = firstLineContaining(out, "REPLAY-POST-FALSE")
			}
			if l == "" {
				l = "the Go race detector reports: " + firstLineContaining(out, "WARNING: DATA RACE") + " (" + firstLineContaining(out, "Write at") + firstLineContaining(out, "Read at") + ")"
			}
			res.Summary = "reproduced on the real code with a witness-pool input: " + l
			return res
		}
	}
	return nil
}

func tryReplay(L *Loaded, id string, g *Group, o *Oblig) *ReplayResult {
	r := tryModelReplay(L, id, g, o)
	if r != nil && r.Reproduced {
		return r
	}
	if w := tryWitness(L, o); w != nil {
		return w
	}
	return r
}

func tryModelReplay(L *Loaded, id string, g *Group, o *Oblig) *ReplayResult {
	return tryModelReplayOpt(L, id, g, o, false)
}

// tryRelaxedReplay: for an obligation the solvers could not decide, look for
// a candidate input in a model of the query without its quantified
// assertions, and run it on the real code with the precondition re-checked
// there. Only a reproduced failure is reported.
func tryRelaxedReplay(L *Loaded, id string, g *Group) (*Oblig, *ReplayResult) {
	if g.Class != "SAFE" && g.Class != "POST" {
		return nil, nil
	}
	var z *solverSpec
	for i := range solvers {
		if solvers[i].name == "z3-new" {
			z = &solvers[i]
		}
	}
	if z == nil {
		return nil, nil
	}
	tried := 0
	for _, o := range g.Instances {
		if o.Result == nil || o.Result.Answer == "unsat" || o.Result.Answer == "sat" || o.x == nil {
			continue
		}
		if tried >= 3 {
			break
		}
		tried++
		q := relaxQuery(o.Query)
		// prefer small inputs: the slices reachable from the parameters hold at most 4 elements
		if fn := o.x.fn; fn != nil && len(o.x.entryParams) >= len(fn.Params) {
			if sp := L.spkgs[FuncPkgPath(fn)]; sp != nil {
				pre := &replayBuilder{x: o.x, vals: map[string]string{}, imports: map[string]string{}, pkg: sp.Pkg}
				for i, p := range fn.Params {
					pre.plan(p.Type(), o.x.entryParams[i].T, 0)
				}
				for _, lt := range pre.lenTerms {
					q += "\n(assert (<= " + lt + " 4))"
				}
				// ground instances of the atom-string axioms for the inputs' strings
				var strs []string
				for _, t := range pre.terms {
					if strings.HasPrefix(t, "(sord ") && strings.HasSuffix(t, ")") {
						strs = append(strs, t[len("(sord "):len(t)-1])
					}
				}
				var sb strings.Builder
				for i, a := range strs {
					if a != "sempty" {
						fmt.Fprintf(&sb, "\n(assert (<= (sord sempty) (sord %s)))", a)
					}
					if len(strs) > 120 {
						continue
					}
					for _, b := range strs[i+1:] {
						fmt.Fprintf(&sb, "\n(assert (=> (= (sord %s) (sord %s)) (= %s %s)))", a, b, a, b)
					}
				}
				q += sb.String()
			}
		}
		res := runSolver(*z, q, 5*time.Second, true)
		if os.Getenv("GOVC_DEBUG_RELAX") != "" {
			os.WriteFile("/tmp/relaxed.smt2", []byte(q), 0o644)
			os.WriteFile("/tmp/unrelaxed.smt2", []byte(o.Query), 0o644)
			fmt.Fprintf(os.Stderr, "relaxed %s: %s\n", o.Name, res.Answer)
		}
		if res.Answer != "sat" {
			continue
		}
		res.Solver = "z3-new"
		shadow := *o
		shadow.Query = q
		shadow.Result = &res
		rep := tryModelReplayOpt(L, id, g, &shadow, true)
		if os.Getenv("GOVC_DEBUG_RELAX") != "" && rep != nil {
			fmt.Fprintf(os.Stderr, "relaxed replay %s: %s\n%s\n%s\n", o.Name, rep.Summary, rep.TestSource, rep.Output)
		}
		if rep != nil && rep.Reproduced {
			rep.Summary = "candidate input from the query without its quantified assertions; precondition re-checked on the real code; " + rep.Summary
			return &shadow, rep
		}
	}
	return nil, nil
}

func tryModelReplayOpt(L *Loaded, id string, g *Group, o *Oblig, strict bool) *ReplayResult {
	if o == nil || o.Result == nil || o.Result.Answer != "sat" {
		return nil
	}
	var fr *FuncResult
	_ = fr
	x := o.x
	if x == nil {
		return nil
	}
	fn := x.fn
	if fn.Parent() != nil {
		return &ReplayResult{Summary: "counterexample is for a closure body (" + x.fnKey + "); no direct replay entry point"}
	}
	if len(fn.TypeArgs()) > 0 {
		return &ReplayResult{Summary: "generic instance; replay not generated"}
	}
	sp := L.spkgs[FuncPkgPath(fn)]
	if sp == nil {
		return nil
	}
	rb := &replayBuilder{x: x, vals: map[string]string{}, imports: map[string]string{"testing": "testing", "fmt": "fmt"}, pkg: sp.Pkg}
	var gens []func() string
	for i, p := range fn.Params {
		gens = append(gens, rb.plan(p.Type(), x.entryParams[i].T, 0))
	}
	rb.vals = getValues(o.Query, o.Result.Solver, rb.terms, 20*time.Second)
	if len(rb.vals) == 0 && len(rb.terms) > 0 {
		return &ReplayResult{Summary: "could not obtain model values for the inputs"}
	}
	if os.Getenv("GOVC_DEBUG_RELAX") != "" {
		for k, v := range rb.vals {
			if strings.Contains(k, "sord") {
				fmt.Fprintf(os.Stderr, "  val %s = %s\n", k, v)
			}
		}
	}
	var decls []string
	var argNames []string
	inputs := map[string]string{}
	for i, p := range fn.Params {
		n := fmt.Sprintf("in%d", i)
		e := gens[i]()
		decls = append(decls, fmt.Sprintf("\tvar %s %s = %s", n, rb.typeStr(p.Type()), e))
		argNames = append(argNames, n)
		inputs[p.Name()] = e
	}
	call := ""
	if fn.Signature.Recv() != nil {
		call = fmt.Sprintf("%s.%s(%s)", argNames[0], fn.Name(), strings.Join(argNames[1:], ", "))
	} else {
		call = fmt.Sprintf("%s(%s)", fn.Name(), strings.Join(argNames, ", "))
	}
	if fn.Signature.Variadic() {
		call = strings.TrimSuffix(call, ")") + "...)"
	}
	mode := "panic"
	var body strings.Builder
	cls := o.Class
	if strict {
		cls = "strict"
	}
	switch cls {
	case "strict":
		src, ok := compileReplay(x, o, rb, decls, call, true)
		if !ok {
			return &ReplayResult{Summary: "precondition or clause not executable; no replay of a candidate input (" + strings.Join(rb.notes, "; ") + ")", Inputs: inputs}
		}
		body.WriteString(src)
		mode = "candidate input, precondition re-checked"
	case "SAFE":
		body.WriteString("\tdefer func() {\n\t\tif r := recover(); r != nil {\n\t\t\tfmt.Printf(\"REPLAY-PANIC: %v\\n\", r)\n\t\t\treturn\n\t\t}\n\t\tfmt.Println(\"REPLAY-NO-FAILURE\")\n\t}()\n")
		for _, d := range decls {
			body.WriteString(d + "\n")
		}
		if fn.Signature.Results().Len() > 0 {
			var us []string
			for i := 0; i < fn.Signature.Results().Len(); i++ {
				us = append(us, "_")
			}
			body.WriteString("\t" + strings.Join(us, ", ") + " = " + call + "\n")
		} else {
			body.WriteString("\t" + call + "\n")
		}
	default:
		src, ok := compilePostReplay(x, o, rb, decls, call)
		if !ok {
			return &ReplayResult{Summary: "obligation class " + o.Class + ": the clause is not executable as a Go check; model inputs recorded", Inputs: inputs}
		}
		body.WriteString(src)
		mode = "postcondition"
	}
	var imps []string
	for p, n := range rb.imports {
		if pkgShort(p) == n {
			imps = append(imps, fmt.Sprintf("\t%q", p))
		} else {
			imps = append(imps, fmt.Sprintf("\t%s %q", n, p))
		}
	}
	sort.Strings(imps)
	src := fmt.Sprintf("package %s\n\nimport (\n%s\n)\n\nfunc TestVerifReplay(t *testing.T) {\n%s}\n", sp.Pkg.Name(), strings.Join(imps, "\n"), body.String())
	out, err := runOverlayTest(L, FuncPkgPath(fn), src)
	res := &ReplayResult{TestSource: src, Output: out, Inputs: inputs, Pkg: FuncPkgPath(fn), Mode: mode}
	switch {
	case strings.Contains(out, "REPLAY-PANIC:") && (!strict || strings.Contains(out, "REPLAY-PRE-OK")):
		res.Reproduced = true
		res.Summary = "reproduced on the real code: " + firstLineContaining(out, "REPLAY-PANIC:")
	case strings.Contains(out, "REPLAY-POST-FALSE") && (!strict || strings.Contains(out, "REPLAY-PRE-OK")):
		res.Reproduced = true
		res.Summary = "reproduced on the real code: " + firstLineContaining(out, "REPLAY-POST-FALSE")
	case strings.Contains(out, "panic:") && o.Class == "SAFE":
		res.Reproduced = true
		res.Summary = "reproduced on the real code: " + firstLineContaining(out, "panic:")
	case err != nil && !strings.Contains(out, "REPLAY-"):
		res.Summary = "replay test did not build or run: " + firstLine(out)
	case strings.Contains(out, "REPLAY-PRE-FALSE"):
		res.Summary = "the inputs built from the model do not satisfy the function's precondition when evaluated on the real code (the model relies on an abstraction): nothing concluded by replay"
	case strings.Contains(out, "REPLAY-POST-TRUE"):
		res.Summary = "the clause holds for the real function on the model's inputs (the model relies on an abstraction of a callee or library): not reproduced by replay"
	case strings.Contains(out, "REPLAY-CHECK-PANIC"):
		res.Summary = "evaluating the clause on the real result panicked: " + firstLineContaining(out, "REPLAY-CHECK-PANIC")
	default:
		res.Summary = "model inputs did not reproduce the failure on the real code (" + strings.Join(rb.notes, "; ") + ")"
	}
	return res
}

func firstLineContaining(s, sub string) string {
	for _, l := range strings.Split(s, "\n") {
		if strings.Contains(l, sub) {
			return strings.TrimSpace(l)
		}
	}
	return ""
}

// runOverlayTest injects src as an in-package test through -overlay and runs it.
func runOverlayTest(L *Loaded, pkgPath, src string) (string, error) {
	extra := []string{}
	for _, ln := range strings.Split(src, "\n") {
		if strings.HasPrefix(ln, "// go-test-flags: ") {
			extra = append(extra, strings.Fields(strings.TrimPrefix(ln, "// go-test-flags: "))...)
		}
	}
	dir, err := os.MkdirTemp("", "govc-replay")
	if err != nil {
		return "", err
	}
	defer os.RemoveAll(dir)
	rel := strings.TrimPrefix(strings.TrimPrefix(pkgPath, modulePath), "/")
	pkgDir := filepath.Join(L.repoDir, rel)
	testFile := filepath.Join(dir, "zz_verif_replay_test.go")
	if err := os.WriteFile(testFile, []byte(src), 0o644); err != nil {
		return "", err
	}
	ov := map[string]map[string]string{"Replace": {filepath.Join(pkgDir, "zz_verif_replay_test.go"): testFile}}
	ob, _ := json.Marshal(ov)
	ovFile := filepath.Join(dir, "overlay.json")
	os.WriteFile(ovFile, ob, 0o644)
	ctx, cancel := context.WithTimeout(context.Background(), 120*time.Second)
	defer cancel()
	target := "./" + rel
	if rel == "" {
		target = "."
	}
	args := append([]string{"test", "-overlay", ovFile, "-vet=off", "-count=1", "-timeout", "60s", "-run", "^TestVerifReplay$", "-v"}, extra...)
	args = append(args, target)
	cmd := exec.CommandContext(ctx, "go", args...)
	cmd.Dir = L.repoDir
	var env []string
	for _, e := range os.Environ() {
		if strings.HasPrefix(e, "GOFLAGS=") {
			continue
		}
		env = append(env, e)
	}
	env = append(env, "GOPROXY=off", "GOSUMDB=off", "GOTOOLCHAIN=local", "GOFLAGS=-mod=readonly")
	cmd.Env = env
	var buf bytes.Buffer
	cmd.Stdout = &buf
	cmd.Stderr = &buf
	err = cmd.Run()
	out := buf.String()
	if len(out) > 8000 {
		out = out[:8000]
	}
	return out, err
}

func cmdReplay(args []string) int {
	if len(args) < 1 {
		fmt.Fprintln(os.Stderr, "usage: govc replay <replay.json>")
		return 2
	}
	b, err := os.ReadFile(args[0])
	if err != nil {
		fmt.Fprintln(os.Stderr, err)
		return 2
	}
	var rf replayFile
	if err := json.Unmarshal(b, &rf); err != nil {
		fmt.Fprintln(os.Stderr, err)
		return 2
	}
	fmt.Printf("obligation: %s\nclass: %s\nwhere: %s\ninfo: %s\nsolver: %s\n", rf.Obligation, rf.Class, rf.Where, rf.Info, rf.Answer)
	if rf.Replay == nil || rf.Replay.TestSource == "" {
		fmt.Println("no executable replay recorded (", rf.Note, ")")
		return 0
	}
	L := &Loaded{repoDir: filepath.Join(repoRoot(), "ociregistry")}
	out, _ := runOverlayTest(L, rf.Replay.Pkg, rf.Replay.TestSource)
	fmt.Println(out)
	if strings.Contains(out, "REPLAY-PANIC:") || strings.Contains(out, "REPLAY-POST-FALSE") {
		fmt.Println("replay: failure reproduced")
		return 1
	}
	fmt.Println("replay: failure not reproduced on the current tree")
	return 0
}

// compilePostReplay is provided by postreplay.go
var _ = ssa.NaiveForm
