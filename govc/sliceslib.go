package main

// Library contracts for package slices (trusted, listed in the evidence).

import (
	"fmt"
	"go/types"

	"golang.org/x/tools/go/ssa"
)

// applyFn2 returns the term of fn(a, b) for a function value that is known
// statically (a repo function, a method expression or a local closure), by
// symbolic execution of its body; facts assumed during that execution are
// returned separately (they may mention a and b).
func (x *Exec) applyFn2(st *State, fn Val, a, b Val) (Term, []Term, bool) {
	scratch := st.clone()
	base := len(scratch.pc)
	var v Val
	var ok bool
	switch {
	case fn.Clo != nil:
		v, ok = x.execAsSpec(scratch, fn.Clo.Fn, []Val{a, b}, fn.Clo)
	case fn.SFn != nil && fn.SFn.String() == "strings.Compare" && a.T.Sort == "String":
		lt := x.stringBinop(scratch, tokenOf("<"), a.T, b.T)
		v = Val{T: Ite(lt, IntLit(-1), Ite(Eq(a.T, b.T), IntLit(0), IntLit(1))), Typ: types.Typ[types.Int]}
		ok = true
	case fn.SFn != nil:
		if x.L.isRepoFunc(fn.SFn) && len(fn.SFn.Blocks) > 0 {
			// the comparison function means what its body computes (its own
			// contract, if any, is verified separately against that body)
			v, ok = x.execAsSpec(scratch, fn.SFn, []Val{a, b}, nil)
		}
		if !ok {
			v = x.pureApp(scratch, fn.SFn, []Val{a, b})
			ok = true
		}
	}
	if !ok && fn.Clo == nil && fn.SFn == nil {
		// a symbolic comparison function: an uninterpreted pure function
		v, ok = x.applyUF(scratch, fn, []Val{a, b})
		if ok {
			x.funcsUsed["assume:a func value handed to package slices is a pure function of its arguments"] = true
		}
	}
	if !ok {
		return Term{}, nil, false
	}
	// the function's proved postconditions, instantiated at (a, b)
	if fn.SFn != nil {
		if ctr := x.contractFor(fn.SFn); ctr != nil && len(fn.SFn.Params) == 2 {
			env := &Env{x: x, st: scratch, vars: map[string]Val{}, pkg: x.pkgOf(fn.SFn), results: []Val{v}, hasRes: true}
			env.vars[fn.SFn.Params[0].Name()] = a
			env.vars[fn.SFn.Params[1].Name()] = b
			for _, c := range ctr.Ensures {
				scratch.assume(x.evalBool(env, c.Expr))
			}
		}
	}
	return v.T, scratch.pc[base:], true
}

// applyFn1: like applyFn2 for a one-argument function value.
func (x *Exec) applyFn1(st *State, fn Val, a Val) (Term, []Term, bool) {
	scratch := st.clone()
	base := len(scratch.pc)
	var v Val
	var ok bool
	switch {
	case fn.Clo != nil:
		v, ok = x.execAsSpec(scratch, fn.Clo.Fn, []Val{a}, fn.Clo)
	case fn.SFn != nil:
		if x.L.isRepoFunc(fn.SFn) && len(fn.SFn.Blocks) > 0 {
			v, ok = x.execAsSpec(scratch, fn.SFn, []Val{a}, nil)
		}
		if !ok {
			v = x.pureApp(scratch, fn.SFn, []Val{a})
			ok = true
		}
	default:
		v, ok = x.applyUF(scratch, fn, []Val{a})
	}
	if !ok {
		return Term{}, nil, false
	}
	return v.T, scratch.pc[base:], true
}

func forall2(i, j string, guard Term, facts []Term, body Term) Term {
	ante := And(append([]Term{guard}, facts...)...)
	return Term{fmt.Sprintf("(forall ((%s Int) (%s Int)) (=> %s %s))", i, j, ante.S, body.S), "Bool"}
}

func forall1(i string, guard Term, body Term) Term {
	return Term{fmt.Sprintf("(forall ((%s Int)) (=> %s %s))", i, guard.S, body.S), "Bool"}
}

// forall1p: like forall1 with an explicit instantiation pattern.
func forall1p(i string, guard Term, body Term, pats ...Term) Term {
	var ps string
	for _, p := range pats {
		ps += fmt.Sprintf(" :pattern (%s)", p.S)
	}
	return Term{fmt.Sprintf("(forall ((%s Int)) (! (=> %s %s)%s))", i, guard.S, body.S, ps), "Bool"}
}

// Membership view of a slice (array arr, length n): mem(arr, n, v) says v
// occurs among the first n elements. Set-level library facts (concatenation,
// permutation, compaction) are stated over mem, which the solvers handle
// propositionally; memFacts ties mem to positions at both ends.
func (x *Exec) memTerm(arr, n, v Term) Term {
	fn := "mem_" + sanitize(arr.Sort)
	x.d.DeclareFun(fn, fmt.Sprintf("(declare-fun %s (%s Int %s) Bool)", fn, arr.Sort, arrayElemSort(arr.Sort)))
	return mk("Bool", fn, arr, n, v)
}

func (x *Exec) memFacts(st *State, arr, n Term) {
	es := arrayElemSort(arr.Sort)
	fn := "midx_" + sanitize(arr.Sort)
	x.d.DeclareFun(fn, fmt.Sprintf("(declare-fun %s (%s Int %s) Int)", fn, arr.Sort, es))
	v := Term{"v_m", es}
	i := Term{"i_m", "Int"}
	idx := mk("Int", fn, arr, n, v)
	st.assume(Term{fmt.Sprintf("(forall ((i_m Int)) (! (=> %s %s) :pattern (%s)))", inRange("i_m", n).S, x.memTerm(arr, n, Select(arr, i)).S, Select(arr, i).S), "Bool"})
	st.assume(Term{fmt.Sprintf("(forall ((v_m %s)) (! (=> %s %s) :pattern (%s)))", es, x.memTerm(arr, n, v).S,
		And(Le(IntLit(0), idx), Lt(idx, n), Eq(Select(arr, idx), v)).S, x.memTerm(arr, n, v).S), "Bool"})
}

func exists1(i string, body Term) Term {
	return Term{fmt.Sprintf("(exists ((%s Int)) %s)", i, body.S), "Bool"}
}

func inRange(i string, n Term) Term {
	return And(Le(IntLit(0), Term{i, "Int"}), Lt(Term{i, "Int"}, n))
}

// natural order of an ordered element type
func (x *Exec) natLE(st *State, T types.Type, a, b Term) (Term, bool) {
	switch {
	case isStringType(T):
		return x.stringBinop(st, tokenOf("<="), a, b), true
	case isIntType(T) && a.Sort == "Int":
		return Le(a, b), true
	}
	return Term{}, false
}

func init() {
	intT := types.Typ[types.Int]
	boolT := types.Typ[types.Bool]
	used := func(x *Exec, n string) { x.funcsUsed["lib:"+n] = true }

	sortImpl := func(x *Exec, st *State, cc *ssa.CallCommon, s Val, le func(a, b Term) (Term, []Term, bool), name string) (Val, bool) {
		T := cc.Args[0].Type()
		sl, ok := T.Underlying().(*types.Slice)
		if !ok {
			return Val{}, false
		}
		sort := x.te.SortOf(T)
		_ = sl
		n := sliceLen(s.T)
		old := sliceArr(s.T)
		na := x.d.Fresh("sorted", sliceArrSort[sort])
		ai := Select(na, Term{"i_s", "Int"})
		aj := Select(na, Term{"j_s", "Int"})
		leT, facts, ok := le(ai, aj)
		if !ok {
			return Val{}, false
		}
		st.assume(forall2("i_s", "j_s", And(Le(IntLit(0), Term{"i_s", "Int"}), Lt(Term{"i_s", "Int"}, Term{"j_s", "Int"}), Lt(Term{"j_s", "Int"}, n)), facts, leT))
		// ... as a permutation: na[i] = old[p(i)] with p injective on [0,n)
		pf := x.d.Fresh("perm", "Int").S + "_f"
		x.d.DeclareFun(pf, fmt.Sprintf("(declare-fun %s (Int) Int)", pf))
		p := func(i string) Term { return Term{fmt.Sprintf("(%s %s)", pf, i), "Int"} }
		st.assume(forall1p("i_p", inRange("i_p", n), And(inRange(p("i_p").S, n), Eq(Select(na, Term{"i_p", "Int"}), Select(old, p("i_p")))), Select(na, Term{"i_p", "Int"})))
		st.assume(forall2("i_p", "j_p", And(Le(IntLit(0), Term{"i_p", "Int"}), Lt(Term{"i_p", "Int"}, Term{"j_p", "Int"}), Lt(Term{"j_p", "Int"}, n)), nil, Not(Eq(p("i_p"), p("j_p")))))
		// ... hence the same elements
		x.memFacts(st, na, n)
		x.memFacts(st, old, n)
		es := arrayElemSort(na.Sort)
		vm := Term{"v_m", es}
		st.assume(Term{fmt.Sprintf("(forall ((v_m %s)) (! (= %s %s) :pattern (%s) :pattern (%s)))", es, x.memTerm(na, n, vm).S, x.memTerm(old, n, vm).S, x.memTerm(na, n, vm).S, x.memTerm(old, n, vm).S), "Bool"})
		ns := mk(sort, "mk_"+sort, na, n, sliceCap(s.T), sliceNil(s.T))
		if x.sortedBy == nil {
			x.sortedBy = map[string]func(a, b Term) (Term, []Term, bool){}
		}
		x.sortedBy[ns.S] = le
		if s.Src != nil {
			x.store(st, s.Src, Val{T: ns, Typ: T})
		} else {
			x.note("outside-subset: %s on a slice not held in a local or field (effect lost)", name)
		}
		used(x, name+" (result sorted by the comparison, a permutation of the input, same length)")
		return Val{}, true
	}
	libTable["slices.SortFunc"] = func(x *Exec, fr *Frame, st *State, cc *ssa.CallCommon, a []Val) (Val, bool) {
		elemT := cc.Args[0].Type().Underlying().(*types.Slice).Elem()
		return sortImpl(x, st, cc, a[0], func(p, q Term) (Term, []Term, bool) {
			t, facts, ok := x.applyFn2(st, a[1], Val{T: p, Typ: elemT}, Val{T: q, Typ: elemT})
			if !ok {
				return Term{}, nil, false
			}
			return Le(t, IntLit(0)), facts, true
		}, "slices.SortFunc")
	}
	libTable["slices.Sort"] = func(x *Exec, fr *Frame, st *State, cc *ssa.CallCommon, a []Val) (Val, bool) {
		elemT := cc.Args[0].Type().Underlying().(*types.Slice).Elem()
		return sortImpl(x, st, cc, a[0], func(p, q Term) (Term, []Term, bool) {
			t, ok := x.natLE(st, elemT, p, q)
			return t, nil, ok
		}, "slices.Sort")
	}
	libTable["slices.Compact"] = func(x *Exec, fr *Frame, st *State, cc *ssa.CallCommon, a []Val) (Val, bool) {
		T := cc.Args[0].Type()
		sort := x.te.SortOf(T)
		s := a[0]
		n := sliceLen(s.T)
		old := sliceArr(s.T)
		r := x.freshVal(st, "compacted", T)
		rn := sliceLen(r.T)
		ra := sliceArr(r.T)
		fn := x.d.Fresh("cidx", "Int").S + "_f"
		x.d.DeclareFun(fn, fmt.Sprintf("(declare-fun %s (Int) Int)", fn))
		f := func(i string) Term { return Term{fmt.Sprintf("(%s %s)", fn, i), "Int"} }
		st.assume(And(Le(IntLit(0), rn), Le(rn, n), Eq(sliceNil(r.T), sliceNil(s.T)), Eq(Eq(rn, IntLit(0)), Eq(n, IntLit(0)))))
		// r is the subsequence of s selected by the strictly increasing index map f, keeping the first of each run
		st.assume(forall1("i_c", inRange("i_c", rn), And(inRange(f("i_c").S, n), Eq(Select(ra, Term{"i_c", "Int"}), Select(old, f("i_c"))))))
		st.assume(forall2("i_c", "j_c", And(Le(IntLit(0), Term{"i_c", "Int"}), Lt(Term{"i_c", "Int"}, Term{"j_c", "Int"}), Lt(Term{"j_c", "Int"}, rn)), nil, Lt(f("i_c"), f("j_c"))))
		// no two adjacent elements are equal
		st.assume(forall1("i_c", And(Le(IntLit(0), Term{"i_c", "Int"}), Lt(Add(Term{"i_c", "Int"}, IntLit(1)), rn)), Not(Eq(Select(ra, Term{"i_c", "Int"}), Select(ra, Add(Term{"i_c", "Int"}, IntLit(1)))))))
		// nothing is lost: every element of s occurs in r
		st.assume(forall1("j_c", inRange("j_c", n), exists1("i_c", And(inRange("i_c", rn), Eq(Select(ra, Term{"i_c", "Int"}), Select(old, Term{"j_c", "Int"}))))))
		_ = sort
		used(x, "slices.Compact (subsequence by an increasing index map, no adjacent duplicates, no element lost)")
		if le, ok := x.sortedBy[s.T.S]; ok {
			// the input was sorted by a total-order comparison on this path:
			// the result is strictly sorted (le(a,b) and a != b for i < j)
			ri, rj := Select(ra, Term{"i_c", "Int"}), Select(ra, Term{"j_c", "Int"})
			leT, facts, ok := le(ri, rj)
			if ok {
				st.assume(forall2("i_c", "j_c", And(Le(IntLit(0), Term{"i_c", "Int"}), Lt(Term{"i_c", "Int"}, Term{"j_c", "Int"}), Lt(Term{"j_c", "Int"}, rn)), facts, And(leT, Not(Eq(ri, rj)))))
				used(x, "slices.Compact after slices.Sort[Func] with a total-order comparison: the result is strictly sorted")
			}
		}
		return r, true
	}
	libTable["slices.CompactFunc"] = func(x *Exec, fr *Frame, st *State, cc *ssa.CallCommon, a []Val) (Val, bool) {
		T := cc.Args[0].Type()
		x.te.SortOf(T)
		elemT := T.Underlying().(*types.Slice).Elem()
		s := a[0]
		n := sliceLen(s.T)
		old := sliceArr(s.T)
		eq := func(p, q Term) (Term, []Term, bool) {
			t, facts, ok := x.applyFn2(st, a[1], Val{T: p, Typ: elemT}, Val{T: q, Typ: elemT})
			return t, facts, ok
		}
		if _, _, ok := eq(Select(old, IntLit(0)), Select(old, IntLit(0))); !ok {
			return Val{}, false
		}
		r := x.freshVal(st, "compacted", T)
		rn := sliceLen(r.T)
		ra := sliceArr(r.T)
		fn := x.d.Fresh("cidx", "Int").S + "_f"
		x.d.DeclareFun(fn, fmt.Sprintf("(declare-fun %s (Int) Int)", fn))
		f := func(i string) Term { return Term{fmt.Sprintf("(%s %s)", fn, i), "Int"} }
		st.assume(And(Le(IntLit(0), rn), Le(rn, n), Eq(sliceNil(r.T), sliceNil(s.T)), Eq(Eq(rn, IntLit(0)), Eq(n, IntLit(0)))))
		st.assume(forall1p("i_c", inRange("i_c", rn), And(inRange(f("i_c").S, n), Eq(Select(ra, Term{"i_c", "Int"}), Select(old, f("i_c")))), Select(ra, Term{"i_c", "Int"})))
		st.assume(forall2("i_c", "j_c", And(Le(IntLit(0), Term{"i_c", "Int"}), Lt(Term{"i_c", "Int"}, Term{"j_c", "Int"}), Lt(Term{"j_c", "Int"}, rn)), nil, Lt(f("i_c"), f("j_c"))))
		// no two adjacent elements are equal under eq
		adj, f1, _ := eq(Select(ra, Term{"i_c", "Int"}), Select(ra, Add(Term{"i_c", "Int"}, IntLit(1))))
		st.assume(forall1("i_c", And(append([]Term{Le(IntLit(0), Term{"i_c", "Int"}), Lt(Add(Term{"i_c", "Int"}, IntLit(1)), rn)}, f1...)...), Not(adj)))
		// nothing is lost: every element of s has an eq-equal representative in r
		x.memFacts(st, ra, rn)
		x.memFacts(st, old, n)
		es := arrayElemSort(ra.Sort)
		vm := Term{"v_m", es}
		repf := x.d.Fresh("crep", "Int").S + "_f"
		x.d.DeclareFun(repf, fmt.Sprintf("(declare-fun %s (%s) %s)", repf, es, es))
		repv := mk(es, repf, vm)
		// what is kept was there; what was there keeps an eq-equal representative (itself, if kept)
		st.assume(Term{fmt.Sprintf("(forall ((v_m %s)) (! (=> %s %s) :pattern (%s)))", es, x.memTerm(ra, rn, vm).S, And(x.memTerm(old, n, vm), Eq(repv, vm)).S, x.memTerm(ra, rn, vm).S), "Bool"})
		rep, f2, _ := eq(repv, vm)
		st.assume(Term{fmt.Sprintf("(forall ((v_m %s)) (! (=> %s %s) :pattern (%s)))", es, x.memTerm(old, n, vm).S,
			And(append([]Term{x.memTerm(ra, rn, repv)}, append(f2, rep)...)...).S, x.memTerm(old, n, vm).S), "Bool"})
		used(x, "slices.CompactFunc (subsequence by an increasing index map, no adjacent eq-equal elements, every element keeps an eq-equal representative)")
		if le, ok := x.sortedBy[s.T.S]; ok {
			ri, rj := Select(ra, Term{"i_c", "Int"}), Select(ra, Term{"j_c", "Int"})
			leT, facts, ok1 := le(ri, rj)
			eqT, facts2, ok2 := eq(ri, rj)
			if ok1 && ok2 {
				st.assume(forall2("i_c", "j_c", And(Le(IntLit(0), Term{"i_c", "Int"}), Lt(Term{"i_c", "Int"}, Term{"j_c", "Int"}), Lt(Term{"j_c", "Int"}, rn)), append(facts, facts2...), And(leT, Not(eqT))))
				used(x, "slices.CompactFunc after slices.SortFunc with the same total-preorder comparison: the result is strictly sorted")
			}
		}
		return r, true
	}
	libTable["slices.DeleteFunc"] = func(x *Exec, fr *Frame, st *State, cc *ssa.CallCommon, a []Val) (Val, bool) {
		T := cc.Args[0].Type()
		x.te.SortOf(T)
		elemT := T.Underlying().(*types.Slice).Elem()
		s := a[0]
		n := sliceLen(s.T)
		old := sliceArr(s.T)
		del := func(e Term) (Term, []Term, bool) { return x.applyFn1(st, a[1], Val{T: e, Typ: elemT}) }
		if _, _, ok := del(Select(old, IntLit(0))); !ok {
			return Val{}, false
		}
		r := x.freshVal(st, "kept", T)
		rn := sliceLen(r.T)
		ra := sliceArr(r.T)
		fn := x.d.Fresh("kidx", "Int").S + "_f"
		x.d.DeclareFun(fn, fmt.Sprintf("(declare-fun %s (Int) Int)", fn))
		f := func(i string) Term { return Term{fmt.Sprintf("(%s %s)", fn, i), "Int"} }
		st.assume(And(Le(IntLit(0), rn), Le(rn, n)))
		// what is kept: an order-preserving selection of elements the function did not reject
		di, f1, _ := del(Select(ra, Term{"i_c", "Int"}))
		st.assume(forall1p("i_c", inRange("i_c", rn), And(append([]Term{inRange(f("i_c").S, n), Eq(Select(ra, Term{"i_c", "Int"}), Select(old, f("i_c")))}, append(f1, Not(di))...)...), Select(ra, Term{"i_c", "Int"})))
		st.assume(forall2("i_c", "j_c", And(Le(IntLit(0), Term{"i_c", "Int"}), Lt(Term{"i_c", "Int"}, Term{"j_c", "Int"}), Lt(Term{"j_c", "Int"}, rn)), nil, Lt(f("i_c"), f("j_c"))))
		// nothing that the function accepts is dropped
		x.memFacts(st, ra, rn)
		x.memFacts(st, old, n)
		es := arrayElemSort(ra.Sort)
		vm := Term{"v_m", es}
		dv, f2, _ := del(vm)
		st.assume(Term{fmt.Sprintf("(forall ((v_m %s)) (! (=> %s %s) :pattern (%s)))", es, x.memTerm(old, n, vm).S,
			And(append(f2, Implies(Not(dv), x.memTerm(ra, rn, vm)))...).S, x.memTerm(old, n, vm).S), "Bool"})
		st.assume(Term{fmt.Sprintf("(forall ((v_m %s)) (! (=> %s %s) :pattern (%s)))", es, x.memTerm(ra, rn, vm).S, x.memTerm(old, n, vm).S, x.memTerm(ra, rn, vm).S), "Bool"})
		used(x, "slices.DeleteFunc (keeps, in order, exactly the elements the function does not reject)")
		return r, true
	}
	libTable["slices.Concat"] = func(x *Exec, fr *Frame, st *State, cc *ssa.CallCommon, a []Val) (Val, bool) {
		// Concat(s1, s2) for exactly two operands
		va := a[0]
		k, ok := x.constLen(st, sliceLen(va.T))
		if !ok || k != 2 {
			return Val{}, false
		}
		T := cc.Signature().Results().At(0).Type()
		x.te.SortOf(T)
		s1, s2 := Select(sliceArr(va.T), IntLit(0)), Select(sliceArr(va.T), IntLit(1))
		if len(va.Elems) == 2 {
			// the operands themselves (not read back through the argument array)
			s1, s2 = x.termOf(st, &va.Elems[0]), x.termOf(st, &va.Elems[1])
		}
		n1, n2 := sliceLen(s1), sliceLen(s2)
		r := x.freshVal(st, "concat", T)
		st.assume(Eq(sliceLen(r.T), Add(n1, n2)))
		st.assume(forall1p("i_k", inRange("i_k", n1), Eq(Select(sliceArr(r.T), Term{"i_k", "Int"}), Select(sliceArr(s1), Term{"i_k", "Int"})), Select(sliceArr(r.T), Term{"i_k", "Int"}), Select(sliceArr(s1), Term{"i_k", "Int"})))
		x.memFacts(st, sliceArr(r.T), Add(n1, n2))
		x.memFacts(st, sliceArr(s1), n1)
		x.memFacts(st, sliceArr(s2), n2)
		{
			es := arrayElemSort(sliceArr(r.T).Sort)
			vm := Term{"v_m", es}
			mr, m1, m2 := x.memTerm(sliceArr(r.T), Add(n1, n2), vm), x.memTerm(sliceArr(s1), n1, vm), x.memTerm(sliceArr(s2), n2, vm)
			st.assume(Term{fmt.Sprintf("(forall ((v_m %s)) (! (= %s (or %s %s)) :pattern (%s) :pattern (%s) :pattern (%s)))", es, mr.S, m1.S, m2.S, mr.S, m1.S, m2.S), "Bool"})
		}
		st.assume(forall1p("i_k", And(Le(n1, Term{"i_k", "Int"}), Lt(Term{"i_k", "Int"}, Add(n1, n2))), Eq(Select(sliceArr(r.T), Term{"i_k", "Int"}), Select(sliceArr(s2), Sub(Term{"i_k", "Int"}, n1))), Select(sliceArr(r.T), Term{"i_k", "Int"})))
		used(x, "slices.Concat (the operands one after the other)")
		return r, true
	}
	libTable["slices.Equal"] = func(x *Exec, fr *Frame, st *State, cc *ssa.CallCommon, a []Val) (Val, bool) {
		x.te.SortOf(cc.Args[0].Type())
		n1, n2 := sliceLen(a[0].T), sliceLen(a[1].T)
		body := forall1("i_e", inRange("i_e", n1), Eq(Select(sliceArr(a[0].T), Term{"i_e", "Int"}), Select(sliceArr(a[1].T), Term{"i_e", "Int"})))
		used(x, "slices.Equal (same length and elementwise equal)")
		return Val{T: And(Eq(n1, n2), body), Typ: boolT}, true
	}
	bsearch := func(x *Exec, st *State, cc *ssa.CallCommon, s Val, eq func(e Term) (Term, []Term, bool), lt func(e Term) (Term, []Term, bool), name string) (Val, bool) {
		x.te.SortOf(cc.Args[0].Type())
		n := sliceLen(s.T)
		arr := sliceArr(s.T)
		i := x.freshVal(st, "bs_i", intT)
		found := x.freshVal(st, "bs_found", boolT)
		st.assume(And(Le(IntLit(0), i.T), Le(i.T, n)))
		ek, f1, ok := eq(Select(arr, Term{"k_b", "Int"}))
		if !ok {
			return Val{}, false
		}
		st.assume(Eq(found.T, exists1("k_b", And(append([]Term{inRange("k_b", n)}, append(f1, ek)...)...))))
		ei, f2, _ := eq(Select(arr, i.T))
		for _, f := range f2 {
			st.assume(f)
		}
		st.assume(Implies(found.T, And(Lt(i.T, n), ei)))
		// position: everything before i is smaller, everything from i on is not
		if lt != nil {
			lk, f3, ok := lt(Select(arr, Term{"k_b", "Int"}))
			if ok {
				st.assume(forall1("k_b", And(append([]Term{inRange("k_b", n)}, f3...)...), Eq(lk, Lt(Term{"k_b", "Int"}, i.T))))
			}
		}
		used(x, name+" (on a sorted slice: found iff present, found implies s[i] equals the target, 0<=i<=len, s[k] < target iff k < i)")
		return Val{Tup: []Val{i, found}}, true
	}
	libTable["slices.BinarySearch"] = func(x *Exec, fr *Frame, st *State, cc *ssa.CallCommon, a []Val) (Val, bool) {
		elemT := cc.Args[0].Type().Underlying().(*types.Slice).Elem()
		return bsearch(x, st, cc, a[0], func(e Term) (Term, []Term, bool) { return Eq(e, a[1].T), nil, true },
			func(e Term) (Term, []Term, bool) {
				le, ok := x.natLE(st, elemT, a[1].T, e)
				return Not(le), nil, ok
			}, "slices.BinarySearch")
	}
	libTable["slices.BinarySearchFunc"] = func(x *Exec, fr *Frame, st *State, cc *ssa.CallCommon, a []Val) (Val, bool) {
		elemT := cc.Args[0].Type().Underlying().(*types.Slice).Elem()
		tT := cc.Args[1].Type()
		return bsearch(x, st, cc, a[0], func(e Term) (Term, []Term, bool) {
			t, facts, ok := x.applyFn2(st, a[2], Val{T: e, Typ: elemT}, Val{T: a[1].T, Typ: tT})
			return Eq(t, IntLit(0)), facts, ok
		}, func(e Term) (Term, []Term, bool) {
			t, facts, ok := x.applyFn2(st, a[2], Val{T: e, Typ: elemT}, Val{T: a[1].T, Typ: tT})
			return Lt(t, IntLit(0)), facts, ok
		}, "slices.BinarySearchFunc")
	}
}
