package main

// SMT terms, sorts, declarations and the solver driver.

import (
	"bytes"
	"context"
	"crypto/sha256"
	"encoding/hex"
	"fmt"
	"os"
	"os/exec"
	"path/filepath"
	"regexp"
	"sort"
	"strconv"
	"strings"
	"sync"
	"time"
)

// Term is an SMT-LIB term in text form together with its sort.
type Term struct {
	S    string
	Sort string
}

func (t Term) String() string { return t.S }
func (t Term) IsZero() bool   { return t.S == "" }

var (
	True  = Term{"true", "Bool"}
	False = Term{"false", "Bool"}
)

func mk(sort, op string, args ...Term) Term {
	var b strings.Builder
	b.WriteByte('(')
	b.WriteString(op)
	for _, a := range args {
		b.WriteByte(' ')
		b.WriteString(a.S)
	}
	b.WriteByte(')')
	return Term{b.String(), sort}
}

func IntLit(n int64) Term {
	if n < 0 {
		// avoid overflow on MinInt64
		if n == -9223372036854775808 {
			return Term{"(- 9223372036854775808)", "Int"}
		}
		return Term{fmt.Sprintf("(- %d)", -n), "Int"}
	}
	return Term{strconv.FormatInt(n, 10), "Int"}
}

func UintLit(n uint64) Term { return Term{strconv.FormatUint(n, 10), "Int"} }

func BoolLit(b bool) Term {
	if b {
		return True
	}
	return False
}

func BVLit(n uint64, w int) Term {
	return Term{fmt.Sprintf("(_ bv%d %d)", n&((1<<uint(w))-1), w), fmt.Sprintf("(_ BitVec %d)", w)}
}

func And(ts ...Term) Term {
	var xs []Term
	for _, t := range ts {
		if t.S == "true" {
			continue
		}
		if t.S == "false" {
			return False
		}
		xs = append(xs, t)
	}
	switch len(xs) {
	case 0:
		return True
	case 1:
		return xs[0]
	}
	return mk("Bool", "and", xs...)
}

func Or(ts ...Term) Term {
	var xs []Term
	for _, t := range ts {
		if t.S == "false" {
			continue
		}
		if t.S == "true" {
			return True
		}
		xs = append(xs, t)
	}
	switch len(xs) {
	case 0:
		return False
	case 1:
		return xs[0]
	}
	return mk("Bool", "or", xs...)
}

func Not(t Term) Term {
	switch t.S {
	case "true":
		return False
	case "false":
		return True
	}
	if strings.HasPrefix(t.S, "(not ") {
		return Term{t.S[5 : len(t.S)-1], "Bool"}
	}
	return mk("Bool", "not", t)
}

func Implies(a, b Term) Term {
	if a.S == "true" {
		return b
	}
	if a.S == "false" || b.S == "true" {
		return True
	}
	return mk("Bool", "=>", a, b)
}

func Eq(a, b Term) Term {
	if a.S == b.S {
		return True
	}
	if x, y, ok := lit2(a, b); ok {
		return BoolLit(x == y)
	}
	if a.Sort != b.Sort && a.Sort != "" && b.Sort != "" {
		// sort confusion is a generator bug; make it visible but keep going
		warnf("sort mismatch in Eq: %s:%s vs %s:%s", a.S, a.Sort, b.S, b.Sort)
	}
	return mk("Bool", "=", a, b)
}

func Ite(c, a, b Term) Term {
	if c.S == "true" {
		return a
	}
	if c.S == "false" {
		return b
	}
	if a.S == b.S {
		return a
	}
	return mk(a.Sort, "ite", c, a, b)
}

func lit2(a, b Term) (int64, int64, bool) {
	if a.Sort != "Int" || b.Sort != "Int" {
		return 0, 0, false
	}
	x, ok1 := modelInt(a.S)
	y, ok2 := modelInt(b.S)
	return x, y, ok1 && ok2
}

func Add(a, b Term) Term {
	if x, y, ok := lit2(a, b); ok && x > -1<<40 && x < 1<<40 && y > -1<<40 && y < 1<<40 {
		return IntLit(x + y)
	}
	if b.S == "0" {
		return a
	}
	if a.S == "0" {
		return b
	}
	return mk("Int", "+", a, b)
}
func Sub(a, b Term) Term {
	if x, y, ok := lit2(a, b); ok && x > -1<<40 && x < 1<<40 && y > -1<<40 && y < 1<<40 {
		return IntLit(x - y)
	}
	if b.S == "0" {
		return a
	}
	return mk("Int", "-", a, b)
}
func Lt(a, b Term) Term {
	if x, y, ok := lit2(a, b); ok {
		return BoolLit(x < y)
	}
	return mk("Bool", "<", a, b)
}
func Le(a, b Term) Term {
	if x, y, ok := lit2(a, b); ok {
		return BoolLit(x <= y)
	}
	return mk("Bool", "<=", a, b)
}
func Ge(a, b Term) Term {
	if x, y, ok := lit2(a, b); ok {
		return BoolLit(x >= y)
	}
	return mk("Bool", ">=", a, b)
}
func Gt(a, b Term) Term {
	if x, y, ok := lit2(a, b); ok {
		return BoolLit(x > y)
	}
	return mk("Bool", ">", a, b)
}

func Select(arr, idx Term) Term {
	// select over a store with literal indices is decided here
	if k, ok := modelInt(idx.S); ok {
		cur := arr
		for strings.HasPrefix(cur.S, "(store ") && strings.HasSuffix(cur.S, ")") {
			parts := splitTopLevel(cur.S[1 : len(cur.S)-1])
			if len(parts) != 4 {
				break
			}
			j, lit := modelInt(parts[2])
			if !lit {
				break
			}
			if j == k {
				return Term{parts[3], arrayElemSort(arr.Sort)}
			}
			cur = Term{parts[1], arr.Sort}
		}
		arr = cur
	}
	return mk(arrayElemSort(arr.Sort), "select", arr, idx)
}

func Store(arr, idx, v Term) Term { return mk(arr.Sort, "store", arr, idx, v) }

// arrayElemSort returns E for "(Array I E)".
func arrayElemSort(s string) string {
	_, e := splitArraySort(s)
	return e
}

func splitArraySort(s string) (string, string) {
	if !strings.HasPrefix(s, "(Array ") {
		return "", ""
	}
	body := s[len("(Array ") : len(s)-1]
	// split at top-level space
	depth := 0
	for i := 0; i < len(body); i++ {
		switch body[i] {
		case '(':
			depth++
		case ')':
			depth--
		case ' ':
			if depth == 0 {
				return body[:i], body[i+1:]
			}
		}
	}
	return "", ""
}

func ArraySort(i, e string) string { return "(Array " + i + " " + e + ")" }

var nonAlnum = regexp.MustCompile(`[^A-Za-z0-9]+`)

func sanitize(s string) string {
	return strings.Trim(nonAlnum.ReplaceAllString(s, "_"), "_")
}

// SMT string literal: in SMT-LIB 2.6 the only escape is "" for a quote and
// \u{X} for code points.
func StrLit(s string) Term {
	var b strings.Builder
	b.WriteByte('"')
	for i := 0; i < len(s); i++ {
		c := s[i]
		switch {
		case c == '"':
			b.WriteString(`""`)
		case c == '\\' || c < 0x20 || c >= 0x7f:
			fmt.Fprintf(&b, `\u{%x}`, c)
		default:
			b.WriteByte(c)
		}
	}
	b.WriteByte('"')
	return Term{b.String(), "String"}
}

// ---------------------------------------------------------------------------
// Declarations: an append-only list; an obligation captures the prefix
// length that was current when it was created.

type Decls struct {
	mu      sync.Mutex
	sorts   []string // sort / datatype declarations (prelude, ordered)
	sortSet map[string]bool
	funs    []string // declare-fun / declare-const / define-fun (ordered)
	funSet  map[string]bool
	axioms  []string // global axioms (asserted in every query that opts in)
	fresh   int
}

func NewDecls() *Decls {
	return &Decls{sortSet: map[string]bool{}, funSet: map[string]bool{}}
}

func (d *Decls) DeclareSort(name, text string) {
	d.mu.Lock()
	defer d.mu.Unlock()
	if d.sortSet[name] {
		return
	}
	d.sortSet[name] = true
	d.sorts = append(d.sorts, text)
}

func (d *Decls) HasSort(name string) bool {
	d.mu.Lock()
	defer d.mu.Unlock()
	return d.sortSet[name]
}

// DeclareFun declares name once. text is the full SMT command.
func (d *Decls) DeclareFun(name, text string) {
	d.mu.Lock()
	defer d.mu.Unlock()
	if d.funSet[name] {
		return
	}
	d.funSet[name] = true
	d.funs = append(d.funs, text)
}

func (d *Decls) HasFun(name string) bool {
	d.mu.Lock()
	defer d.mu.Unlock()
	return d.funSet[name]
}

func (d *Decls) Axiom(text string) {
	d.mu.Lock()
	defer d.mu.Unlock()
	d.axioms = append(d.axioms, text)
}

func (d *Decls) Fresh(prefix, sort string) Term {
	d.mu.Lock()
	d.fresh++
	n := d.fresh
	d.mu.Unlock()
	name := fmt.Sprintf("%s!%d", sanitize(prefix), n)
	d.DeclareFun(name, fmt.Sprintf("(declare-const %s %s)", name, sort))
	return Term{name, sort}
}

// Snapshot returns the SMT text of every declaration made so far.
func (d *Decls) Snapshot() string {
	d.mu.Lock()
	defer d.mu.Unlock()
	var b strings.Builder
	for _, s := range d.sorts {
		b.WriteString(s)
		b.WriteByte('\n')
	}
	for _, s := range d.funs {
		b.WriteString(s)
		b.WriteByte('\n')
	}
	for _, s := range d.axioms {
		b.WriteString("(assert ")
		b.WriteString(s)
		b.WriteString(")\n")
	}
	return b.String()
}

// ---------------------------------------------------------------------------
// Solver driver.

type SolverResult struct {
	Answer  string // "unsat", "sat", "unknown", "timeout", "error"
	Solver  string
	Seconds float64
	Model   string // raw model text when sat
	Output  string // raw output (truncated)
	Tried   []string
}

type solverSpec struct {
	name string
	args func(timeoutMs int, seed int, file string) []string
}

var solvers = []solverSpec{
	{"z3-new", func(t, seed int, f string) []string {
		return []string{"z3-new", fmt.Sprintf("-t:%d", t), fmt.Sprintf("smt.random_seed=%d", seed), fmt.Sprintf("sat.random_seed=%d", seed), f}
	}},
	{"cvc5", func(t, seed int, f string) []string {
		return []string{"cvc5", "--strings-exp", "--produce-models", fmt.Sprintf("--tlimit=%d", t), fmt.Sprintf("--seed=%d", seed), f}
	}},
	{"z3", func(t, seed int, f string) []string {
		return []string{"z3", fmt.Sprintf("-t:%d", t), fmt.Sprintf("smt.random_seed=%d", seed), f}
	}},
}

var (
	cacheDir   = "/verif/.cache"
	useCache   = true
	solverSeed = 0
)

func firstLine(s string) string {
	s = strings.TrimSpace(s)
	if i := strings.IndexByte(s, '\n'); i >= 0 {
		return s[:i]
	}
	return s
}

// runSolver runs one solver on the query text. The query must not contain
// (check-sat); it is appended here, and (get-model) only on a second run.
func runSolver(sp solverSpec, query string, timeout time.Duration, wantModel bool) SolverResult {
	return runSolverCtx(context.Background(), sp, query, timeout, wantModel)
}

func runSolverCtx(parent context.Context, sp solverSpec, query string, timeout time.Duration, wantModel bool) SolverResult {
	dir, err := os.MkdirTemp("", "govc-q")
	if err != nil {
		return SolverResult{Answer: "error", Output: err.Error()}
	}
	defer os.RemoveAll(dir)
	file := filepath.Join(dir, "q.smt2")
	text := query + "\n(check-sat)\n"
	if wantModel {
		text += "(get-model)\n"
	}
	if sp.name == "cvc5" {
		text = "(set-option :produce-models true)\n(set-logic ALL)\n" + text
	}
	if err := os.WriteFile(file, []byte(text), 0o644); err != nil {
		return SolverResult{Answer: "error", Output: err.Error()}
	}
	args := sp.args(int(timeout/time.Millisecond), solverSeed, file)
	ctx, cancel := context.WithTimeout(parent, timeout+2*time.Second)
	defer cancel()
	cmd := exec.CommandContext(ctx, args[0], args[1:]...)
	var out bytes.Buffer
	cmd.Stdout = &out
	cmd.Stderr = &out
	start := time.Now()
	_ = cmd.Run()
	secs := time.Since(start).Seconds()
	o := out.String()
	ans := firstLine(o)
	res := SolverResult{Solver: sp.name, Seconds: secs}
	switch {
	case ans == "unsat":
		res.Answer = "unsat"
	case ans == "sat":
		res.Answer = "sat"
		if i := strings.IndexByte(o, '\n'); i >= 0 {
			res.Model = o[i+1:]
		}
	case parent.Err() != nil:
		res.Answer = "cancelled"
	case ans == "unknown" || ans == "timeout" || ctx.Err() != nil || strings.Contains(o, "interrupted by timeout"):
		res.Answer = "unknown"
		if ctx.Err() != nil || strings.Contains(o, "timeout") {
			res.Answer = "timeout"
		}
	default:
		res.Answer = "error"
	}
	if len(o) > 4000 {
		o = o[:4000]
	}
	res.Output = o
	return res
}

// Solve races the installed solvers in order; first definitive answer wins.
// In "all" mode every solver is run and a sat/unsat disagreement is an error.
func Solve(query string, timeout time.Duration, all bool) SolverResult {
	key := ""
	if useCache && !all {
		h := sha256.Sum256([]byte(fmt.Sprintf("%d\n%s", int(timeout/time.Millisecond), query)))
		key = filepath.Join(cacheDir, hex.EncodeToString(h[:]))
		if b, err := os.ReadFile(key); err == nil {
			parts := strings.SplitN(string(b), "\n", 4)
			if len(parts) >= 3 && parts[0] == "unsat" {
				secs, _ := strconv.ParseFloat(parts[2], 64)
				return SolverResult{Answer: "unsat", Solver: parts[1] + " (cached)", Seconds: secs}
			}
		}
	}
	var tried []string
	var last SolverResult
	var definitive *SolverResult
	if all {
		for _, sp := range solvers {
			r := runSolver(sp, query, timeout, false)
			tried = append(tried, fmt.Sprintf("%s:%s:%.2fs", sp.name, r.Answer, r.Seconds))
			if r.Answer == "error" {
				last = r
				continue
			}
			if r.Answer == "sat" || r.Answer == "unsat" {
				if definitive == nil {
					rr := r
					definitive = &rr
				} else if definitive.Answer != r.Answer {
					return SolverResult{Answer: "error", Solver: "disagreement", Output: strings.Join(tried, " "), Tried: tried}
				}
				continue
			}
			last = r
		}
	} else {
		// staggered race: z3-new at once, cvc5 after 0.3 s, z3 4.8 after 2 s;
		// the first definitive answer wins and the others are killed
		ctx, cancel := context.WithCancel(context.Background())
		type tagged struct {
			r SolverResult
		}
		ch := make(chan tagged, len(solvers))
		delays := []time.Duration{0, 300 * time.Millisecond, 2 * time.Second}
		for i, sp := range solvers {
			go func(sp solverSpec, d time.Duration) {
				select {
				case <-ctx.Done():
					ch <- tagged{SolverResult{Solver: sp.name, Answer: "cancelled"}}
					return
				case <-time.After(d):
				}
				ch <- tagged{runSolverCtx(ctx, sp, query, timeout, false)}
			}(sp, delays[i%len(delays)])
		}
		for range solvers {
			t := <-ch
			if t.r.Answer == "cancelled" {
				continue
			}
			tried = append(tried, fmt.Sprintf("%s:%s:%.2fs", t.r.Solver, t.r.Answer, t.r.Seconds))
			if (t.r.Answer == "sat" || t.r.Answer == "unsat") && definitive == nil {
				rr := t.r
				definitive = &rr
				cancel()
				continue
			}
			if t.r.Answer != "error" || last.Answer == "" {
				last = t.r
			}
		}
		cancel()
	}
	if definitive != nil {
		res := *definitive
		res.Tried = tried
		if res.Answer == "sat" {
			// second run with get-model on the same solver
			for _, sp := range solvers {
				if sp.name == res.Solver {
					m := runSolver(sp, query, timeout, true)
					if m.Answer == "sat" {
						res.Model = m.Model
					}
				}
			}
		}
		if res.Answer == "unsat" && key != "" {
			os.MkdirAll(cacheDir, 0o755)
			os.WriteFile(key, []byte(fmt.Sprintf("unsat\n%s\n%.3f\n", res.Solver, res.Seconds)), 0o644)
		}
		return res
	}
	last.Tried = tried
	if last.Answer == "" {
		last.Answer = "unknown"
	}
	return last
}

// ---------------------------------------------------------------------------
// Model parsing: extracts (define-fun name () Sort value) entries for
// constants. Good enough for replay of scalar inputs.

type Model map[string]string

func ParseModel(text string) Model {
	m := Model{}
	toks := tokenizeSexp(text)
	pos := 0
	var parse func() interface{}
	parse = func() interface{} {
		if pos >= len(toks) {
			return nil
		}
		t := toks[pos]
		pos++
		if t == "(" {
			var l []interface{}
			for pos < len(toks) && toks[pos] != ")" {
				l = append(l, parse())
			}
			pos++
			return l
		}
		return t
	}
	for pos < len(toks) {
		e := parse()
		collectDefs(e, m)
	}
	return m
}

func collectDefs(e interface{}, m Model) {
	l, ok := e.([]interface{})
	if !ok {
		return
	}
	if len(l) == 5 {
		if h, ok := l[0].(string); ok && h == "define-fun" {
			if name, ok := l[1].(string); ok {
				if args, ok := l[2].([]interface{}); ok && len(args) == 0 {
					m[name] = sexpString(l[4])
					return
				}
			}
		}
	}
	for _, x := range l {
		collectDefs(x, m)
	}
}

func sexpString(e interface{}) string {
	switch v := e.(type) {
	case string:
		return v
	case []interface{}:
		parts := make([]string, len(v))
		for i, x := range v {
			parts[i] = sexpString(x)
		}
		return "(" + strings.Join(parts, " ") + ")"
	}
	return ""
}

func tokenizeSexp(s string) []string {
	var toks []string
	i := 0
	for i < len(s) {
		c := s[i]
		switch {
		case c == '(' || c == ')':
			toks = append(toks, string(c))
			i++
		case c == ' ' || c == '\n' || c == '\t' || c == '\r':
			i++
		case c == ';':
			for i < len(s) && s[i] != '\n' {
				i++
			}
		case c == '"':
			j := i + 1
			for j < len(s) {
				if s[j] == '"' {
					if j+1 < len(s) && s[j+1] == '"' {
						j += 2
						continue
					}
					break
				}
				j++
			}
			toks = append(toks, s[i:min(j+1, len(s))])
			i = j + 1
		case c == '|':
			j := strings.IndexByte(s[i+1:], '|')
			if j < 0 {
				j = len(s) - i - 1
			}
			toks = append(toks, s[i:i+j+2])
			i += j + 2
		default:
			j := i
			for j < len(s) && !strings.ContainsRune("() \n\t\r", rune(s[j])) {
				j++
			}
			toks = append(toks, s[i:j])
			i = j
		}
	}
	return toks
}

// modelInt parses "5" or "(- 5)".
func modelInt(v string) (int64, bool) {
	v = strings.TrimSpace(v)
	if strings.HasPrefix(v, "(- ") {
		n, err := strconv.ParseInt(strings.TrimSuffix(v[3:], ")"), 10, 64)
		return -n, err == nil
	}
	n, err := strconv.ParseInt(v, 10, 64)
	return n, err == nil
}

// modelString decodes an SMT-LIB string literal into Go bytes (code points
// above 255 are reduced mod 256 and reported by ok=false).
func modelString(v string) (string, bool) {
	v = strings.TrimSpace(v)
	if len(v) < 2 || v[0] != '"' {
		return "", false
	}
	v = v[1 : len(v)-1]
	ok := true
	var b []byte
	for i := 0; i < len(v); i++ {
		c := v[i]
		if c == '"' && i+1 < len(v) && v[i+1] == '"' {
			b = append(b, '"')
			i++
			continue
		}
		if c == '\\' && i+1 < len(v) && v[i+1] == 'u' {
			// \u{X..} or \uXXXX
			if i+2 < len(v) && v[i+2] == '{' {
				j := strings.IndexByte(v[i:], '}')
				if j > 0 {
					n, err := strconv.ParseUint(v[i+3:i+j], 16, 32)
					if err == nil {
						if n > 255 {
							ok = false
						}
						b = append(b, byte(n))
						i += j
						continue
					}
				}
			} else if i+5 < len(v) {
				n, err := strconv.ParseUint(v[i+2:i+6], 16, 32)
				if err == nil {
					if n > 255 {
						ok = false
					}
					b = append(b, byte(n))
					i += 5
					continue
				}
			}
		}
		if c == '\\' && i+1 < len(v) && v[i+1] == 'x' && i+3 < len(v) {
			n, err := strconv.ParseUint(v[i+2:i+4], 16, 8)
			if err == nil {
				b = append(b, byte(n))
				i += 3
				continue
			}
		}
		b = append(b, c)
	}
	return string(b), ok
}

var warnings = map[string]int{}
var warnMu sync.Mutex

func warnf(format string, args ...interface{}) {
	s := fmt.Sprintf(format, args...)
	warnMu.Lock()
	warnings[s]++
	warnMu.Unlock()
}

func sortedWarnings() []string {
	warnMu.Lock()
	defer warnMu.Unlock()
	var ws []string
	for w, n := range warnings {
		ws = append(ws, fmt.Sprintf("%s (x%d)", w, n))
	}
	sort.Strings(ws)
	return ws
}
