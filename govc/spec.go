package main

// Contract files (//@ lines) and the spec expression language.

import (
	"fmt"
	"os"
	"regexp"
	"strconv"
	"strings"
	"unicode"
)

// ---------------------------------------------------------------------------
// Expression AST

type SExpr interface{}

type SIdent struct{ Name string }
type SInt struct{ V int64 }
type SStr struct{ V string }
type SBool struct{ V bool }
type SNil struct{}
type SBin struct {
	Op   string
	L, R SExpr
}
type SUn struct {
	Op string
	X  SExpr
}
type SCall struct {
	Fun  SExpr
	Args []SExpr
}
type SSel struct {
	X    SExpr
	Name string
}
type SIndex struct{ X, I SExpr }
type SSlice struct{ X, Lo, Hi SExpr }
type SVar struct{ Name, Type string }
type SQuant struct {
	Forall bool
	Vars   []SVar
	Body   SExpr
	Pats   []SExpr
}
type SCond struct{ C, A, B SExpr }
type SOld struct{ X SExpr }
type SList struct{ Elems []SExpr }

func exprString(e SExpr) string {
	switch x := e.(type) {
	case SIdent:
		return x.Name
	case SInt:
		return strconv.FormatInt(x.V, 10)
	case SStr:
		return strconv.Quote(x.V)
	case SBool:
		return strconv.FormatBool(x.V)
	case SNil:
		return "nil"
	case SBin:
		return "(" + exprString(x.L) + " " + x.Op + " " + exprString(x.R) + ")"
	case SUn:
		return x.Op + exprString(x.X)
	case SCall:
		var as []string
		for _, a := range x.Args {
			as = append(as, exprString(a))
		}
		return exprString(x.Fun) + "(" + strings.Join(as, ", ") + ")"
	case SSel:
		return exprString(x.X) + "." + x.Name
	case SIndex:
		return exprString(x.X) + "[" + exprString(x.I) + "]"
	case SSlice:
		lo, hi := "", ""
		if x.Lo != nil {
			lo = exprString(x.Lo)
		}
		if x.Hi != nil {
			hi = exprString(x.Hi)
		}
		return exprString(x.X) + "[" + lo + ":" + hi + "]"
	case SQuant:
		q := "exists"
		if x.Forall {
			q = "forall"
		}
		var vs []string
		for _, v := range x.Vars {
			vs = append(vs, v.Name+" "+v.Type)
		}
		return "(" + q + " " + strings.Join(vs, ", ") + " :: " + exprString(x.Body) + ")"
	case SCond:
		return "(" + exprString(x.C) + " ? " + exprString(x.A) + " : " + exprString(x.B) + ")"
	case SOld:
		return "old(" + exprString(x.X) + ")"
	case SList:
		var as []string
		for _, a := range x.Elems {
			as = append(as, exprString(a))
		}
		return "[" + strings.Join(as, ", ") + "]"
	}
	return "?"
}

// ---------------------------------------------------------------------------
// Lexer

type tok struct {
	kind string // ident int str char op eof
	s    string
	n    int64
}

func lexSpec(src string) ([]tok, error) {
	var toks []tok
	i := 0
	ops := []string{"<==>", "==>", "<<", ">>", "&^", "&&", "||", "==", "!=", "<=", ">=", "::", "+", "-", "*", "/", "%", "&", "|", "^", "<", ">", "!", "(", ")", "[", "]", ",", ".", ":", "?", "{", "}", "="}
	for i < len(src) {
		c := src[i]
		switch {
		case c == ' ' || c == '\t' || c == '\n':
			i++
		case unicode.IsLetter(rune(c)) || c == '_':
			j := i
			for j < len(src) && (unicode.IsLetter(rune(src[j])) || unicode.IsDigit(rune(src[j])) || src[j] == '_' || src[j] == '$' || src[j] == '#') {
				j++
			}
			toks = append(toks, tok{kind: "ident", s: src[i:j]})
			i = j
		case unicode.IsDigit(rune(c)):
			j := i
			for j < len(src) && (unicode.IsDigit(rune(src[j])) || src[j] == 'x' || (src[j] >= 'a' && src[j] <= 'f') || (src[j] >= 'A' && src[j] <= 'F')) {
				j++
			}
			n, err := strconv.ParseInt(src[i:j], 0, 64)
			if err != nil {
				return nil, fmt.Errorf("bad number %q", src[i:j])
			}
			toks = append(toks, tok{kind: "int", n: n, s: src[i:j]})
			i = j
		case c == '"':
			j := i + 1
			for j < len(src) && src[j] != '"' {
				if src[j] == '\\' {
					j++
				}
				j++
			}
			if j >= len(src) {
				return nil, fmt.Errorf("unterminated string")
			}
			s, err := strconv.Unquote(src[i : j+1])
			if err != nil {
				return nil, fmt.Errorf("bad string %s", src[i:j+1])
			}
			toks = append(toks, tok{kind: "str", s: s})
			i = j + 1
		case c == '\'':
			j := i + 1
			for j < len(src) && src[j] != '\'' {
				if src[j] == '\\' {
					j++
				}
				j++
			}
			if j >= len(src) {
				return nil, fmt.Errorf("unterminated char")
			}
			r, _, _, err := strconv.UnquoteChar(src[i+1:j], '\'')
			if err != nil {
				return nil, fmt.Errorf("bad char %s", src[i:j+1])
			}
			toks = append(toks, tok{kind: "int", n: int64(r), s: src[i : j+1]})
			i = j + 1
		default:
			matched := false
			for _, op := range ops {
				if strings.HasPrefix(src[i:], op) {
					toks = append(toks, tok{kind: "op", s: op})
					i += len(op)
					matched = true
					break
				}
			}
			if !matched {
				return nil, fmt.Errorf("unexpected character %q in %q", c, src)
			}
		}
	}
	toks = append(toks, tok{kind: "eof"})
	return toks, nil
}

// ---------------------------------------------------------------------------
// Parser

type specParser struct {
	toks []tok
	pos  int
	src  string
}

func ParseSpecExpr(src string) (e SExpr, err error) {
	toks, err := lexSpec(src)
	if err != nil {
		return nil, err
	}
	p := &specParser{toks: toks, src: src}
	defer func() {
		if r := recover(); r != nil {
			if s, ok := r.(specErr); ok {
				err = fmt.Errorf("%s in %q", string(s), src)
				return
			}
			panic(r)
		}
	}()
	e = p.parseExpr()
	if p.peek().kind != "eof" {
		p.fail("unexpected %q", p.peek().s)
	}
	return e, nil
}

type specErr string

func (p *specParser) fail(f string, a ...interface{}) { panic(specErr(fmt.Sprintf(f, a...))) }
func (p *specParser) peek() tok                        { return p.toks[p.pos] }
func (p *specParser) next() tok                        { t := p.toks[p.pos]; p.pos++; return t }
func (p *specParser) isOp(s string) bool               { t := p.peek(); return t.kind == "op" && t.s == s }
func (p *specParser) accept(s string) bool {
	if p.isOp(s) {
		p.pos++
		return true
	}
	return false
}
func (p *specParser) expect(s string) {
	if !p.accept(s) {
		p.fail("expected %q, got %q", s, p.peek().s)
	}
}

func (p *specParser) parseExpr() SExpr {
	t := p.peek()
	if t.kind == "ident" && (t.s == "forall" || t.s == "exists") {
		p.next()
		q := SQuant{Forall: t.s == "forall"}
		var pending []string
		for {
			name := p.parseIdentName()
			if p.accept(",") {
				pending = append(pending, name)
				continue
			}
			typ := p.parseTypeName()
			for _, n := range pending {
				q.Vars = append(q.Vars, SVar{n, typ})
			}
			pending = nil
			q.Vars = append(q.Vars, SVar{name, typ})
			if p.accept(",") {
				continue
			}
			break
		}
		p.expect("::")
		q.Body = p.parseExpr()
		return q
	}
	return p.parseIff()
}

func (p *specParser) parseIdentName() string {
	t := p.next()
	if t.kind != "ident" {
		p.fail("expected identifier, got %q", t.s)
	}
	return t.s
}

func (p *specParser) parseTypeName() string {
	// [*] [[]] ident [. ident]
	s := ""
	for p.isOp("*") || p.isOp("[") {
		if p.accept("*") {
			s += "*"
		} else {
			p.next()
			p.expect("]")
			s += "[]"
		}
	}
	s += p.parseIdentName()
	if p.isOp(".") {
		p.next()
		s += "." + p.parseIdentName()
	}
	return s
}

func (p *specParser) parseIff() SExpr {
	l := p.parseImplies()
	for p.accept("<==>") {
		r := p.parseImplies()
		l = SBin{"<==>", l, r}
	}
	return l
}

func (p *specParser) parseImplies() SExpr {
	l := p.parseCond()
	if p.accept("==>") {
		var r SExpr
		if t := p.peek(); t.kind == "ident" && (t.s == "forall" || t.s == "exists") {
			r = p.parseExpr()
		} else {
			r = p.parseImplies()
		}
		return SBin{"==>", l, r}
	}
	return l
}

func (p *specParser) parseCond() SExpr {
	c := p.parseBinary(1)
	if p.accept("?") {
		a := p.parseCond()
		p.expect(":")
		b := p.parseCond()
		return SCond{c, a, b}
	}
	return c
}

var binPrec = map[string]int{
	"||": 1, "&&": 2,
	"==": 3, "!=": 3, "<": 3, "<=": 3, ">": 3, ">=": 3,
	"+": 4, "-": 4, "|": 4, "^": 4,
	"*": 5, "/": 5, "%": 5, "<<": 5, ">>": 5, "&": 5, "&^": 5,
}

func (p *specParser) parseBinary(prec int) SExpr {
	l := p.parseUnary()
	for {
		t := p.peek()
		if t.kind != "op" {
			return l
		}
		pr, ok := binPrec[t.s]
		if !ok || pr < prec {
			return l
		}
		p.next()
		var r SExpr
		if n := p.peek(); n.kind == "ident" && (n.s == "forall" || n.s == "exists") {
			r = p.parseExpr()
		} else {
			r = p.parseBinary(pr + 1)
		}
		l = SBin{t.s, l, r}
	}
}

func (p *specParser) parseUnary() SExpr {
	t := p.peek()
	if t.kind == "op" {
		switch t.s {
		case "!", "-", "^":
			p.next()
			return SUn{t.s, p.parseUnary()}
		}
	}
	return p.parsePostfix()
}

func (p *specParser) parsePostfix() SExpr {
	e := p.parsePrimary()
	for {
		switch {
		case p.accept("."):
			t := p.next()
			if t.kind == "int" {
				e = SSel{e, t.s}
			} else if t.kind == "ident" {
				e = SSel{e, t.s}
			} else {
				p.fail("bad selector %q", t.s)
			}
		case p.accept("("):
			var args []SExpr
			for !p.isOp(")") {
				args = append(args, p.parseExpr())
				if !p.accept(",") {
					break
				}
			}
			p.expect(")")
			e = SCall{e, args}
		case p.accept("["):
			var lo, hi SExpr
			if !p.isOp(":") {
				lo = p.parseExpr()
			}
			if p.accept(":") {
				if !p.isOp("]") {
					hi = p.parseExpr()
				}
				p.expect("]")
				e = SSlice{e, lo, hi}
			} else {
				p.expect("]")
				e = SIndex{e, lo}
			}
		default:
			return e
		}
	}
}

func (p *specParser) parsePrimary() SExpr {
	t := p.next()
	switch t.kind {
	case "int":
		return SInt{t.n}
	case "str":
		return SStr{t.s}
	case "ident":
		switch t.s {
		case "true":
			return SBool{true}
		case "false":
			return SBool{false}
		case "nil":
			return SNil{}
		case "old":
			p.expect("(")
			e := p.parseExpr()
			p.expect(")")
			return SOld{e}
		}
		return SIdent{t.s}
	case "op":
		switch t.s {
		case "(":
			// (*T) or (T) receiver-style names are not expressions; plain parens
			e := p.parseExpr()
			p.expect(")")
			return e
		case "[":
			var es []SExpr
			for !p.isOp("]") {
				es = append(es, p.parseExpr())
				if !p.accept(",") {
					break
				}
			}
			p.expect("]")
			return SList{es}
		}
	}
	p.fail("unexpected %q", t.s)
	return nil
}

// ---------------------------------------------------------------------------
// Contract files

type Clause struct {
	Kind  string // requires ensures invariant decreases panics
	Label string
	Src   string
	Expr  SExpr
	Loop  int    // for invariant/decreases
	File  string // origin
	Line  int
}

type Contract struct {
	Key       string // "(*Funcs).GetBlob", "checkTag", "(*T).M$1"
	Pkg       string
	Requires  []*Clause
	Ensures   []*Clause
	Invs      map[int][]*Clause // loop ordinal → invariants
	Panics    []*Clause
	Modifies  []string // nil = computed; ["nothing"], ["all"], or component names
	HasMod    bool
	Trusted   bool
	Pure      bool
	Inline    bool
	NoInline  bool
	Opaque    bool
	StrMode   string
	ByteBV    bool
	LogCalls  bool
	LogLib    bool // `log-lib`: modelled library calls (io.ReadAll) made by this function appear in its call log
	Params    []string // optional parameter renames for trusted externals
	Atomic    bool
	Holds     []string // requires held(L)
	Raw       []string
	Unroll    map[int]int
	Producer  bool   // verify the closure as a Seq producer
	CloInv    map[int][]*Clause // closure ordinal → invariants on captured cells
	AssumeRet []*Clause
	YieldReq  []*SinkRule // yield-requires(a, b) E
	Private   []string    // parameters whose pointee is not reachable by foreign code
	Decreases map[int][]*Clause
	Progress  map[int][]string
	NoCall    bool // closure arguments are stored, not invoked, by this function
	PureParams []string // func-typed parameters assumed to be pure functions of their arguments
	Invokes   []SExpr // trusted behaviour: exactly these calls of function-valued parameters, in order; their results are the function's results
	LoopExit  map[int][]*Clause // loop ordinal → what holds whenever control leaves the loop for the code after it
	GuardedParams map[string]string // map-typed parameter → "Type.mu": its contents may only be accessed with that mutex held
	LoopStep  map[int][]*Clause // loop ordinal → two-state clauses that every iteration satisfies (old = head of the iteration)
	AppendFrames bool // emit the old-side frame axiom at appends (witness transfer for exists-facts)
}

type SpecFunc struct {
	Name    string
	Params  []SVar
	Result  string
	Body    SExpr // nil = uninterpreted
	Src     string
	Rec     bool
	Pkg     string
}

type SinkRule struct {
	Owner   string   // "(*accessCheckerRegistry).r" or an interface type "ociregistry.Interface"
	Method  string
	Params  []string
	Req     []*Clause
	Ens     []*Clause
	Pkg     string
}

type Bind struct {
	Field string // "(*accessCheckerRegistry).check"
	Fn    string
	Pkg   string
}

type ContractSet struct {
	Funcs   map[string]*Contract // key: pkgpath + "." + Key
	Specs   map[string]*SpecFunc // key: pkgname.Name and Name within package
	Sinks   []*SinkRule
	Binds   []*Bind
	Axioms  []*Clause
	Guarded map[string]string // "pkg.Type.field" → lock field
	Immut   map[string]bool
	MustClose []string
	Files   []string
	Scan    []string // lines containing assume/trusted/axiom for the report
	PkgMode map[string]PkgMode
	ObjInvs map[string][]*Clause // pkgpath.TypeName → invariants over `self`
	SeqItems []*SinkRule        // seq-items <Method>(params) yields(a, b) ensures E
	IfaceEns []*SinkRule        // iface-ensures <Iface>.<Method>(params) E   (assumed interface contract)
	IfacePure map[string]bool   // method names of interfaces treated as deterministic, effect-free observers
	Lemmas   []*SpecFunc        // lemma name(params) = E  (proved by SMT for all parameter values)
	PureFnTypes map[string]bool // named func types whose values never modify the verified package's memory
}

type PkgMode struct {
	StrMode string
	ByteBV  bool
}

func NewContractSet() *ContractSet {
	return &ContractSet{Funcs: map[string]*Contract{}, Specs: map[string]*SpecFunc{}, Guarded: map[string]string{}, Immut: map[string]bool{}, PkgMode: map[string]PkgMode{}, ObjInvs: map[string][]*Clause{}, IfacePure: map[string]bool{}, PureFnTypes: map[string]bool{}}
}

var clauseKeywords = map[string]bool{
	"func": true, "requires": true, "ensures": true, "loop": true, "modifies": true, "trusted": true,
	"pure": true, "inline": true, "noinline": true, "strings": true, "bytes": true, "panics": true, "bind": true, "sink": true,
	"axiom": true, "log": true, "log-lib": true, "atomic": true, "guarded_by": true, "immutable": true, "must-close": true,
	"opaque": true, "unroll": true, "yield-requires": true, "invariant": true, "seq-items": true, "private": true, "pure-param": true, "public-invariant": true, "iface-ensures": true, "iface-pure": true, "lemma": true, "holds": true, "guarded-param": true, "invokes": true, "fn-sink": true, "nocall": true, "append-frames": true, "fn-type-pure": true, "producer": true, "closure": true, "package": true, "assume-return": true,
}

// LoadContractFile parses one contracts_verif.go file (or any file with //@ lines).
func (cs *ContractSet) LoadContractFile(path, pkgPath string) error {
	b, err := os.ReadFile(path)
	if err != nil {
		return err
	}
	cs.Files = append(cs.Files, path)
	type item struct {
		text string
		line int
	}
	var items []item
	for i, ln := range strings.Split(string(b), "\n") {
		t := strings.TrimSpace(ln)
		if !strings.HasPrefix(t, "//@") {
			continue
		}
		t = strings.TrimSpace(t[3:])
		if t == "" {
			continue
		}
		if idx := strings.Index(t, " //"); idx >= 0 && !strings.Contains(t[:idx], "\"") {
			t = strings.TrimSpace(t[:idx])
		}
		first := t
		if j := strings.IndexAny(t, " \t("); j >= 0 {
			first = t[:j]
		}
		if j := strings.IndexByte(first, '['); j >= 0 {
			first = first[:j]
		}
		if !clauseKeywords[first] && len(items) > 0 {
			items[len(items)-1].text += " " + t
			continue
		}
		items = append(items, item{t, i + 1})
	}
	var cur *Contract
	for _, it := range items {
		t := it.text
		word, rest := t, ""
		if j := strings.IndexAny(t, " \t"); j >= 0 {
			word, rest = t[:j], strings.TrimSpace(t[j+1:])
		}
		if strings.HasPrefix(word, "yield-requires(") {
			word = "yield-requires"
		}
		label := ""
		if j := strings.IndexByte(word, '['); j >= 0 && strings.HasSuffix(word, "]") {
			label = word[j+1 : len(word)-1]
			word = word[:j]
		}
		mkClause := func(kind, src string) (*Clause, error) {
			e, err := ParseSpecExpr(src)
			if err != nil {
				return nil, fmt.Errorf("%s:%d: %v", path, it.line, err)
			}
			return &Clause{Kind: kind, Label: label, Src: src, Expr: e, File: path, Line: it.line}, nil
		}
		lw := strings.ToLower(t)
		if strings.Contains(lw, "assume") || strings.Contains(lw, "trusted") || strings.HasPrefix(lw, "axiom") {
			cs.Scan = append(cs.Scan, fmt.Sprintf("%s:%d: %s", path, it.line, t))
		}
		switch word {
		case "package":
			// package-wide modes: "package strings=atom bytes=bv"
			pm := cs.PkgMode[pkgPath]
			if pm.StrMode == "" {
				pm.StrMode = "seq"
			}
			for _, f := range strings.Fields(rest) {
				switch f {
				case "strings=atom":
					pm.StrMode = "atom"
				case "strings=seq":
					pm.StrMode = "seq"
				case "bytes=bv":
					pm.ByteBV = true
				}
			}
			cs.PkgMode[pkgPath] = pm
		case "func":
			key := strings.TrimSpace(rest)
			if prev, ok := cs.Funcs[pkgPath+"."+key]; ok {
				// a second block for the same function adds to the first
				cur = prev
				break
			}
			cur = &Contract{Key: key, Pkg: pkgPath, Invs: map[int][]*Clause{}, CloInv: map[int][]*Clause{}, Unroll: map[int]int{}, Decreases: map[int][]*Clause{}, Progress: map[int][]string{}}
			cs.Funcs[pkgPath+"."+key] = cur
		case "requires", "ensures", "panics", "assume-return":
			if cur == nil {
				return fmt.Errorf("%s:%d: clause outside func", path, it.line)
			}
			src := rest
			if word == "panics" {
				src = strings.TrimSpace(strings.TrimPrefix(rest, "when"))
			}
			c, err := mkClause(word, src)
			if err != nil {
				return err
			}
			switch word {
			case "requires":
				cur.Requires = append(cur.Requires, c)
			case "ensures":
				cur.Ensures = append(cur.Ensures, c)
			case "panics":
				cur.Panics = append(cur.Panics, c)
			case "assume-return":
				cur.AssumeRet = append(cur.AssumeRet, c)
			}
		case "loop", "closure":
			if cur == nil {
				return fmt.Errorf("%s:%d: loop outside func", path, it.line)
			}
			parts := strings.SplitN(rest, " ", 3)
			if len(parts) < 3 {
				return fmt.Errorf("%s:%d: bad %s clause", path, it.line, word)
			}
			n, err := strconv.Atoi(parts[0])
			if err != nil {
				return fmt.Errorf("%s:%d: bad ordinal", path, it.line)
			}
			if l := parts[1]; strings.HasSuffix(l, "]") {
				if j := strings.IndexByte(l, '['); j >= 0 {
					label = l[j+1 : len(l)-1]
					parts[1] = l[:j]
				}
			}
			if parts[1] == "progress" {
				cur.Progress[n] = append(cur.Progress[n], strings.TrimSpace(parts[2]))
				break
			}
			c, err := mkClause(parts[1], parts[2])
			if err != nil {
				return err
			}
			c.Loop = n
			if parts[1] == "decreases" {
				cur.Decreases[n] = append(cur.Decreases[n], c)
				break
			}
			if parts[1] == "exit" {
				if cur.LoopExit == nil {
					cur.LoopExit = map[int][]*Clause{}
				}
				cur.LoopExit[n] = append(cur.LoopExit[n], c)
				break
			}
			if parts[1] == "step" {
				// two-state clause over one iteration: old(E) is E at the head of the iteration
				if cur.LoopStep == nil {
					cur.LoopStep = map[int][]*Clause{}
				}
				cur.LoopStep[n] = append(cur.LoopStep[n], c)
				break
			}
			if word == "closure" {
				cur.CloInv[n] = append(cur.CloInv[n], c)
			} else {
				cur.Invs[n] = append(cur.Invs[n], c)
			}
		case "yield-requires":
			// yield-requires(a, b) E   (first token carries the parameter list)
			full := t[len("yield-requires"):]
			close := strings.IndexByte(full, ')')
			if !strings.HasPrefix(full, "(") || close < 0 {
				return fmt.Errorf("%s:%d: bad yield-requires", path, it.line)
			}
			sr := &SinkRule{Method: "yield"}
			for _, pn := range strings.Split(full[1:close], ",") {
				sr.Params = append(sr.Params, strings.TrimSpace(pn))
			}
			c, err := mkClause("requires", strings.TrimSpace(full[close+1:]))
			if err != nil {
				return err
			}
			sr.Req = append(sr.Req, c)
			cur.YieldReq = append(cur.YieldReq, sr)
		case "private":
			for _, pn := range strings.Split(rest, ",") {
				cur.Private = append(cur.Private, strings.TrimSpace(pn))
			}
		case "pure-param":
			for _, pn := range strings.Split(rest, ",") {
				cur.PureParams = append(cur.PureParams, strings.TrimSpace(pn))
			}
		case "unroll":
			parts := strings.Fields(rest)
			if len(parts) == 2 {
				a, _ := strconv.Atoi(parts[0])
				b, _ := strconv.Atoi(parts[1])
				cur.Unroll[a] = b
			}
		case "modifies":
			cur.HasMod = true
			for _, m := range strings.Split(rest, ",") {
				m = strings.TrimSpace(m)
				if !contains(cur.Modifies, m) { // merged blocks may repeat an item
					cur.Modifies = append(cur.Modifies, m)
				}
			}
		case "trusted":
			cur.Trusted = true
		case "opaque":
			cur.Opaque = true
		case "producer":
			cur.Producer = true
		case "inline":
			cur.Inline = true
		case "noinline":
			cur.NoInline = true
		case "log":
			cur.LogCalls = true
		case "log-lib":
			if cur != nil {
				cur.LogLib = true
			}
		case "atomic":
			if cur != nil {
				cur.Atomic = true
			}
		case "strings":
			if cur != nil {
				cur.StrMode = rest
			}
		case "bytes":
			if cur != nil {
				cur.ByteBV = rest == "bv"
			}
		case "pure":
			if strings.HasPrefix(rest, "func ") || strings.HasPrefix(rest, "named func ") {
				// `pure named func`: kept as a function symbol with its definition
				// (define-fun-rec) instead of being expanded at each use, so that its
				// applications and their arguments are ground terms the solver can match on
				named := strings.HasPrefix(rest, "named func ")
				sf, err := parseSpecFunc(strings.TrimPrefix(strings.TrimPrefix(rest, "named "), "func "))
				if err != nil {
					return fmt.Errorf("%s:%d: %v", path, it.line, err)
				}
				sf.Pkg = pkgPath
				if named {
					sf.Rec = true
				}
				cs.Specs[sf.Name] = sf
			} else if cur != nil {
				cur.Pure = true
			}
		case "iface-pure":
			for _, m := range strings.Split(rest, ",") {
				m = strings.TrimSpace(m)
				if j := strings.LastIndexByte(m, '.'); j >= 0 {
					m = m[j+1:]
				}
				cs.IfacePure[m] = true
			}
			cs.Scan = append(cs.Scan, fmt.Sprintf("%s:%d: assumed: interface observers are deterministic and effect-free: %s", path, it.line, rest))
		case "lemma":
			sf, err := parseSpecFunc(rest)
			if err != nil {
				return fmt.Errorf("%s:%d: %v", path, it.line, err)
			}
			sf.Pkg = pkgPath
			cs.Lemmas = append(cs.Lemmas, sf)
		case "iface-ensures":
			// iface-ensures BlobWriter.ID() result != ""
			m := regexp.MustCompile(`^([\w.]+)\.(\w+)\(([^)]*)\)\s+(.*)$`).FindStringSubmatch(rest)
			if m == nil {
				return fmt.Errorf("%s:%d: bad iface-ensures", path, it.line)
			}
			sr := &SinkRule{Owner: m[1], Method: m[2], Pkg: pkgPath}
			for _, pn := range strings.Split(m[3], ",") {
				if pn = strings.TrimSpace(pn); pn != "" {
					sr.Params = append(sr.Params, pn)
				}
			}
			c, err := mkClause("ensures", m[4])
			if err != nil {
				return err
			}
			sr.Ens = append(sr.Ens, c)
			cs.IfaceEns = append(cs.IfaceEns, sr)
			cs.Scan = append(cs.Scan, fmt.Sprintf("%s:%d: assumed interface contract: %s", path, it.line, t))
		case "seq-items":
			// seq-items Method(p1, p2) yields(a, b) ensures E
			// assumed interface contract: the items a Seq returned by
			// Interface.Method(p1, p2) hands to its consumer satisfy E
			m := regexp.MustCompile(`^(\w+)\(([^)]*)\)\s+yields\(([^)]*)\)\s+ensures\s+(.*)$`).FindStringSubmatch(rest)
			if m == nil {
				return fmt.Errorf("%s:%d: bad seq-items", path, it.line)
			}
			sr := &SinkRule{Method: m[1], Pkg: pkgPath}
			for _, pn := range strings.Split(m[2], ",") {
				sr.Params = append(sr.Params, strings.TrimSpace(pn))
			}
			sr.Owner = m[3] // yields parameter names, comma separated
			c, err := mkClause("ensures", m[4])
			if err != nil {
				return err
			}
			sr.Ens = append(sr.Ens, c)
			cs.SeqItems = append(cs.SeqItems, sr)
			cs.Scan = append(cs.Scan, fmt.Sprintf("%s:%d: assumed interface contract: %s", path, it.line, t))
		case "invariant", "public-invariant":
			// invariant (*T) E   — object invariant over `self`
			// public-invariant (*T) E — the same, but not required of (nor
			// assumed by) helper methods that run under the caller's lock
			// (`holds`): it may be broken between their calls
			close := strings.IndexByte(rest, ')')
			if !strings.HasPrefix(rest, "(") || close < 0 {
				return fmt.Errorf("%s:%d: bad invariant", path, it.line)
			}
			tn := strings.TrimPrefix(rest[1:close], "*")
			c, err := mkClause(word, strings.TrimSpace(rest[close+1:]))
			if err != nil {
				return err
			}
			cs.ObjInvs[pkgPath+"."+tn] = append(cs.ObjInvs[pkgPath+"."+tn], c)
		case "axiom":
			c, err := mkClause("axiom", rest)
			if err != nil {
				return err
			}
			cs.Axioms = append(cs.Axioms, c)
		case "bind":
			parts := strings.SplitN(rest, "=", 2)
			if len(parts) != 2 {
				return fmt.Errorf("%s:%d: bad bind", path, it.line)
			}
			cs.Binds = append(cs.Binds, &Bind{Field: strings.TrimSpace(parts[0]), Fn: strings.TrimSpace(parts[1]), Pkg: pkgPath})
		case "sink":
			// sink <owner> Method(p1, p2, ...) requires E
			sr, err := parseSink(rest)
			if err != nil {
				return fmt.Errorf("%s:%d: %v", path, it.line, err)
			}
			sr.Pkg = pkgPath
			for _, c := range sr.Req {
				c.File, c.Line = path, it.line
			}
			cs.Sinks = append(cs.Sinks, sr)
		case "guarded_by":
			// guarded_by Type.mu: Type.f1, Other.f2   (fields may belong to other
			// struct types of the package: then any held Type.mu suffices)
			parts := strings.SplitN(rest, ":", 2)
			if len(parts) == 2 {
				tl := strings.TrimSpace(parts[0]) // Type.mu
				j := strings.LastIndexByte(tl, '.')
				for _, f := range strings.Split(parts[1], ",") {
					f = strings.TrimSpace(f)
					if !strings.Contains(f, ".") {
						f = tl[:j] + "." + f
					}
					cs.Guarded[pkgPath+"."+f] = tl
				}
			}
		case "nocall":
			if cur != nil {
				cur.NoCall = true
			}
		case "append-frames":
			if cur != nil {
				cur.AppendFrames = true
			}
		case "fn-type-pure":
			for _, n := range strings.Split(rest, ",") {
				cs.PureFnTypes[strings.TrimSpace(n)] = true
			}
			cs.Scan = append(cs.Scan, fmt.Sprintf("%s:%d: assumed: values of func type %s do not modify the package's memory", path, it.line, rest))
		case "holds":
			if cur != nil {
				cur.Holds = append(cur.Holds, strings.TrimSpace(rest))
			}
		case "invokes":
			// invokes f(a, b); f(c, d)
			if cur != nil {
				for _, part := range strings.Split(rest, ";") {
					part = strings.TrimSpace(part)
					if part == "" {
						continue
					}
					e, err := ParseSpecExpr(part)
					if err != nil {
						return fmt.Errorf("%s:%d: %v", path, it.line, err)
					}
					cur.Invokes = append(cur.Invokes, e)
				}
			}
		case "guarded-param":
			// guarded-param m Type.mu
			if fs := strings.Fields(rest); cur != nil && len(fs) == 2 {
				if cur.GuardedParams == nil {
					cur.GuardedParams = map[string]string{}
				}
				cur.GuardedParams[fs[0]] = fs[1]
			}
		case "fn-sink":
			// fn-sink (*T).field(params) requires E : precondition of calls through a func-typed field
			sr, err := parseSink(strings.Replace(rest, "(", " call(", 1))
			_ = sr
			m := regexp.MustCompile(`^(\(\*?\w+\)\.\w+)\(([^)]*)\)\s+requires\s+(.*)$`).FindStringSubmatch(rest)
			if m == nil {
				return fmt.Errorf("%s:%d: bad fn-sink (%v)", path, it.line, err)
			}
			fs := &SinkRule{Owner: m[1], Method: "()", Pkg: pkgPath}
			for _, pn := range strings.Split(m[2], ",") {
				if pn = strings.TrimSpace(pn); pn != "" {
					fs.Params = append(fs.Params, pn)
				}
			}
			c, err2 := mkClause("requires", m[3])
			if err2 != nil {
				return err2
			}
			fs.Req = append(fs.Req, c)
			cs.Sinks = append(cs.Sinks, fs)
		case "immutable":
			for _, f := range strings.Split(rest, ",") {
				cs.Immut[pkgPath+"."+strings.TrimSpace(f)] = true
			}
		case "must-close":
			for _, f := range strings.Split(rest, ",") {
				cs.MustClose = append(cs.MustClose, strings.TrimSpace(f))
			}
		default:
			return fmt.Errorf("%s:%d: unknown directive %q", path, it.line, word)
		}
		if cur != nil {
			cur.Raw = append(cur.Raw, t)
		}
	}
	return nil
}

// parseSpecFunc parses "name(a T, b U) R [= body]".
func parseSpecFunc(s string) (*SpecFunc, error) {
	body := ""
	// find top-level " = " after the closing paren of the parameter list
	depth := 0
	close := -1
	for i := 0; i < len(s); i++ {
		if s[i] == '(' {
			depth++
		} else if s[i] == ')' {
			depth--
			if depth == 0 {
				close = i
				break
			}
		}
	}
	if close < 0 {
		return nil, fmt.Errorf("bad spec function %q", s)
	}
	head := s[:close+1]
	tail := strings.TrimSpace(s[close+1:])
	if j := strings.Index(tail, "="); j >= 0 && !strings.HasPrefix(tail[j:], "==") {
		body = strings.TrimSpace(tail[j+1:])
		tail = strings.TrimSpace(tail[:j])
	}
	open := strings.IndexByte(head, '(')
	sf := &SpecFunc{Name: strings.TrimSpace(head[:open]), Result: tail, Src: s}
	params := strings.TrimSpace(head[open+1 : close])
	if params != "" {
		var pending []string
		for _, p := range strings.Split(params, ",") {
			fs := strings.Fields(p)
			switch len(fs) {
			case 1:
				pending = append(pending, fs[0])
			case 2:
				for _, n := range pending {
					sf.Params = append(sf.Params, SVar{n, fs[1]})
				}
				pending = nil
				sf.Params = append(sf.Params, SVar{fs[0], fs[1]})
			default:
				return nil, fmt.Errorf("bad parameter %q", p)
			}
		}
	}
	if body != "" {
		e, err := ParseSpecExpr(body)
		if err != nil {
			return nil, err
		}
		sf.Body = e
		sf.Rec = strings.Contains(body, sf.Name+"(")
	}
	return sf, nil
}

func parseSink(s string) (*SinkRule, error) {
	// <owner> <Method>(<params>) [requires E] [ensures E]
	i := strings.IndexByte(s, ' ')
	if i < 0 {
		return nil, fmt.Errorf("bad sink %q", s)
	}
	// owner may itself contain a space-free "(*T).f"
	owner := s[:i]
	rest := strings.TrimSpace(s[i+1:])
	open := strings.IndexByte(rest, '(')
	close := strings.IndexByte(rest, ')')
	if open < 0 || close < open {
		return nil, fmt.Errorf("bad sink %q", s)
	}
	sr := &SinkRule{Owner: owner, Method: strings.TrimSpace(rest[:open])}
	for _, p := range strings.Split(rest[open+1:close], ",") {
		if p = strings.TrimSpace(p); p != "" {
			sr.Params = append(sr.Params, p)
		}
	}
	tail := strings.TrimSpace(rest[close+1:])
	for tail != "" {
		var kind string
		switch {
		case strings.HasPrefix(tail, "requires "):
			kind = "requires"
		case strings.HasPrefix(tail, "ensures "):
			kind = "ensures"
		default:
			return nil, fmt.Errorf("bad sink tail %q", tail)
		}
		tail = strings.TrimSpace(tail[len(kind):])
		end := len(tail)
		for _, kw := range []string{" requires ", " ensures "} {
			if j := strings.Index(tail, kw); j >= 0 && j < end {
				end = j
			}
		}
		src := strings.TrimSpace(tail[:end])
		e, err := ParseSpecExpr(src)
		if err != nil {
			return nil, err
		}
		c := &Clause{Kind: kind, Src: src, Expr: e}
		if kind == "requires" {
			sr.Req = append(sr.Req, c)
		} else {
			sr.Ens = append(sr.Ens, c)
		}
		tail = strings.TrimSpace(tail[end:])
	}
	return sr, nil
}
