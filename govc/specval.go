package main

// Evaluation of spec expressions to SMT terms in a symbolic state.

import (
	"fmt"
	"sort"
	"net/textproto"
	"os"
	"go/constant"
	"go/types"
	"strconv"
	"strings"

	"golang.org/x/tools/go/ssa"
)

type Env struct {
	x       *Exec
	st      *State
	old     *Env
	vars    map[string]Val
	fr      *Frame
	results []Val
	hasRes  bool
	pkg     *types.Package
	events  []*CallEvent
	eventsUnknown bool
	errs    *[]string
	atPos   int // for local-name disambiguation (token.Pos of the loop)
	loopKey string // the loop whose invariant is being evaluated (for atEntry)
	depth   int
	outer   map[string]Val // entry values of the enclosing function's parameters (closure contracts)
	tfn     *ssa.Function  // the function the clause belongs to (type parameters resolve to its type arguments)
	cur     *Env           // for an old-state environment: the current one (locals are values, not state: old(p.f) reads the old heap at the current p)
}

func (e *Env) fail(format string, a ...interface{}) Val {
	msg := fmt.Sprintf(format, a...)
	if e.errs != nil {
		*e.errs = append(*e.errs, msg)
	} else {
		e.x.note("spec-error: %s", msg)
	}
	return Val{T: e.x.d.Fresh("specerr", "Bool"), Typ: types.Typ[types.Bool]}
}

func (e *Env) child() *Env {
	n := *e
	n.vars = make(map[string]Val, len(e.vars)+2)
	for k, v := range e.vars {
		n.vars[k] = v
	}
	return &n
}

func (x *Exec) evalBool(env *Env, ex SExpr) Term {
	v := env.eval(ex)
	if v.T.Sort != "Bool" {
		env.fail("expression %s is not boolean (sort %s)", exprString(ex), v.T.Sort)
		return x.d.Fresh("specerr", "Bool")
	}
	return v.T
}

func (e *Env) resolveType(name string) types.Type {
	switch {
	case strings.HasPrefix(name, "[]"):
		t := e.resolveType(name[2:])
		if t == nil {
			return nil
		}
		return types.NewSlice(t)
	case strings.HasPrefix(name, "*"):
		t := e.resolveType(name[1:])
		if t == nil {
			return nil
		}
		return types.NewPointer(t)
	}
	if i := strings.IndexByte(name, '.'); i >= 0 {
		pn, tn := name[:i], name[i+1:]
		if p := e.findPackage(pn); p != nil {
			if o := p.Scope().Lookup(tn); o != nil {
				return o.Type()
			}
		}
		return nil
	}
	if o := types.Universe.Lookup(name); o != nil {
		if tn, ok := o.(*types.TypeName); ok {
			return tn.Type()
		}
	}
	// a type parameter of the (instantiated) function under contract
	for _, f := range []*ssa.Function{e.tfn, e.x.fn} {
		if f == nil {
			continue
		}
		f = rootFn(f)
		if o := f.Origin(); o != nil && o.TypeParams() != nil {
			for i := 0; i < o.TypeParams().Len() && i < len(f.TypeArgs()); i++ {
				if o.TypeParams().At(i).Obj().Name() == name {
					return f.TypeArgs()[i]
				}
			}
		}
	}
	if e.pkg != nil {
		if o := e.pkg.Scope().Lookup(name); o != nil {
			if tn, ok := o.(*types.TypeName); ok {
				return tn.Type()
			}
		}
	}
	return nil
}

func (e *Env) findPackage(name string) *types.Package {
	if e.pkg != nil {
		if e.pkg.Name() == name {
			return e.pkg
		}
		for _, imp := range e.pkg.Imports() {
			if imp.Name() == name {
				return imp
			}
		}
	}
	for path, sp := range e.x.L.spkgs {
		_ = path
		if sp.Pkg.Name() == name {
			return sp.Pkg
		}
	}
	return nil
}

func (e *Env) lookupPkgObject(p *types.Package, name string) (Val, bool) {
	o := p.Scope().Lookup(name)
	if o == nil {
		return Val{}, false
	}
	switch o := o.(type) {
	case *types.Const:
		return e.constVal(o.Val(), o.Type()), true
	case *types.Var:
		sp := e.x.L.spkgs[p.Path()]
		if sp == nil {
			return Val{}, false
		}
		g, ok := sp.Members[name].(*ssa.Global)
		if !ok {
			return Val{}, false
		}
		T := g.Type().(*types.Pointer).Elem()
		return e.x.load(e.st, &Loc{Kind: LGlobal, Global: g, Elem: T}, T), true
	case *types.Func:
		sp := e.x.L.spkgs[p.Path()]
		if sp == nil {
			return Val{}, false
		}
		if f := sp.Func(name); f != nil {
			return Val{T: mk("Fn", "mk_Fn", IntLit(int64(e.x.te.FnID(f.String()))), IntLit(0)), Typ: f.Type(), SFn: f}, true
		}
	}
	return Val{}, false
}

func (e *Env) constVal(v constant.Value, T types.Type) Val {
	x := e.x
	switch v.Kind() {
	case constant.Bool:
		return Val{T: BoolLit(constant.BoolVal(v)), Typ: T}
	case constant.String:
		return Val{T: x.te.StrConst(constant.StringVal(v)), Typ: T}
	case constant.Int:
		if isByteType(T) && x.te.ByteBV {
			n, _ := constant.Uint64Val(v)
			return Val{T: BVLit(n, 8), Typ: T}
		}
		if n, ok := constant.Int64Val(v); ok {
			if b, ok := T.Underlying().(*types.Basic); ok && b.Info()&types.IsUntyped != 0 {
				T = types.Typ[types.Int]
			}
			return Val{T: IntLit(n), Typ: T}
		}
		return Val{T: Term{v.ExactString(), "Int"}, Typ: T}
	}
	return Val{T: IntLit(0), Typ: T}
}

// localByName finds the cell of a source-level local (or parameter) by name.
func (e *Env) localByName(name string) (Val, bool) {
	if e.fr == nil {
		return Val{}, false
	}
	want := name
	ord := -1
	if i := strings.IndexByte(name, '#'); i >= 0 {
		want = name[:i]
		ord, _ = strconv.Atoi(name[i+1:])
	}
	var cands []*ssa.Alloc
	for _, b := range e.fr.fn.Blocks {
		for _, in := range b.Instrs {
			if a, ok := in.(*ssa.Alloc); ok && a.Comment == want {
				cands = append(cands, a)
			}
		}
	}
	if len(cands) == 0 {
		// free variable of a closure
		for _, fv := range e.fr.fn.FreeVars {
			if fv.Name() == want {
				if pv, ok := e.fr.vals[fv]; ok {
					T := fv.Type().(*types.Pointer).Elem()
					return e.x.load(e.st, e.x.locOfPointer(e.st, pv, T), T), true
				}
			}
		}
		return Val{}, false
	}
	var pick *ssa.Alloc
	if ord >= 0 && ord < len(cands) {
		pick = cands[ord]
	} else {
		// the latest declaration (by position) that has been executed on this path
		for _, a := range cands {
			if _, ok := e.fr.vals[a]; !ok {
				continue
			}
			if pick == nil || (a.Pos() > pick.Pos() && (e.atPos == 0 || int(a.Pos()) <= e.atPos)) {
				pick = a
			}
		}
	}
	if pick == nil {
		// declared in the function but not (yet) on this path: it reads as
		// the zero value of its type (the convention of the contract language)
		T := cands[0].Type().(*types.Pointer).Elem()
		return Val{T: e.x.te.Zero(T), Typ: T}, true
	}
	pv, ok := e.fr.vals[pick]
	if !ok {
		return Val{}, false
	}
	T := pick.Type().(*types.Pointer).Elem()
	return e.x.load(e.st, e.x.locOfPointer(e.st, pv, T), T), true
}

func (e *Env) eval(ex SExpr) Val {
	x := e.x
	switch n := ex.(type) {
	case SInt:
		return Val{T: IntLit(n.V), Typ: types.Typ[types.Int]}
	case SStr:
		return Val{T: x.te.StrConst(n.V), Typ: types.Typ[types.String]}
	case SBool:
		return Val{T: BoolLit(n.V), Typ: types.Typ[types.Bool]}
	case SNil:
		return Val{Typ: types.Typ[types.UntypedNil]}
	case SIdent:
		return e.evalIdent(n.Name)
	case SOld:
		if e.old != nil {
			// facts recorded while evaluating in the old state (definitions
			// of library terms over old values) are consequences of the
			// library axioms: they hold in the current state's query too
			var base int
			if e.old.st != nil {
				base = len(e.old.st.pc)
			}
			e.old.errs = e.errs
			e.old.cur = e
			v := e.old.eval(n.X)
			if e.old.st != nil && e.st != nil && e.old.st != e.st {
				for _, f := range e.old.st.pc[base:] {
					e.st.assume(f)
				}
			}
			return v
		}
		return e.eval(n.X)
	case SUn:
		v := e.eval(n.X)
		switch n.Op {
		case "!":
			return Val{T: Not(v.T), Typ: v.Typ}
		case "-":
			return Val{T: mk("Int", "-", v.T), Typ: v.Typ}
		case "^":
			if v.T.Sort != "Int" {
				return Val{T: mk(v.T.Sort, "bvnot", v.T), Typ: v.Typ}
			}
			return Val{T: Term{fmt.Sprintf("(- (- %s) 1)", v.T.S), "Int"}, Typ: v.Typ}
		}
	case SBin:
		return e.evalBin(n)
	case SCond:
		c := e.eval(n.C)
		a := e.eval(n.A)
		b := e.eval(n.B)
		a, b = e.unifyNil(a, b)
		return Val{T: Ite(c.T, a.T, b.T), Typ: a.Typ}
	case SQuant:
		ce := e.child()
		var binders []string
		var ranges []Term
		for _, v := range n.Vars {
			T := e.resolveType(v.Type)
			if T == nil {
				return e.fail("unknown type %q in quantifier", v.Type)
			}
			s := x.te.SortOf(T)
			bn := fmt.Sprintf("%s_q%d", v.Name, e.depth)
			binders = append(binders, fmt.Sprintf("(%s %s)", bn, s))
			bt := Term{bn, s}
			ce.vars[v.Name] = Val{T: bt, Typ: T}
			if rf := x.te.RangeFact(T, bt); rf.S != "true" {
				ranges = append(ranges, rf)
			}
		}
		ce.depth = e.depth + 1
		if ce.old != nil {
			// bound variables are visible inside old(...)
			ce.old = ce.old.child()
			for _, v := range n.Vars {
				ce.old.vars[v.Name] = ce.vars[v.Name]
			}
		}
		// facts assumed while evaluating the body must not leak bound names:
		// evaluate on a scratch copy of the state.
		saved := ce.st
		scratch := saved.clone()
		ce.st = scratch
		if ce.old != nil && ce.old.st == saved {
			ce.old = ce.old.child()
			ce.old.st = scratch
		}
		body := x.evalBool(ce, n.Body)
		var extra []Term
		for _, t := range scratch.pc[len(saved.pc):] {
			mentions := false
			for _, b := range binders {
				name := b[1:strings.IndexByte(b, ' ')]
				if strings.Contains(t.S, name) {
					mentions = true
				}
			}
			if mentions {
				// a library/type fact instantiated at a term that mentions the
				// bound variables: it holds for all their values, so it is
				// assumed as a universally quantified fact of its own
				saved.assume(Term{fmt.Sprintf("(forall (%s) %s)", strings.Join(binders, " "), Implies(And(ranges...), t).S), "Bool"})
			} else {
				// a fact about free symbols only: it belongs to the enclosing state
				saved.assume(t)
			}
		}
		q := "exists"
		if n.Forall {
			q = "forall"
			body = Implies(And(append(ranges, extra...)...), body)
		} else {
			body = And(append(append(ranges, extra...), body)...)
		}
		return Val{T: Term{fmt.Sprintf("(%s (%s) %s)", q, strings.Join(binders, " "), body.S), "Bool"}, Typ: types.Typ[types.Bool]}
	case SSel:
		return e.evalSel(n)
	case SIndex:
		return e.evalIndex(n)
	case SSlice:
		v := e.eval(n.X)
		lo := IntLit(0)
		if n.Lo != nil {
			lo = e.eval(n.Lo).T
		}
		if isStringType(v.Typ) {
			hi := x.te.StrLen(v.T)
			if n.Hi != nil {
				hi = e.eval(n.Hi).T
			}
			if x.te.StrSort == "String" {
				return Val{T: Term{fmt.Sprintf("(str.substr %s %s (- %s %s))", v.T.S, lo.S, hi.S, lo.S), "String"}, Typ: v.Typ}
			}
			x.d.DeclareFun("ssub", "(declare-fun ssub (Str Int Int) Str)")
			return Val{T: Term{fmt.Sprintf("(ssub %s %s %s)", v.T.S, lo.S, hi.S), "Str"}, Typ: v.Typ}
		}
		if sl, ok := v.Typ.Underlying().(*types.Slice); ok {
			x.te.SortOf(v.Typ)
			hi := sliceLen(v.T)
			if n.Hi != nil {
				hi = e.eval(n.Hi).T
			}
			return Val{T: x.subSlice(e.st, v.Typ, sl, v.T, lo, hi, sliceCap(v.T)), Typ: v.Typ}
		}
		return e.fail("slice expressions on %s not supported in specs", v.Typ)
	case SCall:
		return e.evalCall(n)
	case SList:
		return e.fail("list literal outside a calls comparison")
	}
	return e.fail("cannot evaluate %s", exprString(ex))
}

func (e *Env) evalIdent(name string) Val {
	x := e.x
	if v, ok := e.vars[name]; ok {
		return v
	}
	switch name {
	case "result":
		if !e.hasRes {
			return e.fail("result used outside ensures")
		}
		if len(e.results) == 1 {
			return e.results[0]
		}
		return Val{Tup: e.results}
	}
	if v, ok := e.localByName(name); ok {
		return v
	}
	if e.pkg != nil {
		if v, ok := e.lookupPkgObject(e.pkg, name); ok {
			return v
		}
	}
	if o := types.Universe.Lookup(name); o != nil {
		if c, ok := o.(*types.Const); ok {
			return e.constVal(c.Val(), c.Type())
		}
	}
	if e.cur != nil {
		if v, ok := e.cur.localByName(name); ok {
			return v
		}
	}
	_ = x
	return e.fail("unknown identifier %q", name)
}

// seqItemType: the Go type of the items of the producer ("yseq:") or consumer
// ("oseq:") sequence of the function under verification.
func (e *Env) seqItemType(pre string) types.Type {
	x := e.x
	fn := x.fn
	if fn == nil {
		return nil
	}
	if pre == "yseq:" {
		// the first parameter of the parameter (or captured variable) named yield
		for _, f := range []*ssa.Function{fn, rootFn(fn)} {
			for _, p := range f.Params {
				if strings.HasPrefix(p.Name(), "yield") {
					if sig, ok := p.Type().Underlying().(*types.Signature); ok && sig.Params().Len() > 0 {
						return sig.Params().At(0).Type()
					}
				}
			}
			for _, p := range f.FreeVars {
				if strings.HasPrefix(p.Name(), "yield") {
					if pt, ok := p.Type().(*types.Pointer); ok {
						if sig, ok := pt.Elem().Underlying().(*types.Signature); ok && sig.Params().Len() > 0 {
							return sig.Params().At(0).Type()
						}
					}
				}
			}
		}
		return nil
	}
	// consumer: the first parameter of a closure created in fn whose result is bool
	var T types.Type
	for _, af := range fn.AnonFuncs {
		if af.Signature.Results().Len() == 1 && len(af.Params) >= 1 {
			T = af.Params[0].Type()
		}
	}
	return T
}

// typedArgs gives untyped nil arguments of a spec-level call the zero value
// of the parameter type (so code and spec build the same term).
func (e *Env) typedArgs(f *ssa.Function, args []Val, skip int) []Val {
	ps := f.Signature.Params()
	for i := range args {
		j := i - skip
		if j < 0 || j >= ps.Len() {
			continue
		}
		if bt, ok := args[i].Typ.(*types.Basic); ok && bt.Kind() == types.UntypedNil {
			T := ps.At(j).Type()
			args[i] = Val{T: e.x.te.Zero(T), Typ: T}
		}
	}
	return args
}

func (e *Env) unifyNil(a, b Val) (Val, Val) {
	x := e.x
	isNil := func(v Val) bool {
		bt, ok := v.Typ.(*types.Basic)
		return ok && bt.Kind() == types.UntypedNil && v.T.IsZero()
	}
	if isNil(a) && !isNil(b) {
		a = Val{T: x.te.Zero(b.Typ), Typ: b.Typ}
	} else if isNil(b) && !isNil(a) {
		b = Val{T: x.te.Zero(a.Typ), Typ: a.Typ}
	}
	return a, b
}

func (e *Env) evalBin(n SBin) Val {
	x := e.x
	boolT := types.Typ[types.Bool]
	switch n.Op {
	case "==>":
		l := x.evalBool(e, n.L)
		if l.S == "false" {
			return Val{T: True, Typ: boolT}
		}
		return Val{T: Implies(l, x.evalBool(e, n.R)), Typ: boolT}
	case "<==>":
		return Val{T: Eq(x.evalBool(e, n.L), x.evalBool(e, n.R)), Typ: boolT}
	case "&&":
		l := x.evalBool(e, n.L)
		if l.S == "false" {
			return Val{T: False, Typ: boolT}
		}
		return Val{T: And(l, x.evalBool(e, n.R)), Typ: boolT}
	case "||":
		l := x.evalBool(e, n.L)
		if l.S == "true" {
			return Val{T: True, Typ: boolT}
		}
		return Val{T: Or(l, x.evalBool(e, n.R)), Typ: boolT}
	}
	// call-log comparisons
	if id, ok := n.L.(SIdent); ok && id.Name == "calls" && (n.Op == "==" || n.Op == "!=") {
		if lst, ok := n.R.(SList); ok {
			t := e.matchCalls(lst)
			if n.Op == "!=" {
				t = Not(t)
			}
			return Val{T: t, Typ: boolT}
		}
	}
	a := e.eval(n.L)
	b := e.eval(n.R)
	a, b = e.unifyNil(a, b)
	if len(a.Tup) > 0 || len(b.Tup) > 0 {
		if len(a.Tup) != len(b.Tup) {
			return e.fail("tuple arity mismatch in %s", exprString(n))
		}
		var cs []Term
		for i := range a.Tup {
			ai, bi := e.unifyNil(a.Tup[i], b.Tup[i])
			cs = append(cs, Eq(x.termOf(e.st, &ai), x.termOf(e.st, &bi)))
		}
		t := And(cs...)
		if n.Op == "!=" {
			t = Not(t)
		}
		return Val{T: t, Typ: boolT}
	}
	at, bt := x.termOf(e.st, &a), x.termOf(e.st, &b)
	// a bit-vector byte against an integer literal
	if strings.HasPrefix(at.Sort, "(_ BitVec") && bt.Sort == "Int" {
		if k, ok := modelInt(bt.S); ok {
			bt = BVLit(uint64(k), 8)
		}
	} else if strings.HasPrefix(bt.Sort, "(_ BitVec") && at.Sort == "Int" {
		if k, ok := modelInt(at.S); ok {
			at = BVLit(uint64(k), 8)
		}
	}
	// slice == nil
	if n.Op == "==" || n.Op == "!=" {
		if _, ok := a.Typ.Underlying().(*types.Slice); ok {
			if _, isNilB := n.R.(SNil); isNilB {
				t := sliceNil(at)
				if n.Op == "!=" {
					t = Not(t)
				}
				return Val{T: t, Typ: boolT}
			}
		}
		// an interface value compared with a concrete value: the concrete
		// one is converted to the interface type first, as in Go
		if at.Sort == "Iface" && bt.Sort != "Iface" && b.Typ != nil && a.Typ != nil {
			bt = x.makeInterface(e.st, b, b.Typ, a.Typ).T
		} else if bt.Sort == "Iface" && at.Sort != "Iface" && a.Typ != nil && b.Typ != nil {
			at = x.makeInterface(e.st, a, a.Typ, b.Typ).T
		}
		t := Eq(at, bt)
		if n.Op == "!=" {
			t = Not(t)
		}
		return Val{T: t, Typ: boolT}
	}
	if isStringType(a.Typ) {
		switch n.Op {
		case "+":
			return Val{T: x.stringBinop(e.st, tokenOf("+"), at, bt), Typ: a.Typ}
		case "<", "<=", ">", ">=":
			return Val{T: x.stringBinop(e.st, tokenOf(n.Op), at, bt), Typ: boolT}
		}
	}
	if at.Sort == "Int" && bt.Sort == "Int" {
		switch n.Op {
		case "+":
			return Val{T: Add(at, bt), Typ: a.Typ}
		case "-":
			return Val{T: Sub(at, bt), Typ: a.Typ}
		case "*":
			return Val{T: mk("Int", "*", at, bt), Typ: a.Typ}
		case "/":
			return Val{T: mk("Int", "div", at, bt), Typ: a.Typ}
		case "%":
			return Val{T: mk("Int", "mod", at, bt), Typ: a.Typ}
		case "<":
			return Val{T: Lt(at, bt), Typ: boolT}
		case "<=":
			return Val{T: Le(at, bt), Typ: boolT}
		case ">":
			return Val{T: Gt(at, bt), Typ: boolT}
		case ">=":
			return Val{T: Ge(at, bt), Typ: boolT}
		case "<<":
			if k, ok := modelInt(bt.S); ok && k >= 0 && k < 63 {
				return Val{T: Term{fmt.Sprintf("(* %s %d)", at.S, int64(1)<<uint(k)), "Int"}, Typ: a.Typ}
			}
		case "&", "|", "^", "&^":
			if p, q, ok := lit2(at, bt); ok && p >= 0 && q >= 0 {
				switch n.Op {
				case "&":
					return Val{T: IntLit(p & q), Typ: a.Typ}
				case "|":
					return Val{T: IntLit(p | q), Typ: a.Typ}
				case "^":
					return Val{T: IntLit(p ^ q), Typ: a.Typ}
				case "&^":
					return Val{T: IntLit(p &^ q), Typ: a.Typ}
				}
			}
			name := map[string]string{"&": "int_and", "|": "int_or", "^": "int_xor", "&^": "int_andnot"}[n.Op]
			x.d.DeclareFun(name, fmt.Sprintf("(declare-fun %s (Int Int) Int)", name))
			return Val{T: mk("Int", name, at, bt), Typ: a.Typ}
		}
	}
	if strings.HasPrefix(at.Sort, "(_ BitVec") {
		if bt.Sort == "Int" {
			if k, ok := modelInt(bt.S); ok {
				bt = BVLit(uint64(k), 8)
			}
		}
		return Val{T: x.bvBinop(tokenOf(n.Op), at, bt, a.Typ), Typ: a.Typ}
	}
	if at.Sort == "Real" || bt.Sort == "Real" {
		switch n.Op {
		case "<":
			return Val{T: Lt(at, bt), Typ: boolT}
		case "<=":
			return Val{T: Le(at, bt), Typ: boolT}
		case ">":
			return Val{T: Gt(at, bt), Typ: boolT}
		case ">=":
			return Val{T: Ge(at, bt), Typ: boolT}
		}
	}
	return e.fail("unsupported operator %s on sorts %s,%s in %s", n.Op, at.Sort, bt.Sort, exprString(n))
}

func (e *Env) evalSel(n SSel) Val {
	// result.N
	if id, ok := n.X.(SIdent); ok {
		if id.Name == "result" {
			if k, err := strconv.Atoi(n.Name); err == nil {
				if k < len(e.results) {
					return e.results[k]
				}
				return e.fail("result.%d out of range", k)
			}
		}
		if _, isVar := e.vars[id.Name]; !isVar {
			if _, isLocal := e.localByName(id.Name); !isLocal {
				if p := e.findPackage(id.Name); p != nil && (e.pkg == nil || e.pkg.Scope().Lookup(id.Name) == nil) {
					if v, ok := e.lookupPkgObject(p, n.Name); ok {
						return v
					}
					return e.fail("unknown object %s.%s", id.Name, n.Name)
				}
			}
		}
	}
	v := e.eval(n.X)
	if k, err := strconv.Atoi(n.Name); err == nil {
		if k < len(v.Tup) {
			return v.Tup[k]
		}
		return e.fail("tuple index %d out of range in %s", k, exprString(n))
	}
	if n.Name == "result" && v.Org == "callevent" {
		if len(v.Tup) == 1 {
			return v.Tup[0]
		}
		return Val{Tup: v.Tup}
	}
	if n.Name == "arg" && v.Org == "callevent" {
		// calls[i].arg.k: the k-th argument of the logged call (a method's
		// receiver is argument 0); fields read through it are read in the
		// state in which the call was made
		tup := make([]Val, len(v.Elems))
		for i, a := range v.Elems {
			a.From = v.From
			a.Org = "callarg"
			tup[i] = a
		}
		return Val{Tup: tup}
	}
	if v.Typ == nil {
		return e.fail("selector on untyped value in %s", exprString(n))
	}
	return e.selectField(v, n.Name, exprString(n))
}

// selectField follows (possibly embedded) fields, dereferencing pointers.
func (e *Env) selectField(v Val, name, src string) Val {
	x := e.x
	if v.Org == "callarg" && v.From != nil && v.From.Snap != nil && e.st != v.From.Snap {
		e2 := e.child()
		e2.st = v.From.Snap
		v2 := v
		v2.Org = ""
		r := e2.selectField(v2, name, src)
		// definitional facts recorded in the snapshot hold in the query too
		return r
	}
	obj, index, _ := types.LookupFieldOrMethod(v.Typ, true, e.pkg, name)
	if obj == nil && e.pkg != nil {
		// unexported field of another package of the repo
		for _, sp := range x.L.spkgs {
			if o, idx, _ := types.LookupFieldOrMethod(v.Typ, true, sp.Pkg, name); o != nil {
				obj, index = o, idx
				break
			}
		}
	}
	fld, ok := obj.(*types.Var)
	if !ok || !fld.IsField() {
		return e.fail("no field %q in %s (%s)", name, v.Typ, src)
	}
	cur := v
	for _, idx := range index {
		T := cur.Typ
		if p, ok := T.Underlying().(*types.Pointer); ok {
			ST := p.Elem()
			if cur.Loc != nil {
				sv := x.load(e.st, cur.Loc, ST)
				si := x.te.Struct(ST)
				cur = Val{T: si.Get(sv.T, idx), Typ: si.FTypes[idx]}
				continue
			}
			si := x.te.Struct(ST)
			key, sort := x.fieldComp(si, idx)
			cur = Val{T: Select(x.heapGet(e.st, key, sort), cur.T), Typ: si.FTypes[idx], Org: "field:" + x.fieldKey(ST, idx)}
			continue
		}
		si := x.te.Struct(T)
		cur = Val{T: si.Get(cur.T, idx), Typ: si.FTypes[idx], Org: "field:" + x.fieldKey(T, idx)}
	}
	return cur
}

func (e *Env) evalIndex(n SIndex) Val {
	x := e.x
	if id, ok := n.X.(SIdent); ok && id.Name == "calls" {
		iv, ok := n.I.(SInt)
		if c, isCall := n.I.(SCall); isCall && !ok {
			// calls[lastOf("Name")]: the last logged call of that method or function
			if f, isId := c.Fun.(SIdent); isId && f.Name == "lastOf" && len(c.Args) == 1 {
				if lit, isLit := c.Args[0].(SStr); isLit {
					iv, ok = SInt{V: int64(len(e.events))}, true
					for i, ev := range e.events {
						if ev.named(lit.V) {
							iv.V = int64(i)
						}
					}
				}
			}
		}
		if !ok {
			return e.fail("calls index must be a literal or lastOf(\"Name\")")
		}
		if e.eventsUnknown {
			return e.fail("calls[...] where the call log is not available")
		}
		if int(iv.V) >= len(e.events) {
			// no such event on this path: any claim about it is vacuous only
			// under a false antecedent; give an unconstrained value
			return Val{Org: "callevent-missing", Tup: nil, T: x.d.Fresh("noevent", "Bool")}
		}
		ev := e.events[iv.V]
		return Val{Org: "callevent", Tup: ev.Results, Elems: ev.Args, From: ev}
	}
	v := e.eval(n.X)
	i := e.eval(n.I)
	if v.Typ == nil {
		return e.fail("index on untyped value")
	}
	switch u := v.Typ.Underlying().(type) {
	case *types.Slice:
		x.te.SortOf(v.Typ)
		return Val{T: Select(sliceArr(v.T), i.T), Typ: u.Elem()}
	case *types.Array:
		return Val{T: Select(v.T, i.T), Typ: u.Elem()}
	case *types.Map:
		// as in Go: the element if the key is present, else the zero value
		hk, hs, vk, vs := x.mapComps(u)
		has := x.heapGet(e.st, hk, hs)
		val := x.heapGet(e.st, vk, vs)
		kt := x.termOf(e.st, &i)
		present := And(Not(Eq(v.T, IntLit(0))), Select(Select(has, v.T), kt))
		return Val{T: Ite(present, Select(Select(val, v.T), kt), x.te.Zero(u.Elem())), Typ: u.Elem()}
	case *types.Basic:
		if u.Info()&types.IsString != 0 {
			if x.te.StrSort == "String" {
				return Val{T: Term{fmt.Sprintf("(str.to_code (str.at %s %s))", v.T.S, i.T.S), "Int"}, Typ: types.Typ[types.Byte]}
			}
			x.d.DeclareFun("sat", "(declare-fun sat (Str Int) Int)")
			return Val{T: Term{fmt.Sprintf("(sat %s %s)", v.T.S, i.T.S), "Int"}, Typ: types.Typ[types.Byte]}
		}
	}
	return e.fail("cannot index %s", v.Typ)
}

// matchCalls builds the condition "the call log is exactly this list".
func (e *Env) matchCalls(lst SList) Term {
	x := e.x
	if e.eventsUnknown {
		return x.d.Fresh("calls_unknown", "Bool")
	}
	if len(lst.Elems) != len(e.events) {
		if os.Getenv("GOVC_DEBUG_CALLS") != "" {
			var ds []string
			for _, ev := range e.events {
				ds = append(ds, ev.Kind+":"+ev.Desc)
			}
			x.note("calls mismatch: spec has %d, log has [%s]", len(lst.Elems), strings.Join(ds, "; "))
		}
		return False
	}
	var conds []Term
	for i, el := range lst.Elems {
		c, ok := el.(SCall)
		if !ok {
			e.fail("calls list element must be a call: %s", exprString(el))
			return False
		}
		ev := e.events[i]
		conds = append(conds, e.matchEvent(ev, c))
	}
	return And(conds...)
}

func (e *Env) matchEvent(ev *CallEvent, c SCall) Term {
	x := e.x
	var conds []Term
	fun := c.Fun
	if sel, ok := fun.(SSel); ok {
		if id, ok := sel.X.(SIdent); ok {
			if _, isVar := e.vars[id.Name]; !isVar {
				if _, isLocal := e.localByName(id.Name); !isLocal && e.findPackage(id.Name) != nil && (e.pkg == nil || e.pkg.Scope().Lookup(id.Name) == nil) {
					// pkg.Func(...): a package-level function, not a method call
					fun = SIdent{Name: "\x00pkgfunc"}
				}
			}
		}
	}
	switch f := fun.(type) {
	case SSel:
		// method on an interface value / static method on a receiver / func-typed field
		recv := e.eval(f.X)
		if recv.Typ != nil {
			// func-typed field?
			if obj, _, _ := types.LookupFieldOrMethod(recv.Typ, true, e.pkg, f.Name); obj != nil {
				if fv, ok := obj.(*types.Var); ok && fv.IsField() {
					fn := e.selectField(recv, f.Name, exprString(f))
					if ev.Kind != "fn" {
						return False
					}
					conds = append(conds, Eq(ev.FnTerm, fn.T))
					break
				}
			}
		}
		switch ev.Kind {
		case "invoke":
			if ev.Method != f.Name {
				return False
			}
			conds = append(conds, Eq(ev.Recv, x.termOf(e.st, &recv)))
		case "static":
			if ev.Static == nil || ev.Static.Name() != f.Name {
				return False
			}
			if len(ev.Args) > 0 && ev.Static.Signature.Recv() != nil {
				conds = append(conds, Eq(x.termOf(e.st, &ev.Args[0]), x.termOf(e.st, &recv)))
				ev = &CallEvent{Kind: ev.Kind, Args: ev.Args[1:], Results: ev.Results}
			}
		default:
			return False
		}
	default:
		fv := e.eval(c.Fun)
		switch ev.Kind {
		case "fn":
			conds = append(conds, Eq(ev.FnTerm, fv.T))
		case "static":
			if fv.SFn == nil || ev.Static == nil || (fv.SFn != ev.Static && fv.SFn != ev.Static.Origin()) {
				return False
			}
		default:
			return False
		}
	}
	if len(c.Args) != len(ev.Args) {
		return False
	}
	for i, a := range c.Args {
		if id, ok := a.(SIdent); ok && id.Name == "_" {
			continue
		}
		av := e.eval(a)
		ea := ev.Args[i]
		av, ea = e.unifyNil(av, ea)
		at, et := x.termOf(e.st, &av), x.termOf(e.st, &ea)
		if at.Sort != et.Sort {
			e.fail("argument %d sort mismatch in %s: %s vs %s", i, exprString(c), at.Sort, et.Sort)
			return False
		}
		conds = append(conds, Eq(at, et))
	}
	return And(conds...)
}

func (e *Env) evalCall(n SCall) Val {
	x := e.x
	boolT := types.Typ[types.Bool]
	if id, ok := n.Fun.(SIdent); ok {
		switch id.Name {
		case "len":
			v := e.eval(n.Args[0])
			if v.Org == "calls" {
				return Val{T: IntLit(int64(len(e.events))), Typ: types.Typ[types.Int]}
			}
			if v.Typ == nil {
				return e.fail("len of untyped value")
			}
			switch u := v.Typ.Underlying().(type) {
			case *types.Slice:
				return Val{T: sliceLen(v.T), Typ: types.Typ[types.Int]}
			case *types.Basic:
				return Val{T: x.te.StrLen(v.T), Typ: types.Typ[types.Int]}
			case *types.Map:
				return Val{T: x.mapLen(e.st, v.T, u), Typ: types.Typ[types.Int]}
			case *types.Array:
				return Val{T: IntLit(u.Len()), Typ: types.Typ[types.Int]}
			}
			return e.fail("len of %s", v.Typ)
		case "hasPrefix", "hasSuffix", "contains", "trimPrefix", "trimSuffix", "indexOf":
			if x.te.StrSort != "String" || len(n.Args) != 2 {
				return e.fail("%s needs seq string mode and two arguments", id.Name)
			}
			a, b := e.eval(n.Args[0]), e.eval(n.Args[1])
			switch id.Name {
			case "hasPrefix":
				return Val{T: mk("Bool", "str.prefixof", b.T, a.T), Typ: boolT}
			case "hasSuffix":
				return Val{T: mk("Bool", "str.suffixof", b.T, a.T), Typ: boolT}
			case "contains":
				return Val{T: mk("Bool", "str.contains", a.T, b.T), Typ: boolT}
			case "indexOf":
				return Val{T: Term{fmt.Sprintf("(str.indexof %s %s 0)", a.T.S, b.T.S), "Int"}, Typ: types.Typ[types.Int]}
			case "trimPrefix":
				return Val{T: Term{fmt.Sprintf("(ite (str.prefixof %s %s) (str.substr %s (str.len %s) (- (str.len %s) (str.len %s))) %s)", b.T.S, a.T.S, a.T.S, b.T.S, a.T.S, b.T.S, a.T.S), "String"}, Typ: a.Typ}
			case "trimSuffix":
				return Val{T: Term{fmt.Sprintf("(ite (str.suffixof %s %s) (str.substr %s 0 (- (str.len %s) (str.len %s))) %s)", b.T.S, a.T.S, a.T.S, a.T.S, b.T.S, a.T.S), "String"}, Typ: a.Typ}
			}
		case "errAs":
			// errAs(err, T): the first value of type T in err's chain (what
			// errors.As(err, &target) stores), or the zero value
			v := e.eval(n.Args[0])
			var T types.Type
			switch a := n.Args[1].(type) {
			case SIdent:
				T = e.resolveType(a.Name)
			case SSel:
				if id, ok := a.X.(SIdent); ok {
					T = e.resolveType(id.Name + "." + a.Name)
				}
			case SStr:
				T = e.resolveType(a.V)
			}
			if T == nil {
				return e.fail("errAs: unknown type %s", exprString(n.Args[1]))
			}
			return x.errAsTerm(e.st, v, T)
		case "header":
			if lit, ok := n.Args[0].(SStr); ok {
				return Val{T: e.respHeader(lit.V), Typ: types.Typ[types.String]}
			}
			return e.fail("header() needs a literal name")
		case "status":
			return Val{T: e.respStatus(), Typ: types.Typ[types.Int]}
		case "bodyLen":
			if t, ok := e.respBodyLen(); ok {
				return Val{T: t, Typ: types.Typ[types.Int]}
			}
			return Val{T: x.d.Fresh("bodylen", "Int"), Typ: types.Typ[types.Int]}
		case "bodyCopied":
			for _, ev := range e.st.resp {
				if ev.Kind == "bodycopy" {
					return Val{T: True, Typ: boolT}
				}
			}
			return Val{T: False, Typ: boolT}
		case "copied":
			// copied(dst, src): io.Copy(dst, src) ran on this path
			dst := e.eval(n.Args[0])
			src := e.eval(n.Args[1])
			var alts []Term
			for _, ev := range e.st.resp {
				if ev.Kind == "bodycopy" && ev.KeyT.Sort == dst.T.Sort && ev.Val.Sort == src.T.Sort {
					alts = append(alts, And(Eq(ev.KeyT, dst.T), Eq(ev.Val, src.T)))
				}
			}
			return Val{T: Or(alts...), Typ: boolT}
		case "itoa":
			v := e.eval(n.Args[0])
			return x.itoa(e.st, v.T)
		case "outer":
			// outer(p): the entry value of parameter p of the enclosing
			// (outermost) function, in the contract of a closure
			if id, ok := n.Args[0].(SIdent); ok {
				if v, ok := e.outer[id.Name]; ok {
					return v
				}
				if v, ok := x.outerGhost(e.st, id.Name); ok {
					return v
				}
			}
			return e.fail("outer(): no such parameter of the enclosing function: %s", exprString(n.Args[0]))
		case "zero":
			if id, ok := n.Args[0].(SIdent); ok {
				if T := e.resolveType(id.Name); T != nil {
					return Val{T: x.te.Zero(T), Typ: T}
				}
			}
			if sel, ok := n.Args[0].(SSel); ok {
				if id, ok := sel.X.(SIdent); ok {
					if T := e.resolveType(id.Name + "." + sel.Name); T != nil {
						return Val{T: x.te.Zero(T), Typ: T}
					}
				}
			}
			return e.fail("zero(): unknown type %s", exprString(n.Args[0]))
		case "ncalls":
			if e.eventsUnknown {
				return Val{T: x.d.Fresh("ncalls", "Int"), Typ: types.Typ[types.Int]}
			}
			return Val{T: IntLit(int64(len(e.events))), Typ: types.Typ[types.Int]}
		case "errIs":
			a := e.eval(n.Args[0])
			b := e.eval(n.Args[1])
			return Val{T: x.errIs(a.T, b.T), Typ: boolT}
		case "in":
			m := e.eval(n.Args[0])
			k := e.eval(n.Args[1])
			mt, ok := m.Typ.Underlying().(*types.Map)
			if !ok {
				return e.fail("in() on non-map")
			}
			hk, hs, _, _ := x.mapComps(mt)
			has := x.heapGet(e.st, hk, hs)
			return Val{T: And(Not(Eq(m.T, IntLit(0))), Select(Select(has, m.T), x.termOf(e.st, &k))), Typ: boolT}
		case "hdr":
			// hdr(h, "Name"): what h.Get("Name") returns for a header map h (not the ghost response's)
			h := e.eval(n.Args[0])
			lit, ok := n.Args[1].(SStr)
			if !ok || h.Typ == nil {
				return e.fail("hdr(h, \"Name\") needs a header map and a literal name")
			}
			mt, isMap := h.Typ.Underlying().(*types.Map)
			if !isMap {
				return e.fail("hdr(): not a header map")
			}
			x.te.SortOf(mt.Elem())
			hk, hs, vk, vs := x.mapComps(mt)
			has := x.heapGet(e.st, hk, hs)
			val := x.heapGet(e.st, vk, vs)
			k := StrLit(textproto.CanonicalMIMEHeaderKey(lit.V))
			present := And(Not(Eq(h.T, IntLit(0))), Select(Select(has, h.T), k))
			lst := Select(Select(val, h.T), k)
			return Val{T: Ite(And(present, Gt(sliceLen(lst), IntLit(0))), Select(sliceArr(lst), IntLit(0)), StrLit("")), Typ: types.Typ[types.String]}
		case "yielded":
			// yielded(): how many items this producer has handed to its consumer so far
			if t, ok := e.st.ghost["ycnt"]; ok {
				return Val{T: t, Typ: types.Typ[types.Int]}
			}
			return Val{T: IntLit(0), Typ: types.Typ[types.Int]}
		case "yieldedAt", "offeredAt":
			pre := "yseq:"
			if id.Name == "offeredAt" {
				pre = "oseq:"
			}
			i := e.eval(n.Args[0])
			T := e.seqItemType(pre)
			for k, seq := range e.st.ghost {
				if strings.HasPrefix(k, pre) {
					return Val{T: Select(seq, i.T), Typ: T}
				}
			}
			if T != nil {
				// nothing yielded/offered yet on this path: the (empty) sequence
				var seq Term
				if pre == "yseq:" {
					_, seq = x.yieldGhost(e.st, x.te.SortOf(T))
				} else {
					_, seq = x.offerGhost(e.st, x.te.SortOf(T))
				}
				return Val{T: Select(seq, i.T), Typ: T}
			}
			return e.fail("%s(): no item sequence in this function", id.Name)
		case "yieldedErr":
			if t, ok := e.st.ghost["yerr"]; ok {
				return Val{T: t, Typ: types.Universe.Lookup("error").Type()}
			}
			return Val{T: NilIface, Typ: types.Universe.Lookup("error").Type()}
		case "offered":
			if t, ok := e.st.ghost["ocnt"]; ok {
				return Val{T: t, Typ: types.Typ[types.Int]}
			}
			return Val{T: IntLit(0), Typ: types.Typ[types.Int]}
		case "stopped":
			return Val{T: e.st.stopped, Typ: boolT}
		case "b64dec":
			enc := e.eval(n.Args[0])
			s := e.eval(n.Args[1])
			x.d.DeclareFun("b64dec", "(declare-fun b64dec (Int String) String)")
			return Val{T: mk("String", "b64dec", enc.T, s.T), Typ: types.Typ[types.String]}
		case "memberOf":
			// memberOf(s, v): v occurs in the slice s
			sv := e.eval(n.Args[0])
			vv := e.eval(n.Args[1])
			if sv.Typ == nil {
				return e.fail("memberOf: untyped slice")
			}
			x.te.SortOf(sv.Typ)
			x.memFacts(e.st, sliceArr(sv.T), sliceLen(sv.T))
			return Val{T: x.memTerm(sliceArr(sv.T), sliceLen(sv.T), x.termOf(e.st, &vv)), Typ: boolT}
		case "basicAuth":
			u := e.eval(n.Args[0])
			p := e.eval(n.Args[1])
			x.d.DeclareFun("basicAuth", "(declare-fun basicAuth (String String) String)")
			return Val{T: mk("String", "str.++", StrLit("Basic "), mk("String", "basicAuth", u.T, p.T)), Typ: types.Typ[types.String]}
		case "closed":
			// closed(v): Close was called on the reader/closer v along this path
			v := e.eval(n.Args[0])
			if v.T.Sort != "Iface" {
				return e.fail("closed() needs an interface value")
			}
			var keys []string
			for k := range e.st.ghost {
				if strings.HasPrefix(k, "closedv:") {
					keys = append(keys, k)
				}
			}
			sort.Strings(keys)
			r := False
			for _, k := range keys {
				r = Or(r, Eq(v.T, e.st.ghost[k]))
			}
			return Val{T: r, Typ: types.Typ[types.Bool]}
		case "ncallsAfter":
			// ncallsAfter("A", "B"): how many calls of B were logged after the last call of A (0 if A was never called)
			la, ok1 := n.Args[0].(SStr)
			lb, ok2 := n.Args[1].(SStr)
			if !ok1 || !ok2 {
				return e.fail("ncallsAfter needs two literal names")
			}
			if e.eventsUnknown {
				return Val{T: x.d.Fresh("ncalls", "Int"), Typ: types.Typ[types.Int]}
			}
			k, seen := 0, false
			for _, ev := range e.events {
				if ev.named(la.V) {
					k, seen = 0, true
				} else if seen && ev.named(lb.V) {
					k++
				}
			}
			return Val{T: IntLit(int64(k)), Typ: types.Typ[types.Int]}
		case "ncallsOf":
			// ncallsOf("Method"): how many logged calls of that method (or function) name
			lit, ok := n.Args[0].(SStr)
			if !ok {
				return e.fail("ncallsOf needs a literal name")
			}
			if e.eventsUnknown {
				return Val{T: x.d.Fresh("ncalls", "Int"), Typ: types.Typ[types.Int]}
			}
			k := 0
			for _, ev := range e.events {
				if ev.named(lit.V) {
					k++
				}
			}
			return Val{T: IntLit(int64(k)), Typ: types.Typ[types.Int]}
		case "copyErr":
			// copyErr(): the error returned by the last io.Copy on this path (nil if none ran)
			if t, ok := e.st.ghost["copyerr"]; ok {
				return Val{T: t, Typ: types.Universe.Lookup("error").Type()}
			}
			return Val{T: NilIface, Typ: types.Universe.Lookup("error").Type()}
		case "hashed":
			// hashed(h): ghost string of all bytes written to the hash.Hash h
			h := e.eval(n.Args[0])
			if h.T.Sort != "Iface" {
				return e.fail("hashed() needs a hash.Hash")
			}
			gh := x.heapGet(e.st, "GH_hashed", "(Array Int String)")
			return Val{T: Select(gh, Term{fmt.Sprintf("(ival %s)", h.T.S), "Int"}), Typ: types.Typ[types.String]}
		case "atEntry":
			// atEntry(E), in a loop invariant: the value E had when the loop was entered
			snap := e.st.loopEntries[e.loopKey]
			if snap == nil {
				return e.fail("atEntry() outside a loop invariant")
			}
			saved := e.st
			e.st = snap
			v := e.eval(n.Args[0])
			e.st = saved
			return v
		case "untouched":
			// untouched(p): nothing in this function (or the callees executed in place) appends onto a
			// shortened view of the slice parameter p, which - capacity allowing - would overwrite
			// bytes the caller still sees. (Element stores and copy() change the value of p itself
			// and show in string(p) == old(string(p)).)
			id, ok := n.Args[0].(SIdent)
			if !ok {
				return e.fail("untouched() needs a parameter name")
			}
			if t, ok := e.st.ghost["clobber:"+id.Name]; ok {
				return Val{T: Not(t), Typ: boolT}
			}
			return Val{T: True, Typ: boolT}
		case "unread":
			// unread(rd): the bytes the io.Reader rd still holds (what reading it to the end yields)
			v := e.eval(n.Args[0])
			if v.T.Sort != "Iface" {
				return e.fail("unread() needs an io.Reader")
			}
			rb := x.heapGet(e.st, "GH_rbytes", "(Array Int String)")
			return Val{T: Select(rb, Term{fmt.Sprintf("(ival %s)", v.T.S), "Int"}), Typ: types.Typ[types.String]}
		case "bodyBytes":
			// bodyBytes(req): the bytes the request built by http.NewRequestWithContext will send
			// (what its body reader holds, when known)
			v := e.eval(n.Args[0])
			gb := x.heapGet(e.st, "GH_reqbody", "(Array Int String)")
			return Val{T: Select(gb, v.T), Typ: types.Typ[types.String]}
		case "ownCopy":
			// ownCopy(v): the slice held in local variable v has a backing array that this function
			// allocated itself (make, append to a nil literal, io.ReadAll): it is shared with nobody,
			// in particular not with a caller's buffer. Decided from the provenance of the value on this path.
			id, ok := n.Args[0].(SIdent)
			if !ok {
				return e.fail("ownCopy() needs the name of a local variable")
			}
			v, ok := e.localByName(id.Name)
			if !ok {
				return e.fail("ownCopy(%s): no such local", id.Name)
			}
			return Val{T: BoolLit(v.Fresh), Typ: types.Typ[types.Bool]}
		case "built":
			// built(b): the text written so far to the strings.Builder held in the local or captured variable b
			id, ok := n.Args[0].(SIdent)
			if !ok {
				return e.fail("built() needs the name of a strings.Builder variable")
			}
			var cell *Cell
			if c, ok := x.fvCells[id.Name]; ok {
				cell = c
			} else if v, ok := e.localByName(id.Name); ok && v.Src != nil && v.Src.Kind == LCell {
				cell = v.Src.Cell
			}
			if cell == nil {
				return e.fail("built(%s): not a builder variable of this function", id.Name)
			}
			if t, ok := e.st.ghost[fmt.Sprintf("sb:%d", cell.id)]; ok {
				return Val{T: t, Typ: types.Typ[types.String]}
			}
			return Val{T: StrLit(""), Typ: types.Typ[types.String]}
		case "jsonDoc":
			// jsonDoc(data): the bytes are exactly one well-formed JSON document (what json.Unmarshal accepts)
			v := e.eval(n.Args[0])
			if x.te.StrSort != "String" || x.te.ByteBV {
				return e.fail("jsonDoc needs SMT strings")
			}
			as := x.bytesAsStrings(e.st, []Val{v})
			if as[0].T.Sort != "String" {
				return e.fail("jsonDoc needs bytes or a string")
			}
			x.d.DeclareFun("jsonDoc", "(declare-fun jsonDoc (String) Bool)")
			return Val{T: Term{"(jsonDoc " + as[0].T.S + ")", "Bool"}, Typ: types.Typ[types.Bool]}
		case "hashAlg":
			// hashAlg(h): the algorithm the hash.Hash h was created for (ghost)
			h := e.eval(n.Args[0])
			if h.T.Sort != "Iface" {
				return e.fail("hashAlg() needs a hash.Hash")
			}
			ga := x.heapGet(e.st, "GH_hashalg", "(Array Int String)")
			T := lookupType(x.L, "digest", "Algorithm")
			if T == nil {
				T = types.Typ[types.String]
			}
			return Val{T: Select(ga, Term{fmt.Sprintf("(ival %s)", h.T.S), "Int"}), Typ: T}
		case "digestOf":
			a := e.eval(n.Args[0])
			s := e.eval(n.Args[1])
			T := lookupType(x.L, "ociregistry", "Digest")
			if T == nil {
				return e.fail("digestOf: ociregistry.Digest not loaded")
			}
			return x.digestOf(e.st, a.T, s.T, T)
		case "visited":
			// visited(m, k): the range over map m in progress has already
			// produced key k (ghost state of the iteration)
			m := e.eval(n.Args[0])
			k := e.eval(n.Args[1])
			for gk, mref := range e.st.ghost {
				if strings.HasPrefix(gk, "vismap:") && mref.S == m.T.S {
					vis := e.st.ghost["vis:"+strings.TrimPrefix(gk, "vismap:")]
					return Val{T: Select(vis, x.termOf(e.st, &k)), Typ: boolT}
				}
			}
			return e.fail("visited(): no range over %s is in progress", exprString(n.Args[0]))
		case "exhausted":
			// exhausted(m): the range over map m has been told by the runtime that there are no more keys
			// (false while the iteration is in progress, and after leaving it by break or goto)
			m := e.eval(n.Args[0])
			for gk, mref := range e.st.ghost {
				if strings.HasPrefix(gk, "vismap:") && mref.S == m.T.S {
					if d, ok := e.st.ghost["visdone:"+strings.TrimPrefix(gk, "vismap:")]; ok {
						return Val{T: d, Typ: boolT}
					}
					return Val{T: False, Typ: boolT}
				}
			}
			return e.fail("exhausted(): no range over %s was started", exprString(n.Args[0]))
		case "typeIs":
			v := e.eval(n.Args[0])
			tn, ok := n.Args[1].(SIdent)
			var T types.Type
			if ok {
				T = e.resolveType(tn.Name)
			} else if s, ok := n.Args[1].(SStr); ok {
				T = e.resolveType(s.V)
			}
			if T == nil {
				return e.fail("typeIs: unknown type")
			}
			return Val{T: Term{fmt.Sprintf("(= (itag %s) %d)", v.T.S, x.te.TagOf(T)), "Bool"}, Typ: boolT}
		case "held":
			// held(r.mu): the ghost lock set contains the mutex location
			key := e.lockKey(n.Args[0])
			for _, h := range e.st.held {
				if h == key {
					return Val{T: True, Typ: boolT}
				}
			}
			return Val{T: False, Typ: boolT}
		case "int", "int64", "int32", "uint8", "byte", "uint", "uint64", "uint32", "int8", "int16", "uint16":
			v := e.eval(n.Args[0])
			T := types.Universe.Lookup(id.Name).Type()
			return x.convert(e.st, v, v.Typ, T)
		case "string":
			v := e.eval(n.Args[0])
			return x.convert(e.st, v, v.Typ, types.Typ[types.String])
		}
		if sf, ok := x.cs.Specs[id.Name]; ok {
			return e.applySpecFunc(sf, n.Args)
		}
		// a local func-typed value or package function used as a pure function
		if v, ok := e.vars[id.Name]; ok && v.Typ != nil {
			if _, isSig := v.Typ.Underlying().(*types.Signature); isSig {
				return e.applyFnValue(v, n.Args)
			}
		}
		if e.pkg != nil {
			if o, ok := e.pkg.Scope().Lookup(id.Name).(*types.Func); ok {
				sp := x.L.spkgs[e.pkg.Path()]
				if f := sp.Func(o.Name()); f != nil {
					var args []Val
					for _, a := range n.Args {
						args = append(args, e.eval(a))
					}
					return x.pureApp(e.st, f, e.typedArgs(f, args, 0))
				}
			}
			// conversion to a named type of the package
			if tn, ok := e.pkg.Scope().Lookup(id.Name).(*types.TypeName); ok && len(n.Args) == 1 {
				v := e.eval(n.Args[0])
				if v.Typ == nil {
					v.Typ = tn.Type()
				}
				return x.convert(e.st, v, v.Typ, tn.Type())
			}
		}
		if v, ok := e.localByName(id.Name); ok && v.Typ != nil {
			if _, isSig := v.Typ.Underlying().(*types.Signature); isSig {
				return e.applyFnValue(v, n.Args)
			}
		}
		return e.fail("unknown function %q", id.Name)
	}
	if sel, ok := n.Fun.(SSel); ok {
		// pkg.Func(...)
		if id, ok := sel.X.(SIdent); ok {
			if _, isVar := e.vars[id.Name]; !isVar {
				if _, isLocal := e.localByName(id.Name); !isLocal {
					if p := e.findPackage(id.Name); p != nil {
						if sp := x.L.spkgs[p.Path()]; sp != nil {
							if f := sp.Func(sel.Name); f != nil {
								var args []Val
								for _, a := range n.Args {
									args = append(args, e.eval(a))
								}
								return x.pureApp(e.st, f, e.typedArgs(f, args, 0))
							}
						}
						if sf, ok := x.cs.Specs[sel.Name]; ok && sf.Pkg == p.Path() {
							return e.applySpecFunc(sf, n.Args)
						}
						if tn, ok := p.Scope().Lookup(sel.Name).(*types.TypeName); ok && len(n.Args) == 1 {
							v := e.eval(n.Args[0])
							if v.Typ == nil {
								v.Typ = tn.Type()
							}
							return x.convert(e.st, v, v.Typ, tn.Type())
						}
						return e.fail("unknown function %s.%s", id.Name, sel.Name)
					}
				}
			}
		}
		recv := e.eval(sel.X)
		if recv.Typ == nil {
			return e.fail("method call on untyped value: %s", exprString(n))
		}
		// func-typed field call
		if obj, _, _ := types.LookupFieldOrMethod(recv.Typ, true, e.pkg, sel.Name); obj != nil {
			if fv, ok := obj.(*types.Var); ok && fv.IsField() {
				fn := e.selectField(recv, sel.Name, exprString(sel))
				return e.applyFnValue(fn, n.Args)
			}
		}
		// method used as a pure function
		ms := x.L.prog.MethodSets.MethodSet(recv.Typ)
		msel := ms.Lookup(e.pkg, sel.Name)
		if msel == nil {
			ms = x.L.prog.MethodSets.MethodSet(types.NewPointer(recv.Typ))
			msel = ms.Lookup(e.pkg, sel.Name)
		}
		if msel == nil {
			for _, sp := range x.L.spkgs {
				if m := x.L.prog.MethodSets.MethodSet(recv.Typ).Lookup(sp.Pkg, sel.Name); m != nil {
					msel = m
					break
				}
			}
		}
		if msel != nil {
			if f := x.L.prog.MethodValue(msel); f != nil {
				args := []Val{recv}
				for _, a := range n.Args {
					args = append(args, e.eval(a))
				}
				return x.pureApp(e.st, f, e.typedArgs(f, args, 1))
			}
		}
		// interface method as uninterpreted function of receiver and args
		if _, isIface := recv.Typ.Underlying().(*types.Interface); isIface {
			args := []Val{recv}
			for _, a := range n.Args {
				args = append(args, e.eval(a))
			}
			obj, _, _ := types.LookupFieldOrMethod(recv.Typ, true, e.pkg, sel.Name)
			if fo, ok := obj.(*types.Func); ok {
				sig := fo.Type().(*types.Signature)
				if sig.Results().Len() == 1 {
					if x.cs.IfacePure[sel.Name] {
						return x.uninterp(e.st, "im_"+sel.Name, args, sig.Results().At(0).Type())
					}
					return x.uninterp(e.st, "im_"+sanitize(shortTypeName(recv.Typ))+"_"+sel.Name, args, sig.Results().At(0).Type())
				}
			}
		}
		return e.fail("cannot resolve method %s", exprString(n))
	}
	// call of an arbitrary func-valued expression (e.g. old(f.X)(...))
	fv := e.eval(n.Fun)
	return e.applyFnValue(fv, n.Args)
}

// applyFnValue: application of a func value as a pure uninterpreted function
// of (function identity, arguments).
func (e *Env) applyFnValue(fn Val, argExprs []SExpr) Val {
	x := e.x
	sig, ok := fn.Typ.Underlying().(*types.Signature)
	if !ok {
		return e.fail("call of non-function")
	}
	if b := x.boundSpec(fn); b != nil {
		return e.applySpecFunc(b, argExprs)
	}
	args := []Val{fn}
	for _, a := range argExprs {
		args = append(args, e.eval(a))
	}
	if sig.Results().Len() != 1 {
		return e.fail("func value with %d results used in spec", sig.Results().Len())
	}
	if (fn.SFn != nil || fn.Clo != nil) && len(args) == 3 {
		// a statically known function means what its body computes
		if t, facts, ok := x.applyFn2(e.st, fn, args[1], args[2]); ok {
			for _, f := range facts {
				e.st.assume(f)
			}
			return Val{T: t, Typ: sig.Results().At(0).Type()}
		}
	}
	name := "app_" + sanitize(shortTypeName(sig))
	return x.uninterp(e.st, name, args, sig.Results().At(0).Type())
}

func (x *Exec) uninterp(st *State, name string, args []Val, resT types.Type) Val {
	var sorts []string
	var ts []Term
	for i := range args {
		t := x.termOf(st, &args[i])
		sorts = append(sorts, t.Sort)
		ts = append(ts, t)
	}
	rs := x.te.SortOf(resT)
	name = name + "_" + shortHash(strings.Join(sorts, ",")+"→"+rs)[:6]
	x.d.DeclareFun(name, fmt.Sprintf("(declare-fun %s (%s) %s)", name, strings.Join(sorts, " "), rs))
	var r Term
	if len(ts) == 0 {
		r = Term{name, rs}
	} else {
		r = mk(rs, name, ts...)
	}
	v := Val{T: r, Typ: resT}
	st.assume(x.te.RangeFact(resT, r))
	return v
}

// pureApp: a repo function or method used as a spec function. The same
// symbol is used when verified code calls a function whose contract says
// `pure` (and has no body-level contract), so code and spec agree.
func (x *Exec) pureApp(st *State, f *ssa.Function, args []Val) Val {
	// an uncontracted repo function used in a spec is given its meaning by
	// its own body (executed symbolically, obligations suppressed)
	if x.L.isRepoFunc(f) && len(f.Blocks) > 0 && f.Signature.Results().Len() >= 1 && x.specDepth < 3 {
		ctr := x.contractFor(f)
		if ctr == nil || ctr.Inline {
			if v, ok := x.execAsSpec(st, f, args, nil); ok {
				return v
			}
		}
	}
	if !x.L.isRepoFunc(f) && isPurePackage(f) && deterministicLib(f) {
		name := f.String()
		if o := f.Origin(); o != nil {
			name = o.String()
		}
		r := x.uninterp(st, fmt.Sprintf("lf_%s_%d", sanitize(name), 0), x.bytesAsStrings(st, args), f.Signature.Results().At(0).Type())
		if f.Signature.Results().Len() == 1 {
			x.libFacts(st, name, args, []Val{r})
		}
		return r
	}
	if f.Signature.Results().Len() != 1 {
		x.note("spec-error: pure application of %s with %d results", f.String(), f.Signature.Results().Len())
		return Val{T: x.d.Fresh("specerr", "Bool"), Typ: types.Typ[types.Bool]}
	}
	name := "pf_" + sanitize(FuncPkgPathShort(f)+"_"+FuncKey(f))
	// receivers passed by pointer in code but by value in specs are not unified; keep as is
	return x.uninterp(st, name, args, f.Signature.Results().At(0).Type())
}

func FuncPkgPathShort(f *ssa.Function) string {
	p := FuncPkgPath(f)
	if i := strings.LastIndexByte(p, '/'); i >= 0 {
		return p[i+1:]
	}
	return p
}

func (e *Env) applySpecFunc(sf *SpecFunc, argExprs []SExpr) Val {
	x := e.x
	if len(argExprs) != len(sf.Params) {
		return e.fail("spec function %s: %d arguments, want %d", sf.Name, len(argExprs), len(sf.Params))
	}
	var args []Val
	for i, a := range argExprs {
		v := e.eval(a)
		pt := e.specType(sf, sf.Params[i].Type)
		if pt != nil {
			if bt, ok := v.Typ.(*types.Basic); (ok && bt.Kind() == types.UntypedNil) || v.Typ == nil {
				if v.T.IsZero() {
					v.T = x.te.Zero(pt)
				}
			}
			// an integer literal passed for a byte parameter in bit-vector mode
			if want := x.te.SortOf(pt); want != "Int" && v.T.Sort == "Int" && strings.HasPrefix(want, "(_ BitVec") {
				if n, ok := modelInt(v.T.S); ok && n >= 0 && n < 256 {
					v.T = Term{fmt.Sprintf("#x%02x", n), want}
				} else {
					v.T = Term{fmt.Sprintf("((_ int2bv 8) %s)", v.T.S), want}
				}
			}
			v.Typ = pt
		}
		args = append(args, v)
	}
	rt := e.specType(sf, sf.Result)
	if rt == nil {
		return e.fail("spec function %s: unknown result type %q", sf.Name, sf.Result)
	}
	if sf.Body == nil {
		return x.uninterp(e.st, "sf_"+sf.Name, args, rt)
	}
	if sf.Rec {
		return e.applyRecSpecFunc(sf, args, rt)
	}
	// macro expansion
	ce := e.child()
	ce.pkg = e.specPkg(sf)
	ce.fr = nil
	for i, p := range sf.Params {
		ce.vars[p.Name] = args[i]
	}
	ce.depth = e.depth + 1
	v := ce.eval(sf.Body)
	if v.Typ == nil {
		v.Typ = rt
	}
	return v
}

func (e *Env) specPkg(sf *SpecFunc) *types.Package {
	if sp := e.x.L.spkgs[sf.Pkg]; sp != nil {
		return sp.Pkg
	}
	return e.pkg
}

func (e *Env) specType(sf *SpecFunc, name string) types.Type {
	ce := *e
	ce.pkg = e.specPkg(sf)
	return ce.resolveType(name)
}

// applyRecSpecFunc emits a define-fun-rec (heap-free body) once.
func (e *Env) applyRecSpecFunc(sf *SpecFunc, args []Val, rt types.Type) Val {
	x := e.x
	name := "sfr_" + sf.Name
	if !x.d.HasFun(name) {
		ce := &Env{x: x, st: e.st.clone(), vars: map[string]Val{}, pkg: e.specPkg(sf), depth: 50}
		var binders []string
		for i, p := range sf.Params {
			s := x.te.SortOf(args[i].Typ)
			bn := "p_" + p.Name
			binders = append(binders, fmt.Sprintf("(%s %s)", bn, s))
			ce.vars[p.Name] = Val{T: Term{bn, s}, Typ: args[i].Typ}
		}
		rs := x.te.SortOf(rt)
		// reserve the name so recursive uses resolve to an application
		ph := "; placeholder " + name
		x.d.DeclareFun(name, ph)
		body := ce.eval(sf.Body)
		x.d.mu.Lock()
		for i, f := range x.d.funs {
			if f == ph {
				x.d.funs[i] = fmt.Sprintf("(define-fun-rec %s (%s) %s %s)", name, strings.Join(binders, " "), rs, body.T.S)
			}
		}
		x.d.mu.Unlock()
	}
	var ts []Term
	for i := range args {
		ts = append(ts, x.termOf(e.st, &args[i]))
	}
	return Val{T: mk(x.te.SortOf(rt), name, ts...), Typ: rt}
}

func (e *Env) lockKey(ex SExpr) string {
	// identity of a mutex location: textual form of the base pointer term + field path
	if sel, ok := ex.(SSel); ok {
		base := e.eval(sel.X)
		return base.T.S + "." + sel.Name
	}
	return exprString(ex)
}

func (x *Exec) errIs(a, b Term) Term {
	x.d.DeclareFun("errIs", "(declare-fun errIs (Iface Iface) Bool)")
	return mk("Bool", "errIs", a, b)
}

func (x *Exec) mapLen(st *State, m Term, mt *types.Map) Term {
	hk, hs, _, _ := x.mapComps(mt)
	has := x.heapGet(st, hk, hs)
	fn := "maplen_" + sanitize(x.te.SortOf(mt.Key()))
	_ = hk
	x.d.DeclareFun(fn, fmt.Sprintf("(declare-fun %s (%s) Int)", fn, arrayElemSort(has.Sort)))
	t := Term{fmt.Sprintf("(%s (select %s %s))", fn, has.S, m.S), "Int"}
	st.assume(Ge(t, IntLit(0)))
	return t
}

// execAsSpec runs f symbolically from st (on a scratch copy) and returns its
// result as an ite-chain over its paths. Obligations inside are not emitted.
func (x *Exec) execAsSpec(st *State, f *ssa.Function, args []Val, clo *Closure) (Val, bool) {
	if f.TypeParams().Len() > 0 && len(f.TypeArgs()) == 0 {
		return Val{}, false
	}
	savedClasses := x.classes
	savedPos := x.curPos
	defer func() { x.curPos = savedPos }()
	savedTrunc, savedPaths := x.truncated, x.paths
	savedStack := x.inlineStack
	x.classes = map[string]bool{}
	x.specDepth++
	base := len(st.pc)
	scratch := st.clone()
	type ret struct {
		cond Term
		val  Val
		vals []Val
	}
	var rets []ret
	x.inlineStack = append(x.inlineStack, f)
	x.L.indexDebugRefs(f)
	var facts [][2]Term
	x.runFunction(f, scratch, args, clo, 1, func(s2 *State, rs []Val) {
		if len(rs) < 1 {
			return
		}
		isCond := map[int]bool{}
		for _, i := range s2.condIdx {
			isCond[i] = true
		}
		var conds []Term
		for i := base; i < len(s2.pc); i++ {
			if isCond[i] {
				conds = append(conds, s2.pc[i])
			}
		}
		c := And(conds...)
		for i := base; i < len(s2.pc); i++ {
			if !isCond[i] {
				facts = append(facts, [2]Term{c, s2.pc[i]})
			}
		}
		rets = append(rets, ret{c, rs[0], rs})
	})
	x.inlineStack = savedStack
	x.specDepth--
	x.classes = savedClasses
	ok := !x.truncated && len(rets) > 0 && len(rets) <= 64
	x.truncated, x.paths = savedTrunc, savedPaths
	if !ok {
		return Val{}, false
	}
	// facts assumed along a path (definitions of fresh symbols, library
	// contracts, type ranges) hold under that path's branch conditions
	seen := map[string]bool{}
	for _, f := range facts {
		t := Implies(f[0], f[1])
		if !seen[t.S] {
			seen[t.S] = true
			st.assume(t)
		}
	}
	nres := f.Signature.Results().Len()
	comp := func(k int) Val {
		res := rets[len(rets)-1].vals[k]
		t := x.termOf(st, &res)
		for i := len(rets) - 2; i >= 0; i-- {
			v := rets[i].vals[k]
			t = Ite(rets[i].cond, x.termOf(st, &v), t)
		}
		return Val{T: t, Typ: f.Signature.Results().At(k).Type()}
	}
	for _, r := range rets {
		if len(r.vals) != nres {
			return Val{}, false
		}
	}
	if nres == 1 {
		return comp(0), true
	}
	var tup []Val
	for k := 0; k < nres; k++ {
		tup = append(tup, comp(k))
	}
	return Val{Tup: tup}, true
}
