package main

// O-STRUCT obligations: facts decided by the type checker or by constant
// evaluation on the tree as loaded (no SMT involved).

import (
	"fmt"
	"go/types"
	"sort"
	"strings"

	"golang.org/x/tools/go/ssa"
)

func runStructural(L *Loaded, cs *ContractSet, ps *PropSpec) []*Group {
	var out []*Group
	add := func(name string, ok bool, info string) {
		st := "discharged"
		if !ok {
			st = "failed"
		}
		g := &Group{Name: name, Class: "STRUCT", Status: st, Solver: "go/types", Info: info}
		res := &SolverResult{Answer: "unsat", Solver: "go/types"}
		if !ok {
			res = &SolverResult{Answer: "sat", Solver: "go/types", Output: info}
		}
		g.Instances = []*Oblig{{Name: name, Class: "STRUCT", Info: info, Result: res, Goal: BoolLit(ok)}}
		out = append(out, g)
	}
	// every field declared immutable: no store outside the function that
	// allocates the object (scanned over all loaded repo packages)
	for _, r := range immutableScan(L, cs) {
		add(r.name, r.ok, r.info)
	}
	for _, line := range ps.Struct {
		fs := strings.Fields(line)
		if len(fs) == 0 {
			continue
		}
		switch fs[0] {
		case "methods-own":
			// methods-own <pkg> <Type> <ifacepkg> <Iface> [except m1,m2]
			// every method of the interface resolves, on *Type, to a method
			// declared on Type itself (depth 0), not to a promoted one.
			if len(fs) < 5 {
				add("structural/"+line, false, "bad directive")
				continue
			}
			T := lookupType(L, fs[1], fs[2])
			I := lookupType(L, fs[3], fs[4])
			if T == nil || I == nil {
				add("structural/methods-own("+fs[2]+")", false, "type not found in the loaded packages")
				continue
			}
			except := map[string]bool{}
			if len(fs) >= 7 && fs[5] == "except" {
				for _, m := range strings.Split(fs[6], ",") {
					except[m] = true
				}
			}
			it := I.Underlying().(*types.Interface)
			ms := types.NewMethodSet(types.NewPointer(T))
			for i := 0; i < it.NumMethods(); i++ {
				m := it.Method(i)
				if except[m.Name()] {
					continue
				}
				sel := ms.Lookup(m.Pkg(), m.Name())
				name := fmt.Sprintf("%s.(*%s).%s/own-method(not promoted from an embedded field)", fs[1], fs[2], m.Name())
				if sel == nil {
					add(name, false, "method missing")
					continue
				}
				add(name, len(sel.Index()) == 1, fmt.Sprintf("selection path %v", sel.Index()))
			}
		case "methods-promoted":
			// methods-promoted <pkg> <Type> <field> <m1,m2,...>: each method resolves
			// through the named embedded field (and to nothing else).
			if len(fs) < 5 {
				add("structural/"+line, false, "bad directive")
				continue
			}
			T := lookupType(L, fs[1], fs[2])
			if T == nil {
				add("structural/methods-promoted("+fs[2]+")", false, "type not found")
				continue
			}
			ms := types.NewMethodSet(types.NewPointer(T))
			for _, mn := range strings.Split(fs[4], ",") {
				name := fmt.Sprintf("%s.(*%s).%s/promoted-through(%s)", fs[1], fs[2], mn, fs[3])
				var sel *types.Selection
				for i := 0; i < ms.Len(); i++ {
					if ms.At(i).Obj().Name() == mn {
						sel = ms.At(i)
					}
				}
				if sel == nil {
					add(name, false, "method missing")
					continue
				}
				st, ok := T.Underlying().(*types.Struct)
				good := ok && len(sel.Index()) >= 2 && st.Field(sel.Index()[0]).Name() == fs[3]
				add(name, good, fmt.Sprintf("selection path %v", sel.Index()))
			}
		default:
			if h, ok := structuralHandlers[fs[0]]; ok {
				for _, r := range h(L, cs, fs[1:]) {
					add(r.name, r.ok, r.info)
				}
				continue
			}
			add("structural/"+line, false, "unknown structural directive")
		}
	}
	return out
}

type structResult struct {
	name string
	ok   bool
	info string
}

var structuralHandlers = map[string]func(L *Loaded, cs *ContractSet, args []string) []structResult{}

func lookupType(L *Loaded, pkgShortName, name string) types.Type {
	for path, sp := range L.spkgs {
		if pkgShort(path) != pkgShortName && sp.Pkg.Name() != pkgShortName {
			continue
		}
		if o := sp.Pkg.Scope().Lookup(name); o != nil {
			if tn, ok := o.(*types.TypeName); ok {
				return tn.Type()
			}
		}
	}
	return nil
}

func immutableScan(L *Loaded, cs *ContractSet) []structResult {
	var out []structResult
	var keys []string
	for k := range cs.Immut {
		keys = append(keys, k)
	}
	sort.Strings(keys)
	for _, key := range keys {
		j := strings.LastIndexByte(key, '.')
		tf := key[:j]
		i := strings.LastIndexByte(tf, '.')
		pkgPath, tn, fname := tf[:i], tf[i+1:], key[j+1:]
		if L.spkgs[pkgPath] == nil {
			continue
		}
		ok := true
		info := "no store outside the allocating function"
		for f := range L.allFuncs {
			if !L.isRepoFunc(f) {
				continue
			}
			for _, b := range f.Blocks {
				for _, in := range b.Instrs {
					s, isStore := in.(*ssa.Store)
					if !isStore {
						continue
					}
					fa, isFA := s.Addr.(*ssa.FieldAddr)
					if !isFA {
						continue
					}
					ST := fa.X.Type().Underlying().(*types.Pointer).Elem()
					n, isNamed := ST.(*types.Named)
					if !isNamed || n.Obj().Name() != tn || n.Obj().Pkg() == nil || n.Obj().Pkg().Path() != pkgPath {
						continue
					}
					if ST.Underlying().(*types.Struct).Field(fa.Field).Name() != fname {
						continue
					}
					if _, fresh := fa.X.(*ssa.Alloc); fresh {
						continue
					}
					ok = false
					info = "store at " + L.fset.Position(s.Pos()).String()
				}
			}
		}
		out = append(out, structResult{fmt.Sprintf("%s.%s.%s/immutable(no store after construction)", pkgShort(pkgPath), tn, fname), ok, info})
	}
	return out
}

func init() {
	// error-table <pkg> <global> CODE=status ...: the constant table built by
	// the package initialiser is exactly the given one, and the standard
	// error values carry those codes.
	structuralHandlers["error-table"] = func(L *Loaded, cs *ContractSet, args []string) []structResult {
		var out []structResult
		if len(args) < 3 {
			return []structResult{{"structural/error-table", false, "bad directive"}}
		}
		key := "G_" + sanitize(args[0]+"_"+args[1])
		got, ok := L.constMaps[key]
		if !ok {
			return []structResult{{fmt.Sprintf("%s.%s/constant-table", args[0], args[1]), false, "not a constant table (not built from constants in init, or updated elsewhere)"}}
		}
		want := map[string]int64{}
		for _, a := range args[2:] {
			kv := strings.SplitN(a, "=", 2)
			if len(kv) != 2 {
				continue
			}
			var n int64
			fmt.Sscanf(kv[1], "%d", &n)
			want[kv[0]] = n
		}
		var ks []string
		for k := range want {
			ks = append(ks, k)
		}
		sort.Strings(ks)
		for _, k := range ks {
			g, present := got[k]
			out = append(out, structResult{fmt.Sprintf("%s.%s/status(%s)==%d", args[0], args[1], k, want[k]), present && g == want[k], fmt.Sprintf("table has %v (present=%v)", g, present)})
		}
		extra := true
		for k := range got {
			if _, ok := want[k]; !ok {
				extra = false
			}
		}
		out = append(out, structResult{fmt.Sprintf("%s.%s/no-other-entries", args[0], args[1]), extra && len(got) == len(want), fmt.Sprintf("%d entries", len(got))})
		return out
	}
}
