package main

import (
	"fmt"
	"go/types"
	"strings"

	"golang.org/x/tools/go/ssa"
)

func init() {
	// embedded-routing <pkg> <Func> <ifacepkg> Iface=field.path ... nil=field,...
	//
	// Func builds a struct value out of embedded fields and returns it as an
	// interface. For every method of each named interface, method selection
	// on the struct's type goes through exactly the given chain of embedded
	// fields (so the shallower-wins rule picked the intended one); the
	// fields listed under nil= are never assigned in Func, so they hold the
	// zero value of their type in the returned wrapper.
	structuralHandlers["embedded-routing"] = func(L *Loaded, cs *ContractSet, args []string) []structResult {
		if len(args) < 4 {
			return []structResult{{"structural/embedded-routing", false, "bad directive"}}
		}
		pkgName, fname, ipkg := args[0], args[1], args[2]
		base := fmt.Sprintf("%s.%s", pkgName, fname)
		var fn *ssa.Function
		for path, sp := range L.spkgs {
			if pkgShort(path) == pkgName || sp.Pkg.Name() == pkgName {
				if f := sp.Func(fname); f != nil {
					fn = f
				}
			}
		}
		if fn == nil {
			return []structResult{{base + "/embedded-routing", false, "function not found"}}
		}
		// the struct type wrapped into the returned interface
		var ST *types.Struct
		var STyp types.Type
		var mis []*ssa.MakeInterface
		for _, b := range fn.Blocks {
			for _, in := range b.Instrs {
				if mi, ok := in.(*ssa.MakeInterface); ok {
					mis = append(mis, mi)
				}
			}
		}
		if len(mis) != 1 {
			return []structResult{{base + "/embedded-routing", false, fmt.Sprintf("%d interface conversions in the function (want exactly one)", len(mis))}}
		}
		STyp = mis[0].X.Type()
		ST, _ = STyp.Underlying().(*types.Struct)
		if ST == nil {
			return []structResult{{base + "/embedded-routing", false, "returned value is not a struct"}}
		}
		var out []structResult
		ms := types.NewMethodSet(STyp)
		pathNames := func(sel *types.Selection) string {
			var names []string
			T := STyp
			idx := sel.Index()
			for _, i := range idx[:len(idx)-1] {
				if p, ok := T.Underlying().(*types.Pointer); ok {
					T = p.Elem()
				}
				st, ok := T.Underlying().(*types.Struct)
				if !ok {
					break
				}
				names = append(names, st.Field(i).Name())
				T = st.Field(i).Type()
			}
			return strings.Join(names, ".")
		}
		for _, a := range args[3:] {
			kv := strings.SplitN(a, "=", 2)
			if len(kv) != 2 {
				continue
			}
			if kv[0] == "nil" {
				for _, fld := range strings.Split(kv[1], ",") {
					idx := -1
					for i := 0; i < ST.NumFields(); i++ {
						if ST.Field(i).Name() == fld {
							idx = i
						}
					}
					ok := idx >= 0
					info := "never assigned in " + fname
					if idx < 0 {
						info = "no such field"
					}
					for _, b := range fn.Blocks {
						for _, in := range b.Instrs {
							s, isStore := in.(*ssa.Store)
							if !isStore {
								continue
							}
							root := s.Addr
							var first *ssa.FieldAddr
							for {
								fa, isFA := root.(*ssa.FieldAddr)
								if !isFA {
									break
								}
								first = fa
								root = fa.X
							}
							if first == nil {
								continue
							}
							pt, isPtr := first.X.Type().Underlying().(*types.Pointer)
							if !isPtr || !types.Identical(pt.Elem(), STyp) {
								continue
							}
							if first.Field == idx {
								ok = false
								info = "assigned at " + L.fset.Position(s.Pos()).String()
							}
						}
					}
					// a whole-struct store would also set it
					for _, b := range fn.Blocks {
						for _, in := range b.Instrs {
							if s, isStore := in.(*ssa.Store); isStore && types.Identical(s.Val.Type(), STyp) {
								if _, isConstZero := s.Val.(*ssa.Const); !isConstZero {
									ok = false
									info = "whole-struct assignment at " + L.fset.Position(s.Pos()).String()
								}
							}
						}
					}
					out = append(out, structResult{fmt.Sprintf("%s/field(%s)-left-zero", base, fld), ok, info})
				}
				continue
			}
			I := lookupType(L, ipkg, kv[0])
			if I == nil {
				out = append(out, structResult{fmt.Sprintf("%s/routing(%s)", base, kv[0]), false, "interface not found"})
				continue
			}
			it := I.Underlying().(*types.Interface)
			for i := 0; i < it.NumMethods(); i++ {
				m := it.Method(i)
				name := fmt.Sprintf("%s/%s.%s-selected-through(%s)", base, kv[0], m.Name(), kv[1])
				sel := ms.Lookup(m.Pkg(), m.Name())
				if sel == nil {
					out = append(out, structResult{name, false, "method missing from the wrapper's method set"})
					continue
				}
				got := pathNames(sel)
				out = append(out, structResult{name, got == kv[1], "selected through " + got})
			}
		}
		return out
	}
}
