package main


func compilePostReplay(x *Exec, o *Oblig, rb *replayBuilder, decls []string, call string) (string, bool) {
	return "", false
}


