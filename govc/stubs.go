package main

import "time"

func compilePostReplay(x *Exec, o *Oblig, rb *replayBuilder, decls []string, call string) (string, bool) {
	return "", false
}


func runLemmas(L *Loaded, cs *ContractSet, ps *PropSpec, timeout time.Duration, all bool) []*Group {
	return nil
}
