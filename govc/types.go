package main

// Mapping of Go types to SMT sorts.

import (
	"fmt"
	"go/types"
	"strings"
)

type StructInfo struct {
	Sort   string
	Ctor   string
	Acc    []string // accessor names, one per field
	FSorts []string
	FTypes []types.Type
	FNames []string
	T      *types.Struct
}

type TypeEnv struct {
	d        *Decls
	StrSort  string // "String" (seq mode) or "Str" (atom mode)
	ByteBV   bool   // uint8 as (_ BitVec 8)
	structs  map[string]*StructInfo
	tags     map[string]int
	tagTypes []types.Type
	fnIDs    map[string]int
	atomConsts map[string]string
	atomConstOrder []string
}

func NewTypeEnv(d *Decls, strMode string, byteBV bool) *TypeEnv {
	constArrayDecls = d
	te := &TypeEnv{d: d, ByteBV: byteBV, structs: map[string]*StructInfo{}, tags: map[string]int{}, fnIDs: map[string]int{}, atomConsts: map[string]string{}}
	if strMode == "atom" {
		te.StrSort = "Str"
		d.DeclareSort("Str", "(declare-sort Str 0)")
		d.DeclareFun("str.len_", "(declare-fun slen (Str) Int)")
		d.DeclareFun("sord", "(declare-fun sord (Str) Real)")
		d.DeclareFun("sempty", "(declare-const sempty Str)")
		d.Axiom("(= (slen sempty) 0)")
		d.Axiom("(forall ((x Str)) (! (>= (slen x) 0) :pattern ((slen x))))")
		d.Axiom("(forall ((x Str)) (! (=> (= (slen x) 0) (= x sempty)) :pattern ((slen x))))")
		d.Axiom("(forall ((x Str)) (! (<= (sord sempty) (sord x)) :pattern ((sord x))))")
		d.Axiom("(forall ((x Str) (y Str)) (! (=> (= (sord x) (sord y)) (= x y)) :pattern ((sord x) (sord y))))")
	} else {
		te.StrSort = "String"
	}
	d.DeclareSort("Iface", "(declare-datatypes ((Iface 0)) (((mk_Iface (itag Int) (ival Int)))))")
	d.DeclareSort("Fn", "(declare-datatypes ((Fn 0)) (((mk_Fn (fid Int) (fenv Int)))))")
	return te
}

var NilIface = Term{"(mk_Iface 0 0)", "Iface"}
var NilFn = Term{"(mk_Fn 0 0)", "Fn"}

func typeKey(T types.Type) string {
	return types.TypeString(T, func(p *types.Package) string { return p.Path() })
}

func shortTypeName(T types.Type) string {
	return types.TypeString(T, func(p *types.Package) string { return p.Name() })
}

// canonTypeName: like shortTypeName but with type aliases resolved at every
// level (ociregistry.Digest and digest.Digest are the same type).
func canonTypeName(T types.Type) string {
	T = types.Unalias(T)
	switch u := T.(type) {
	case *types.Pointer:
		return "*" + canonTypeName(u.Elem())
	case *types.Slice:
		return "[]" + canonTypeName(u.Elem())
	case *types.Array:
		return fmt.Sprintf("[%d]%s", u.Len(), canonTypeName(u.Elem()))
	case *types.Map:
		return "map[" + canonTypeName(u.Key()) + "]" + canonTypeName(u.Elem())
	}
	return shortTypeName(T)
}

func (te *TypeEnv) TagOf(T types.Type) int {
	k := typeKey(T)
	if n, ok := te.tags[k]; ok {
		return n
	}
	n := len(te.tags) + 1
	te.tags[k] = n
	te.tagTypes = append(te.tagTypes, T)
	return n
}

func (te *TypeEnv) FnID(name string) int {
	if n, ok := te.fnIDs[name]; ok {
		return n
	}
	n := len(te.fnIDs) + 1
	te.fnIDs[name] = n
	return n
}

func isByteType(T types.Type) bool {
	b, ok := T.Underlying().(*types.Basic)
	return ok && (b.Kind() == types.Uint8)
}

func isStringType(T types.Type) bool {
	b, ok := T.Underlying().(*types.Basic)
	return ok && b.Info()&types.IsString != 0
}

func isIntType(T types.Type) bool {
	b, ok := T.Underlying().(*types.Basic)
	return ok && b.Info()&types.IsInteger != 0
}

func isBoolType(T types.Type) bool {
	b, ok := T.Underlying().(*types.Basic)
	return ok && b.Info()&types.IsBoolean != 0
}

// SortOf maps a Go type to its SMT sort, declaring datatypes on demand.
func (te *TypeEnv) SortOf(T types.Type) string {
	if tp, ok := T.(*types.TypeParam); ok {
		return "U_" + sanitize(tp.Obj().Name())
	}
	switch u := T.Underlying().(type) {
	case *types.Basic:
		switch {
		case u.Info()&types.IsBoolean != 0:
			return "Bool"
		case u.Kind() == types.Uint8 && te.ByteBV:
			return "(_ BitVec 8)"
		case u.Info()&types.IsInteger != 0:
			return "Int"
		case u.Info()&types.IsString != 0:
			return te.StrSort
		case u.Info()&types.IsFloat != 0:
			return "Real"
		case u.Kind() == types.UnsafePointer:
			return "Int"
		case u.Kind() == types.UntypedNil:
			return "Int"
		}
		return "Int"
	case *types.Pointer, *types.Map, *types.Chan:
		return "Int"
	case *types.Interface:
		return "Iface"
	case *types.Signature:
		return "Fn"
	case *types.Slice:
		es := te.SortOf(u.Elem())
		name := "Sl_" + sanitize(es)
		if !te.d.HasSort(name) {
			te.d.DeclareSort(name, fmt.Sprintf("(declare-datatypes ((%s 0)) (((mk_%s (arr_%s (Array Int %s)) (len_%s Int) (cap_%s Int) (nil_%s Bool)))))", name, name, name, es, name, name, name))
		}
		sliceArrSort[name] = ArraySort("Int", es)
		return name
	case *types.Array:
		return ArraySort("Int", te.SortOf(u.Elem()))
	case *types.Struct:
		return te.Struct(T).Sort
	case *types.Tuple:
		return "Tuple"
	}
	return "Int"
}

func (te *TypeEnv) structName(T types.Type) string {
	if n, ok := T.(*types.Named); ok {
		name := n.Obj().Name()
		if n.Obj().Pkg() != nil {
			name = n.Obj().Pkg().Name() + "_" + name
		}
		if ta := n.TypeArgs(); ta != nil && ta.Len() > 0 {
			for i := 0; i < ta.Len(); i++ {
				name += "_" + sanitize(shortTypeName(ta.At(i)))
			}
		}
		return "S_" + sanitize(name)
	}
	if a, ok := T.(*types.Alias); ok {
		return te.structName(types.Unalias(a))
	}
	return fmt.Sprintf("S_anon_%s", sanitize(shortHash(typeKey(T))))
}

func shortHash(s string) string {
	h := uint64(14695981039346656037)
	for i := 0; i < len(s); i++ {
		h ^= uint64(s[i])
		h *= 1099511628211
	}
	return fmt.Sprintf("%x", h)
}

// Struct returns the datatype info of a struct type (named or not).
func (te *TypeEnv) Struct(T types.Type) *StructInfo {
	st, ok := T.Underlying().(*types.Struct)
	if !ok {
		panic("Struct: not a struct: " + T.String())
	}
	name := te.structName(T)
	if si, ok := te.structs[name]; ok {
		return si
	}
	si := &StructInfo{Sort: name, Ctor: "mk_" + name, T: st}
	te.structs[name] = si // before recursion (pointers are Int, so no real recursion)
	var fields []string
	for i := 0; i < st.NumFields(); i++ {
		f := st.Field(i)
		fs := te.SortOf(f.Type())
		acc := fmt.Sprintf("%s__%s", name, sanitize(f.Name()))
		if f.Name() == "_" {
			acc = fmt.Sprintf("%s__blank%d", name, i)
		}
		si.Acc = append(si.Acc, acc)
		si.FSorts = append(si.FSorts, fs)
		si.FTypes = append(si.FTypes, f.Type())
		si.FNames = append(si.FNames, f.Name())
		fields = append(fields, fmt.Sprintf("(%s %s)", acc, fs))
	}
	if len(fields) == 0 {
		te.d.DeclareSort(name, fmt.Sprintf("(declare-datatypes ((%s 0)) (((%s))))", name, si.Ctor))
	} else {
		te.d.DeclareSort(name, fmt.Sprintf("(declare-datatypes ((%s 0)) (((%s %s))))", name, si.Ctor, strings.Join(fields, " ")))
	}
	return si
}

func (si *StructInfo) Make(fs []Term) Term {
	if len(fs) == 0 {
		return Term{si.Ctor, si.Sort}
	}
	return mk(si.Sort, si.Ctor, fs...)
}

func (si *StructInfo) Get(v Term, i int) Term {
	// simplify (acc (mk ...)) when syntactically possible
	if strings.HasPrefix(v.S, "("+si.Ctor+" ") {
		if parts := splitTopLevel(v.S[len(si.Ctor)+2 : len(v.S)-1]); len(parts) == len(si.Acc) {
			return Term{parts[i], si.FSorts[i]}
		}
	}
	return mk(si.FSorts[i], si.Acc[i], v)
}

func (si *StructInfo) Set(v Term, i int, x Term) Term {
	fs := make([]Term, len(si.Acc))
	for j := range fs {
		if j == i {
			fs[j] = x
		} else {
			fs[j] = si.Get(v, j)
		}
	}
	return si.Make(fs)
}

func (si *StructInfo) FieldIndex(name string) int {
	for i, n := range si.FNames {
		if n == name {
			return i
		}
	}
	return -1
}

// splitTopLevel splits an s-expression argument list at top-level spaces.
func splitTopLevel(s string) []string {
	var parts []string
	depth := 0
	start := 0
	inStr := false
	for i := 0; i < len(s); i++ {
		c := s[i]
		if inStr {
			if c == '"' {
				inStr = false
			}
			continue
		}
		switch c {
		case '"':
			inStr = true
		case '(':
			depth++
		case ')':
			depth--
		case ' ':
			if depth == 0 {
				if i > start {
					parts = append(parts, s[start:i])
				}
				start = i + 1
			}
		}
	}
	if start < len(s) {
		parts = append(parts, s[start:])
	}
	return parts
}

// Slice helpers.
func (te *TypeEnv) SliceMake(T types.Type, arr, ln, cp, isnil Term) Term {
	s := te.SortOf(T)
	return mk(s, "mk_"+s, arr, ln, cp, isnil)
}
// mkParts: the components of a literally constructed slice value
// "(mk_S arr len cap nil)", so that accessors applied to it simplify.
func mkParts(s Term) []string {
	pre := "(mk_" + s.Sort + " "
	if !strings.HasPrefix(s.S, pre) || !strings.HasSuffix(s.S, ")") {
		return nil
	}
	parts := splitTopLevel(s.S[1 : len(s.S)-1])
	if len(parts) != 5 {
		return nil
	}
	return parts
}

func sliceArr(s Term) Term {
	if p := mkParts(s); p != nil {
		return Term{p[1], sliceArrSort[s.Sort]}
	}
	return Term{"(arr_" + s.Sort + " " + s.S + ")", sliceArrSort[s.Sort]}
}
func sliceLen(s Term) Term {
	if p := mkParts(s); p != nil {
		return Term{p[2], "Int"}
	}
	return Term{"(len_" + s.Sort + " " + s.S + ")", "Int"}
}
func sliceCap(s Term) Term {
	if p := mkParts(s); p != nil {
		return Term{p[3], "Int"}
	}
	return Term{"(cap_" + s.Sort + " " + s.S + ")", "Int"}
}
func sliceNil(s Term) Term {
	if p := mkParts(s); p != nil {
		return Term{p[4], "Bool"}
	}
	return Term{"(nil_" + s.Sort + " " + s.S + ")", "Bool"}
}

// sliceArrSort records the array sort of each slice sort.
var sliceArrSort = map[string]string{}

func (te *TypeEnv) sliceSortOf(T types.Type) string {
	s := te.SortOf(T)
	if sl, ok := T.Underlying().(*types.Slice); ok {
		sliceArrSort[s] = ArraySort("Int", te.SortOf(sl.Elem()))
	}
	return s
}

// constArray returns an array term whose every element is v. cvc5 accepts
// only values in (as const ...): when v mentions an uninterpreted constant
// (atom-mode strings, type-parameter zeros) an unconstrained array constant
// is used instead (contents beyond a slice's length are never relied on).
var constArrayDecls *Decls

func constArray(idxSort string, v Term) Term {
	s := ArraySort(idxSort, v.Sort)
	if constArrayDecls != nil && (strings.Contains(v.S, "sempty") || strings.Contains(v.S, "zero_U") || strings.Contains(v.S, "zarr_")) {
		name := "zarr_" + sanitize(s)
		constArrayDecls.DeclareFun(name, fmt.Sprintf("(declare-const %s %s)", name, s))
		return Term{name, s}
	}
	return Term{fmt.Sprintf("((as const %s) %s)", s, v.S), s}
}

// Zero value of a Go type.
func (te *TypeEnv) Zero(T types.Type) Term {
	if _, ok := T.(*types.TypeParam); ok {
		s := te.SortOf(T)
		te.d.DeclareSort(s, fmt.Sprintf("(declare-sort %s 0)", s))
		name := "zero_" + s
		te.d.DeclareFun(name, fmt.Sprintf("(declare-const %s %s)", name, s))
		return Term{name, s}
	}
	switch u := T.Underlying().(type) {
	case *types.Basic:
		switch {
		case u.Info()&types.IsBoolean != 0:
			return False
		case u.Kind() == types.Uint8 && te.ByteBV:
			return BVLit(0, 8)
		case u.Info()&types.IsInteger != 0:
			return IntLit(0)
		case u.Info()&types.IsString != 0:
			return te.StrConst("")
		case u.Info()&types.IsFloat != 0:
			return Term{"0.0", "Real"}
		}
		return IntLit(0)
	case *types.Pointer, *types.Map, *types.Chan:
		return IntLit(0)
	case *types.Interface:
		return NilIface
	case *types.Signature:
		return NilFn
	case *types.Slice:
		s := te.sliceSortOf(T)
		return mk(s, "mk_"+s, constArray("Int", te.Zero(u.Elem())), IntLit(0), IntLit(0), True)
	case *types.Array:
		return constArray("Int", te.Zero(u.Elem()))
	case *types.Struct:
		si := te.Struct(T)
		fs := make([]Term, len(si.FTypes))
		for i, ft := range si.FTypes {
			fs[i] = te.Zero(ft)
		}
		return si.Make(fs)
	}
	return IntLit(0)
}

// atom-mode string constants: one distinct constant per literal; their
// relative order is asserted (computed with Go's own comparison).

func (te *TypeEnv) StrConst(s string) Term {
	if te.StrSort == "String" {
		return StrLit(s)
	}
	if s == "" {
		return Term{"sempty", "Str"}
	}
	if n, ok := te.atomConsts[s]; ok {
		return Term{n, "Str"}
	}
	name := fmt.Sprintf("sc_%d_%s", len(te.atomConsts), sanitize(s))
	te.atomConsts[s] = name
	te.d.DeclareFun(name, fmt.Sprintf("(declare-const %s Str)", name))
	te.d.Axiom(fmt.Sprintf("(= (slen %s) %d)", name, len(s)))
	for _, o := range te.atomConstOrder {
		on := te.atomConsts[o]
		if o < s {
			te.d.Axiom(fmt.Sprintf("(< (sord %s) (sord %s))", on, name))
		} else {
			te.d.Axiom(fmt.Sprintf("(< (sord %s) (sord %s))", name, on))
		}
	}
	te.d.Axiom(fmt.Sprintf("(< (sord sempty) (sord %s))", name))
	te.atomConstOrder = append(te.atomConstOrder, s)
	return Term{name, "Str"}
}

func (te *TypeEnv) StrLen(s Term) Term {
	if te.StrSort == "String" {
		return mk("Int", "str.len", s)
	}
	return mk("Int", "slen", s)
}

// RangeFact returns the type-range assumption for a value of type T.
func (te *TypeEnv) RangeFact(T types.Type, t Term) Term {
	if _, ok := T.(*types.TypeParam); ok {
		return True
	}
	switch u := T.Underlying().(type) {
	case *types.Basic:
		if u.Info()&types.IsInteger == 0 {
			if u.Info()&types.IsString != 0 && te.StrSort == "Str" {
				return True
			}
			return True
		}
		if t.Sort != "Int" {
			return True
		}
		lo, hi := "", ""
		switch u.Kind() {
		case types.Int, types.Int64:
			lo, hi = "(- 9223372036854775808)", "9223372036854775807"
		case types.Int32:
			lo, hi = "(- 2147483648)", "2147483647"
		case types.Int16:
			lo, hi = "(- 32768)", "32767"
		case types.Int8:
			lo, hi = "(- 128)", "127"
		case types.Uint, types.Uint64, types.Uintptr:
			lo, hi = "0", "18446744073709551615"
		case types.Uint32:
			lo, hi = "0", "4294967295"
		case types.Uint16:
			lo, hi = "0", "65535"
		case types.Uint8:
			lo, hi = "0", "255"
		default:
			return True
		}
		return Term{fmt.Sprintf("(and (<= %s %s) (<= %s %s))", lo, t.S, t.S, hi), "Bool"}
	case *types.Pointer, *types.Map, *types.Chan:
		return Ge(t, IntLit(0))
	case *types.Interface:
		return Term{fmt.Sprintf("(and (>= (itag %s) 0) (=> (= (itag %s) 0) (= (ival %s) 0)))", t.S, t.S, t.S), "Bool"}
	case *types.Signature:
		return Term{fmt.Sprintf("(and (>= (fid %s) 0) (=> (= (fid %s) 0) (= (fenv %s) 0)))", t.S, t.S, t.S), "Bool"}
	case *types.Slice:
		te.sliceSortOf(T)
		return Term{fmt.Sprintf("(and (<= 0 (len_%s %s)) (<= (len_%s %s) (cap_%s %s)) (<= (cap_%s %s) 281474976710656) (=> (nil_%s %s) (= (len_%s %s) 0)) (=> (nil_%s %s) (= (cap_%s %s) 0)))",
			t.Sort, t.S, t.Sort, t.S, t.Sort, t.S, t.Sort, t.S, t.Sort, t.S, t.Sort, t.S, t.Sort, t.S, t.Sort, t.S), "Bool"}
	case *types.Struct:
		si := te.Struct(T)
		var fs []Term
		for i, ft := range si.FTypes {
			f := te.RangeFact(ft, si.Get(t, i))
			if f.S != "true" {
				fs = append(fs, f)
			}
		}
		return And(fs...)
	}
	return True
}
