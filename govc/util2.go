package main

func contains(xs []string, s string) bool {
	for _, x := range xs {
		if x == s {
			return true
		}
	}
	return false
}
