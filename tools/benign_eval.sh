#!/bin/bash
# usage: benign_eval.sh <worktree-name e.g. ocimem> <k>  — applies /tmp/benign-<name>/BENIGN/<k>/patch.diff in a scratch worktree,
# runs every check whose spec loads a touched package, and prints any alarm (a behaviour-preserving edit must raise none).
N=$1; K=$2
SRC=/tmp/benign-$N/BENIGN/$K
OUT=/verif/benign/$N-$K
mkdir -p $OUT; [ -d $SRC ] && cp $SRC/patch.diff $SRC/meta.json $OUT/ 2>/dev/null
WT=$(mktemp -d /tmp/govc-benign.XXXX)
git -C /repo worktree add -q --detach $WT HEAD
(cd $WT && git apply $OUT/patch.diff) || { echo "$N-$K: patch does not apply"; git -C /repo worktree remove --force $WT; exit 2; }
pkgs=$(grep '^+++ b/' $OUT/patch.diff | sed 's#+++ b/##' | xargs -n1 dirname | sort -u)
checks=""
for p in $pkgs; do
  rel=${p#ociregistry}; rel=${rel#/}; [ -z "$rel" ] && rel="./\$" || rel="./$rel"
  for s in /verif/specs/C*.spec; do
    c=$(basename $s .spec)
    if grep -q "^load.* $(echo $rel | sed 's/\$//')\( \|$\)" $s; then checks="$checks $c"; fi
  done
done
checks=$(echo $checks | tr ' ' '\n' | sort -u | tr '\n' ' ')
alarms=0
for C in $checks; do
  GOVC_REPO=$WT GOVC_CONTRACTS=mirror /verif/bin/govc check --property $C > $OUT/check_$C.log 2>&1; rc=$?
  sed -i "s#$WT#/repo#g" $OUT/check_$C.log
  st=$(grep -c '^STALE' $OUT/check_$C.log)
  echo "$N-$K check $C exit=$rc stale=$st $(grep '^FAILED\|^REGRESSED\|^VACUOUS' $OUT/check_$C.log | head -3 | cut -c1-200)"
  [ $rc != 0 ] && alarms=$((alarms+1))
done
echo "$N-$K: checks=[$checks] alarms=$alarms"
git -C /repo worktree remove --force $WT
