#!/bin/bash
# Runs the quick check of every claimed property on /repo as it is; prints one line per property.
cd /verif
rc=0
for p in $(python3 -c "import json;print(' '.join(c['property_id'] for c in json.load(open('MANIFEST.json'))['checks']))"); do
  out=$(bin/govc check --property $p "$@" 2>&1); e=$?
  echo "$p exit=$e $(echo "$out" | tail -1)"
  [ $e != 0 ] && { rc=1; echo "$out" | grep "^FAILED\|^REGRESSED\|^VACUOUS" | head -5; }
done
exit $rc
