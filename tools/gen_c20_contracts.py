#!/usr/bin/env python3
# Generates the C20 contract block for the 18 (*Funcs) methods. The output is
# pasted into contracts/ociregistry/contracts_verif.go (kept there verbatim);
# this script only saves typing. The postconditions are taken from the
# property statement: set => delegated with the same arguments and results;
# unset (or nil table) => the error of the table's constructor, else
# an unsupported-operation error; nothing else is called.
methods = [
 ("GetBlob", "ctx, repo, digest", 2, "repo", "nil"),
 ("GetBlobRange", "ctx, repo, digest, offset0, offset1", 2, "repo", "nil"),
 ("GetManifest", "ctx, repo, digest", 2, "repo", "nil"),
 ("GetTag", "ctx, repo, tagName", 2, "repo", "nil"),
 ("ResolveBlob", "ctx, repo, digest", 2, "repo", "zero(Descriptor)"),
 ("ResolveManifest", "ctx, repo, digest", 2, "repo", "zero(Descriptor)"),
 ("ResolveTag", "ctx, repo, tagName", 2, "repo", "zero(Descriptor)"),
 ("PushBlob", "ctx, repo, desc, r", 2, "repo", "zero(Descriptor)"),
 ("PushBlobChunked", "ctx, repo, chunkSize", 2, "repo", "nil"),
 ("PushBlobChunkedResume", "ctx, repo, id, offset, chunkSize", 2, "repo", "nil"),
 ("MountBlob", "ctx, fromRepo, toRepo, digest", 2, "toRepo", "zero(Descriptor)"),
 ("PushManifest", "ctx, repo, tag, contents, mediaType", 2, "repo", "zero(Descriptor)"),
 ("DeleteBlob", "ctx, repo, digest", 1, "repo", None),
 ("DeleteManifest", "ctx, repo, digest", 1, "repo", None),
 ("DeleteTag", "ctx, repo, name", 1, "repo", None),
 ("Repositories", "ctx, startAfter", 0, '""', None),
 ("Tags", "ctx, repo, startAfter", 0, "repo", None),
 ("Referrers", "ctx, repo, digest, artifactType", 0, "repo", None),
]
for name, args, nres, repo, zero in methods:
    fld = name + "_"
    print(f"//@ func (*Funcs).{name}")
    if nres == 2:
        same = "result.0 == calls[0].result.0 && result.1 == calls[0].result.1"
    else:
        same = "result == calls[0].result"
    print(f"//@   ensures[set-delegates] old(f != nil && f.{fld} != nil) ==>")
    print(f"//@             calls == [old(f.{fld})({args})] && {same}")
    print(f"//@   ensures[unset-fails-cleanly] !old(f != nil && f.{fld} != nil) ==>")
    # the method name passed to the error constructor is not part of the property; "_" matches any
    if nres == 2:
        print(f"//@             calls == [f.newError(ctx, \"{name}\", {repo})] && result.0 == {zero} && result.1 == calls[0].result")
    elif nres == 1:
        print(f"//@             calls == [f.newError(ctx, \"{name}\", {repo})] && result == calls[0].result")
    else:
        print(f"//@             calls == [f.newError(ctx, \"{name}\", {repo})] && result == ErrorSeq(calls[0].result)")
    print()
