#!/usr/bin/env python3
# The method-by-method part of /verif/contracts/ocidebug/contracts_verif.go was generated with this table
# (one delegating method per row: name, parameters in call order, number of results); kept for reference.
methods = [
 ("GetBlob", "ctx repoName dig", 2), ("GetBlobRange", "ctx repoName dig o0 o1", 2), ("GetManifest", "ctx repoName dig", 2),
 ("GetTag", "ctx repoName tagName", 2), ("ResolveBlob", "ctx repoName digest", 2), ("ResolveManifest", "ctx repoName digest", 2),
 ("ResolveTag", "ctx repoName tagName", 2), ("PushBlob", "ctx repoName desc content", 2), ("MountBlob", "ctx fromRepo toRepo dig", 2),
 ("PushManifest", "ctx repoName tag data mediaType", 2), ("DeleteBlob", "ctx repoName digest", 1), ("DeleteManifest", "ctx repoName digest", 1),
 ("DeleteTag", "ctx repoName tagName", 1),
]
for name, args, nres in methods:
    a = args.split()
    conj = [f'calls[lastOf("{name}")].arg.{i} == {("old(%s)" % p) if p in ("desc", "data") else p}' for i, p in enumerate(a)]
    res = (f'result.0 == calls[lastOf("{name}")].result.0 && result.1 == calls[lastOf("{name}")].result.1' if nres == 2
           else f'result == calls[lastOf("{name}")].result')
    print(f'//@ func (*logger).{name}')
    print(f'//@   ensures[asks-the-wrapped-registry-once] ncallsOf("{name}") == 1')
    print(f'//@   ensures[with-the-callers-arguments] ' + ' && '.join(conj))
    print(f'//@   ensures[and-returns-its-answer] {res}')
    print()
