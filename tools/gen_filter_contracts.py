#!/usr/bin/env python3
# Prints the C12 (access checker) and C13 (sub registry) contract blocks for the 18 wrapper methods.
# name, params, nres, repos checked [(argname, kind)], zero, iterator
M = [
 ("GetBlob", "ctx, repo, digest", 2, [("repo","AccessRead")], "nil"),
 ("GetBlobRange", "ctx, repo, digest, offset0, offset1", 2, [("repo","AccessRead")], "nil"),
 ("GetManifest", "ctx, repo, digest", 2, [("repo","AccessRead")], "nil"),
 ("GetTag", "ctx, repo, tagName", 2, [("repo","AccessRead")], "nil"),
 ("ResolveBlob", "ctx, repo, digest", 2, [("repo","AccessRead")], "zero(ociregistry.Descriptor)"),
 ("ResolveManifest", "ctx, repo, digest", 2, [("repo","AccessRead")], "zero(ociregistry.Descriptor)"),
 ("ResolveTag", "ctx, repo, tagName", 2, [("repo","AccessRead")], "zero(ociregistry.Descriptor)"),
 ("PushBlob", "ctx, repo, desc, rd", 2, [("repo","AccessWrite")], "zero(ociregistry.Descriptor)"),
 ("PushBlobChunked", "ctx, repo, chunkSize", 2, [("repo","AccessWrite")], "nil"),
 ("PushBlobChunkedResume", "ctx, repo, id, offset, chunkSize", 2, [("repo","AccessWrite")], "nil"),
 ("MountBlob", "ctx, fromRepo, toRepo, digest", 2, [("fromRepo","AccessRead"),("toRepo","AccessWrite")], "zero(ociregistry.Descriptor)"),
 ("PushManifest", "ctx, repo, tag, contents, mediaType", 2, [("repo","AccessWrite")], "zero(ociregistry.Descriptor)"),
 ("DeleteBlob", "ctx, repo, digest", 1, [("repo","AccessDelete")], None),
 ("DeleteManifest", "ctx, repo, digest", 1, [("repo","AccessDelete")], None),
 ("DeleteTag", "ctx, repo, name", 1, [("repo","AccessDelete")], None),
 ("Tags", "ctx, repo, startAfter", 0, [("repo","AccessList")], None),
 ("Referrers", "ctx, repo, digest, artifactType", 0, [("repo","AccessList")], None),
]
import sys
which = sys.argv[1]
if which == "c12":
    T="accessCheckerRegistry"
    print("//@ pure func policy(name string, kind AccessKind) error")
    print(f"//@ bind (*{T}).check = policy")
    print()
    for name,args,nres,checks,zero in M:
        req = " && ".join(f"policy({a}, {k}) == nil" for a,k in checks)
        print(f"//@ sink (*{T}).r {name}({args}) requires {req}")
    print(f"//@ sink (*{T}).r Repositories(ctx, startAfter) requires policy(\"*\", AccessList) == nil")
    print()
    for name,args,nres,checks,zero in M:
        print(f"//@ func (*{T}).{name}")
        allowed = " && ".join(f"policy({a}, {k}) == nil" for a,k in checks)
        # denial: first failing check's error is returned, nothing is called
        prev=[]
        for i,(a,k) in enumerate(checks):
            cond=" && ".join(prev+[f"policy({a}, {k}) != nil"])
            if nres==2:
                post=f"calls == [] && result.0 == {zero} && result.1 == policy({a}, {k})"
            elif nres==1:
                post=f"calls == [] && result == policy({a}, {k})"
            else:
                post=f"calls == [] && result == ociregistry.ErrorSeq(policy({a}, {k}))"
            print(f"//@   ensures[rejected-{i}-never-reaches-backend] {cond} ==>")
            print(f"//@             {post}")
            prev.append(f"policy({a}, {k}) == nil")
        if nres==2:
            same="result.0 == calls[0].result.0 && result.1 == calls[0].result.1"
        else:
            same="result == calls[0].result"
        print(f"//@   ensures[allowed-is-transparent] {allowed} ==>")
        print(f"//@             calls == [old(r.r).{name}({args})] && {same}")
        print()

if which == "c13":
    T="subRegistry"
    M2 = M + []
    for name,args,nres,checks,zero in M2:
        repos=[a for a,_ in checks]
        alist=[a.strip() for a in args.split(",")]
        mapped=[]
        for a in alist:
            if a=="ctx": mapped.append("calls[0].result")
            elif a in repos: mapped.append(f"r.repo({a})")
            else: mapped.append(a)
        if nres==2:
            same="result.0 == calls[1].result.0 && result.1 == calls[1].result.1"
        else:
            same="result == calls[1].result"
        print(f"//@ func (*{T}).{name}")
        print(f"//@   ensures[acts-on-prefixed-name-only] calls == [r.mapScopes(ctx), old(r.r).{name}({', '.join(mapped)})] &&")
        print(f"//@             {same}")
        print()
