#!/usr/bin/env python3
# Regenerates /verif/MANIFEST.json from tools/manifest_table.json (claimed checks) and properties.jsonl.
import json, subprocess
props=[json.loads(l) for l in open('/verif/properties.jsonl')]
table=json.load(open('/verif/tools/manifest_table.json'))
commits=[]
try:
    out=subprocess.run(['git','-C','/repo','log','--format=%H %s'],capture_output=True,text=True).stdout
    for l in out.splitlines():
        h,_,s=l.partition(' ')
        if s.startswith('verif:'):
            commits.append(h)
except Exception:
    pass
m={
 "version":1,
 "setup_cmd":"cd /verif/govc && GOFLAGS=-mod=mod GOPROXY=off GOSUMDB=off GOTOOLCHAIN=local go build -o /verif/bin/govc.bin .",
 "hooks":{
  "guard":"verif",
  "enable":"-tags verif (contract files contracts_verif.go are comment-only and carry //go:build verif; govc loads /repo with the tag on)",
  "baseline_off_cmd":"for m in cmd/ocisrv internal/ci ociregistry ociregistry/internal/conformance; do (cd /repo/$m && go test -json -vet=off -count=1 -timeout 25m ./...); done",
  "source_commits":list(reversed(commits)),
  "add_only":True
 },
 "engines":[{"name":"govc","path":"/verif/govc","serves_properties":sorted(table["checks"].keys()),
   "kind_free_text":"contract-based deductive verifier for Go written for this task: loads /repo's working tree (go/packages, tag verif), builds go/ssa in NaiveForm, generates verification conditions per function and per path by symbolic execution against //@ contracts (requires/ensures/loop and closure invariants/sink preconditions/ghost call log, lock set, ownership), discharges each obligation with z3 5.1.0, cvc5 1.0.3 or z3 4.8.12, replays counterexamples on the real code through go test -overlay"}],
 "checks":[],
 "not_applicable":[],
 "notes":table.get("notes","")
}
for p in props:
    i=p['id']
    if i in table["checks"]:
        c=table["checks"][i]
        m["checks"].append({
          "property_id":i,
          "quick_cmd":f"bin/govc check --property {i} --tier quick",
          "thorough_cmd":f"bin/govc check --property {i} --tier thorough",
          "evidence_file":f"/verif/evidence/{i}.json",
          "replay_cmd_template":"bin/govc replay {path}",
          "engine":"govc",
          "level_claimed":{"category":"proof","text":c["text"],"design_ref":c.get("design_ref","DESIGN.md section 5 "+i)},
          "level_note":c["note"],
          "technique":c.get("technique","contract-based deductive verification: VCs generated from go/ssa of the real code against //@ contracts, discharged by SMT (z3/cvc5)")
        })
    else:
        m["not_applicable"].append({"property_id":i,"reason":table["not_applicable"].get(i,"check not built yet (framework under construction; see DESIGN.md section 10)")})
json.dump(m,open('/verif/MANIFEST.json','w'),indent=1)
print("checks:",[c["property_id"] for c in m["checks"]])
