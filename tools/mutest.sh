#!/bin/bash
# usage: mutest.sh <property> <sed-expr> <file-relative-to-repo> [full]  — applies a sed mutation in a scratch worktree and runs the check
set -e
P=$1; EXPR=$2; F=$3
WT=$(mktemp -d /tmp/govc-mut.XXXX)
git -C /repo worktree add -q --detach $WT HEAD
sed -i "$EXPR" $WT/$F
(cd $WT && git diff --stat | tail -1)
(cd $WT/ociregistry && go build ./... ) || echo "MUTANT DOES NOT BUILD"
if [ "$4" = full ]; then
GOVC_REPO=$WT GOVC_CONTRACTS=mirror /verif/bin/govc check --property $P 2>&1 | sed "s#$WT#/repo#g" | grep -v "^  replay"
else
GOVC_REPO=$WT GOVC_CONTRACTS=mirror /verif/bin/govc check --property $P 2>&1 | grep -E "^(VIOLATION|FAILED|REGRESSED|govc:|  replay)" | sed "s#$WT#/repo#g" | head -12
fi
git -C /repo worktree remove --force $WT
