#!/bin/bash
# usage: seed_eval.sh <Cxx> <k> [properties to check...]
# Confirms a seeded change (suite passes with it, demo fails with it and passes without it) in a scratch
# worktree, runs the registered checks against it, and stores everything under /verif/seeded/<Cxx>-<k>/.
P=$1; K=$2; shift 2
CHECKS="${@:-$P}"
SRC=/tmp/seed-$P/SEED/$K
OUT=/verif/seeded/$P-$K
mkdir -p $OUT
if [ -d $SRC ]; then
  cp $SRC/patch.diff $OUT/patch.diff
  DEMO=$(ls $SRC/*_test.go 2>/dev/null | head -1)
  [ -n "$DEMO" ] && cp $DEMO $OUT/
else
  # re-evaluation of a stored seed (the sub-agent's worktree is gone)
  SRC=$OUT
  DEMO=$(ls $OUT/*_test.go 2>/dev/null | head -1)
fi
LOC=$(python3 -c "
import json,re
l=json.load(open('$SRC/meta.json')).get('demo_location','').replace('/tmp/seed-$P/','')
m=re.search(r'(ociregistry(?:/\\w+)*|cmd/ocisrv)',l)
print(m.group(1) if m else '')")
WT=$(mktemp -d /tmp/govc-seed.XXXX)
git -C /repo worktree add -q --detach $WT HEAD
G="env -u GOFLAGS GOPROXY=off GOSUMDB=off GOTOOLCHAIN=local"
res_apply=ok
(cd $WT && git apply $OUT/patch.diff) || (cd $WT && git apply --3way $OUT/patch.diff) || res_apply=FAILED
# demo without change
demo_clean=skipped; demo_mut=skipped; suite=skipped
if [ -n "$DEMO" ] && [ -n "$LOC" ]; then
  (cd $WT && git apply -R $OUT/patch.diff) ; cp $DEMO $WT/$LOC/zz_seed_demo_test.go
  (cd $WT/$LOC && $G go test -vet=off -count=1 -run 'Seed|seed' . > $OUT/demo_clean.log 2>&1) && demo_clean=pass || demo_clean=FAIL
  rm $WT/$LOC/zz_seed_demo_test.go; (cd $WT && git apply $OUT/patch.diff)
  cp $DEMO $WT/$LOC/zz_seed_demo_test.go
  (cd $WT/$LOC && $G go test -vet=off -count=1 -run 'Seed|seed' . > $OUT/demo_mutant.log 2>&1) && demo_mut=pass || demo_mut=FAIL
  rm $WT/$LOC/zz_seed_demo_test.go
fi
suite=pass
for m in cmd/ocisrv ociregistry ociregistry/internal/conformance; do (cd $WT/$m && $G go test -vet=off -count=1 ./... > $OUT/suite_$(basename $m).log 2>&1) || suite=FAIL; done
echo "apply=$res_apply demo_on_clean=$demo_clean demo_with_change=$demo_mut suite_with_change=$suite"
caught=""
for C in $CHECKS; do
  GOVC_REPO=$WT GOVC_CONTRACTS=mirror /verif/bin/govc check --property $C > $OUT/check_$C.log 2>&1; rc=$?
  sed -i "s#$WT#/repo#g" $OUT/check_$C.log
  echo "check $C exit=$rc: $(grep -c '^VIOLATION' $OUT/check_$C.log) violation lines"; grep '^FAILED\|^REGRESSED' $OUT/check_$C.log | head -5
  [ $rc = 1 ] && caught="$caught $C"
done
python3 - <<PY
import json
m=json.load(open('$SRC/meta.json'))
m['confirmed_by_verifier_author']={'apply':'$res_apply','demo_on_clean_tree':'$demo_clean','demo_with_change':'$demo_mut','existing_suite_with_change':'$suite','base_commit':'$(git -C /repo rev-parse --short HEAD)'}
m['checks_run']='$CHECKS'.split()
m['caught_by']='$caught'.split()
json.dump(m,open('$OUT/meta.json','w'),indent=1)
PY
rm -f $OUT/suite_*.log
git -C /repo worktree remove --force $WT
