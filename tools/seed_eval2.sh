#!/bin/bash
# usage: seed_eval2.sh <Cxx> "<checks for seed 3>" "<checks for seed 4>"  — evaluates both second-round seeds of a
# property (serialised by a lock), logs to /tmp/se_<Cxx>_<k>.log and removes the sub-agent's scratch worktree.
P=$1
(
 flock 9
 /verif/tools/seed_eval.sh $P 3 $2 > /tmp/se_${P}_3.log 2>&1
 /verif/tools/seed_eval.sh $P 4 $3 > /tmp/se_${P}_4.log 2>&1
 git -C /repo worktree remove --force /tmp/seed-$P
) 9>/tmp/seed_eval.lock
