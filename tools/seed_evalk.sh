#!/bin/bash
# usage: seed_evalk.sh <Cxx> <k1> "<checks for seed k1>" <k2> "<checks for seed k2>"  — evaluates two seeds of a property
# (serialised by a lock), logs to /tmp/se_<Cxx>_<k>.log and removes the sub-agent's scratch worktree.
P=$1
(
 flock 9
 /verif/tools/seed_eval.sh $P $2 $3 > /tmp/se_${P}_$2.log 2>&1
 /verif/tools/seed_eval.sh $P $4 $5 > /tmp/se_${P}_$4.log 2>&1
 [ -d /tmp/seed-$P ] && git -C /repo worktree remove --force /tmp/seed-$P
) 9>${SEED_LOCK:-/tmp/seed_eval.lock}
