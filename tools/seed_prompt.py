#!/usr/bin/env python3
# usage: seed_prompt.py Cxx [first-index]  -> creates /tmp/seed-Cxx worktree (if missing) and prints the sub-agent prompt
import json,sys,subprocess,os
pid=sys.argv[1]
k0=int(sys.argv[2]) if len(sys.argv)>2 else 1
# VARIANT: later rounds ask for less central sites
extra=(' Prefer sites that are NOT the most obvious one for this property: helper functions, code paths that handle errors, empty or boundary inputs, rarely used options, the interplay of two packages, or a second call of an operation on the same object; avoid simply weakening the single most central check.' if 7<=k0<9 else (' Prefer changes whose effect depends on a configuration option, on an optional or rarely used exported function, on a second proxy hop or a second wrapper around the first, or on state left behind by an earlier failed or partial call; avoid the single most central check of the property, and avoid changes in functions whose names appear in the property text.' if 9<=k0<11 else (' Make each change look like a well-meant performance optimisation or clean-up that is subtly wrong: caching or reusing a value or a buffer, hoisting a check out of a loop or behind a fast path, replacing a library call by a seemingly equivalent one, merging two similar branches, or short-circuiting a case believed to be common. Include the kind of code comment such a change would come with.' if 11<=k0<13 else (' Make each change a typical Go pitfall introduced while adding a small feature or fixing an unrelated bug: a shadowed err variable (:= in an inner scope), a defer placed in a loop or before the error check, a slice aliased through append or re-slicing, a map or slice shared between two objects instead of copied, a range variable or loop counter captured by a closure, an integer conversion or comparison of mixed signedness/width, a nil interface holding a typed nil, a method value bound too early, a switch case that falls out of order, or a context/Close call moved to the wrong branch. The feature or fix itself should be plausible and come with the comment a developer would write.' if 13<=k0<15 else (' Put each change in an error path, a cleanup path or an initialisation path: a constructor or option default (New functions, zero values of option structs), a Close/Cancel/Commit sequence, a deferred call, what is returned together with a non-nil error, which error is wrapped or compared (errors.Is / errors.As / ==), a partial result returned with a nil error, a lock released too early or held across a callback, or a retry that repeats a non-idempotent step. The happy path that the existing tests exercise must stay exactly as it is.' if k0>=15 else '')))))
wt=f"/tmp/seed-{pid}"
if not os.path.exists(wt):
    subprocess.run(["git","-C","/repo","worktree","add","-q","--detach",wt,"HEAD"],check=True)
p=[json.loads(l) for l in open('/verif/properties.jsonl') if json.loads(l)['id']==pid][0]
print(f"""You are working in a scratch git worktree of the Go library cue-labs/oci at {wt} (a go.work workspace; the main module is {wt}/ociregistry, others: cmd/ocisrv, ociregistry/internal/conformance). Work ONLY inside {wt}. Never read or touch /repo or /verif.

The sandbox has no network. For every go command use: `env -u GOFLAGS GOPROXY=off GOSUMDB=off GOTOOLCHAIN=local go ...` (do NOT set GOFLAGS=-mod=mod inside the workspace). The existing test suite is run with:
  for m in cmd/ocisrv ociregistry ociregistry/internal/conformance; do (cd {wt}/$m && env -u GOFLAGS GOPROXY=off GOSUMDB=off GOTOOLCHAIN=local go test -vet=off -count=1 ./...); done

Here is a semantic property that the library is supposed to satisfy:

  Title: {p['title']}
  Statement: {p['statement']}
  Quantified over: {p['quantifier']['text']}
  Relevant files: {', '.join(p['anchors']['files'])}

Your task: produce TWO different, independent changes to the library's non-test source code, each of which BREAKS this property while the code still compiles and the whole existing test suite still passes. Each change must be a realistic defect a developer could plausibly introduce (wrong variable or field, missing check on one path, swapped arguments, off-by-one / boundary condition, an error path that forgets cleanup, a condition that is slightly too weak or too strong) and must need something SPECIFIC to manifest: an unusual input, a particular multi-step sequence of operations, a particular interleaving or fault point, or two cooperating sites that each look fine alone. Do not produce changes that ordinary use or the existing tests would expose at once, and do not just delete large pieces of functionality.{extra}

For each change k in {{{k0},{k0+1}}} deliver, under {wt}/SEED/k/:
  - patch.diff : `git diff` of the source change only (must apply to a clean checkout with `git apply`), NOT including the demonstration;
  - a demonstration: a new Go test file (say which package directory it goes in; name it zz_seed_demo_test.go) or small program that FAILS with the change applied and PASSES without it;
  - meta.json : {{"property": "{pid}", "summary": "...what was changed...", "needs_to_manifest": "...the specific input/sequence/interleaving...", "demo_location": "<package dir for the test file>", "commands_run": [...], "observed": "...outputs showing demo fails with and passes without the change, and that the existing suite passes with the change..."}}

Verify everything yourself by actually running it: (a) the existing suite passes with the change, (b) the demo fails with the change, (c) the demo passes on the clean tree. When done, restore the worktree to a clean checkout of the source files (git checkout -- . ; remove demo files from package directories), leaving only the SEED/ directory, and delete any build output you created inside the worktree (do NOT run `go clean -cache` or remove anything under ~/.cache: the Go build cache is shared with other jobs). Report in your final message a one-paragraph summary per change.""")
