#!/bin/bash
# usage: seed_recheck.sh <seed-id> <check>...  — runs the given checks against a stored seed (/verif/seeded/<id>/patch.diff,
# applied in a scratch worktree outside /repo and /verif) and adds the ones that report it to meta.json's caught_by.
ID=$1; shift
D=/verif/seeded/$ID
WT=$(mktemp -d /tmp/govc-seed.XXXX)
git -C /repo worktree add -q --detach $WT HEAD
(cd $WT && git apply $D/patch.diff 2>/dev/null || git apply --3way $D/patch.diff) || { echo "$ID: patch does not apply"; git -C /repo worktree remove --force $WT; exit 2; }
caught=""
for C in "$@"; do
  GOVC_REPO=$WT GOVC_CONTRACTS=mirror /verif/bin/govc check --property $C > $D/check_$C.log 2>&1; rc=$?
  sed -i "s#$WT#/repo#g" $D/check_$C.log
  echo "$ID check $C exit=$rc: $(grep '^FAILED\|^REGRESSED' $D/check_$C.log | head -3 | cut -c1-160)"
  [ $rc = 1 ] && caught="$caught $C"
done
python3 - <<PY
import json
p='$D/meta.json'
m=json.load(open(p))
cb=set(m.get('caught_by',[]))|set('$caught'.split())
m['caught_by']=sorted(cb)
m['checks_run']=sorted(set(m.get('checks_run',[]))|set('$*'.split()))
json.dump(m,open(p,'w'),indent=1)
PY
git -C /repo worktree remove --force $WT
