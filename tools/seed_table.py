#!/usr/bin/env python3
# Regenerates the seed table of DESIGN.md section 12.4 (between the markers) from /verif/seeded/*/meta.json.
import json,glob,re
rows=[]
n=0; caught=0
for f in sorted(glob.glob('/verif/seeded/*/meta.json')):
    m=json.load(open(f)); sid=f.split('/')[3]; n+=1
    s=' '.join(m.get('summary','').split())
    s=s.replace('|','/')
    if len(s)>150: s=s[:150]+'…'
    cb=m.get('caught_by',[])
    if cb: caught+=1
    rows.append(f"| {sid} | {s} | {', '.join(cb) if cb else '—'} |")
tab="| seed | change (abridged from the sub-agent's summary) | reported by |\n|---|---|---|\n"+"\n".join(rows)+"\n"
p='/verif/DESIGN.md'
d=open(p).read()
a='<!-- seed-table-begin -->'; b='<!-- seed-table-end -->'
if a in d:
    i=d.index(a)+len(a); j=d.index(b)
    d=d[:i]+"\n"+tab+d[j:]
else:
    i=d.index("| seed | change (abridged")
    j=d.index("\n\n",i)
    d=d[:i]+a+"\n"+tab+b+d[j:]
open(p,'w').write(d)
print(f"{n} seeds, {caught} reported")
