#!/bin/bash
# Must-fail corpus: every seeded change under /verif/seeded must be reported by the checks recorded in its
# meta.json (caught_by). Each patch is applied in a scratch worktree outside /repo and /verif, which is removed afterwards.
cd /verif
fail=0
# optional sharding: SHARD=k NSHARDS=n runs every n-th seed starting at k (0-based)
i=-1
for d in seeded/*/; do
  i=$((i+1))
  [ -n "$NSHARDS" ] && [ $((i % NSHARDS)) != "${SHARD:-0}" ] && continue
  id=$(basename $d)
  checks=$(python3 -c "import json;print(' '.join(json.load(open('$d/meta.json')).get('caught_by',[])))")
  [ -z "$checks" ] && { echo "$id: (no check recorded as catching it)"; continue; }
  WT=$(mktemp -d /tmp/govc-self.XXXX)
  git -C /repo worktree add -q --detach $WT HEAD
  if ! (cd $WT && git apply $OLDPWD/$d/patch.diff 2>/dev/null || git apply --3way $OLDPWD/$d/patch.diff 2>/dev/null); then
    echo "$id: patch no longer applies (skipped)"; git -C /repo worktree remove --force $WT; continue
  fi
  for c in $checks; do
    GOVC_REPO=$WT GOVC_CONTRACTS=mirror bin/govc check --property $c > /tmp/self_$id_$c.log 2>&1; e=$?
    if [ $e = 1 ]; then echo "$id: caught by $c"; else echo "$id: MISSED by $c (exit $e)"; fail=1; fi
    rm -f /tmp/self_$id_$c.log
  done
  git -C /repo worktree remove --force $WT
done
exit $fail
