#!/bin/bash
# Copies the contract mirror /verif/contracts/<pkg>/contracts_verif.go into /repo (comment-only files
# behind the build tag verif) and commits them there as a hook commit.
set -e
changed=""
for d in /verif/contracts/*/; do
  pkg=$(basename $d)
  if [ "$pkg" = ociregistry ]; then dst=/repo/ociregistry/contracts_verif.go
  elif [ "$pkg" = ocirequest ]; then dst=/repo/ociregistry/internal/ocirequest/contracts_verif.go
  else dst=/repo/ociregistry/$pkg/contracts_verif.go; fi
  if ! cmp -s $d/contracts_verif.go $dst; then cp $d/contracts_verif.go $dst; git -C /repo add $dst; changed="$changed $pkg"; fi
done
if [ -n "$changed" ]; then
  git -C /repo commit -qm "verif: contract files (comments only, build tag verif) for:$changed"
  echo "committed:$changed"
else echo "contracts in sync"; fi
